"""Secondary monitors of the thorough tier: the same property workload re-run under
Miri (UB + data-race interpreter with randomised scheduling), ThreadSanitizer or
AddressSanitizer. A report is a violation of the property whose workload produced it
only if a frame of the report is in lumina code (/repo, crates lumina_* / celestia_*);
otherwise it is recorded as an observation. A failed build or an unsupported
operation is inconclusive, never a violation.
"""
import json
import os
import re
import subprocess
import time

from props import PROPS

LUMINA_FRAME = re.compile(r"(/repo/|lumina_node|lumina_utils|celestia_types|celestia_grpc|celestia_proto)")


def _env(extra):
    e = dict(os.environ)
    e["CARGO_NET_OFFLINE"] = "true"
    e["CARGO_TERM_COLOR"] = "never"
    e.update(extra)
    return e


def _result(pdir):
    p = os.path.join(pdir, "result.json")
    if os.path.exists(p):
        try:
            return json.load(open(p))
        except Exception:
            return None
    return None


def _own_violations(name, pid, res):
    """Violations the property's own oracle raised while running under the tool."""
    if not res:
        return None
    sigs = res.get("violation_signatures", {})
    if sigs:
        sig = sorted(sigs)[0]
        return {"name": name, "status": "violation", "signature": sig + "@" + name,
                "message": f"property oracle fired under {name}: {sorted(sigs)}",
                "replay": ""}
    return None


def run_miri(pid, seed, root, harness, out_dir, spec):
    t0 = time.time()
    results = []
    for binname in spec.get("bins") or [spec["bin"]]:
        pdir = os.path.join(out_dir, "miri-" + binname)
        os.makedirs(pdir, exist_ok=True)
        flags = "-Zmiri-disable-isolation -Zmiri-env-forward=VERIF_TINY -Zmiri-env-forward=VERIF_JOBS"
        seeds = spec.get("miri_seeds", 0)
        if seeds:
            flags += f" -Zmiri-many-seeds=0..{seeds}"
        env = _env({"VERIF_TINY": "1", "VERIF_JOBS": "1", "MIRIFLAGS": flags,
                    "CARGO_TARGET_DIR": os.path.join(harness, "target", "miri")})
        cmd = ["cargo", "+nightly", "miri", "run", "--offline", "-p", binname, "--",
               pid, "--tier", "quick", "--seed", str(seed), "--out", pdir]
        logp = os.path.join(pdir, "miri.log")
        try:
            with open(logp, "w") as lf:
                p = subprocess.run(cmd, cwd=harness, env=env, stdout=lf, stderr=subprocess.STDOUT,
                                   timeout=spec.get("miri_timeout_s", 3600))
            rc = p.returncode
        except subprocess.TimeoutExpired:
            results.append({"name": "miri", "status": "inconclusive", "message": "miri watchdog fired"})
            continue
        log = open(logp, errors="replace").read()
        res = _result(pdir)
        ub = re.findall(r"error: (Undefined Behavior[^\n]*|.*[Dd]ata race[^\n]*)", log)
        unsupported = "unsupported operation" in log
        entry = {"name": "miri", "bin": binname, "wall_s": round(time.time() - t0, 1),
                 "schedule_seeds": seeds or 1,
                 "evaluations_under_miri": (res or {}).get("evaluations")}
        if ub:
            in_lumina = bool(LUMINA_FRAME.search(log[log.find("error:"):]))
            entry.update({"status": "violation" if in_lumina else "observation",
                          "signature": f"{pid}/miri/{ub[0][:80]}",
                          "message": ub[0], "replay": os.path.relpath(logp, root)})
        elif unsupported:
            entry.update({"status": "inconclusive", "message": "miri: unsupported operation (see log)"})
        elif rc == 0 and res and not res.get("inconclusive"):
            entry.update({"status": "held"})
        else:
            own = _own_violations("miri", pid, res)
            if own:
                entry.update(own)
            else:
                entry.update({"status": "inconclusive",
                              "message": f"miri run rc={rc} " + str((res or {}).get("inconclusive"))})
        results.append(entry)
    return results


def run_san(kind, pid, seed, root, harness, out_dir, spec):
    t0 = time.time()
    results = []
    flag = {"tsan": "thread", "asan": "address"}[kind]
    rustflags = f"--cfg eigerco_lumina_verif -Zsanitizer={flag} -Cforce-frame-pointers=yes"
    for binname in spec.get("bins") or [spec["bin"]]:
        pdir = os.path.join(out_dir, f"{kind}-{binname}")
        os.makedirs(pdir, exist_ok=True)
        tdir = os.path.join(harness, "target", kind)
        env = _env({"RUSTFLAGS": rustflags, "CARGO_TARGET_DIR": tdir})
        cmd = ["cargo", "+nightly", "build", "--offline", "--profile", "verif", "-p", binname,
               "--target", "x86_64-unknown-linux-gnu"]
        if kind == "tsan":
            cmd.insert(3, "-Zbuild-std")
        b = subprocess.run(cmd, cwd=harness, env=env, stdout=subprocess.PIPE, stderr=subprocess.STDOUT, text=True)
        if b.returncode != 0:
            open(os.path.join(pdir, "build.log"), "w").write(b.stdout)
            results.append({"name": kind, "status": "inconclusive", "message": "sanitizer build failed (see build.log)"})
            continue
        exe = os.path.join(tdir, "x86_64-unknown-linux-gnu", "verif", binname)
        logbase = os.path.join(pdir, "san")
        for f in os.listdir(pdir):
            if f.startswith("san."):
                os.unlink(os.path.join(pdir, f))
        opts = f"halt_on_error=0:log_path={logbase}"
        renv = _env({"VERIF_SAN": "1",
                     "TSAN_OPTIONS": opts + ":exitcode=0:second_deadlock_stack=1",
                     "ASAN_OPTIONS": opts + ":detect_leaks=0:exitcode=0"})
        try:
            with open(os.path.join(pdir, "run.log"), "w") as lf:
                p = subprocess.run([exe, pid, "--tier", "quick", "--seed", str(seed), "--out", pdir],
                                   cwd=root, env=renv, stdout=lf, stderr=subprocess.STDOUT,
                                   timeout=spec.get("san_timeout_s", 3600))
            rc = p.returncode
        except subprocess.TimeoutExpired:
            results.append({"name": kind, "status": "inconclusive", "message": "sanitizer run watchdog fired"})
            continue
        reports = []
        for f in sorted(os.listdir(pdir)):
            if f.startswith("san."):
                txt = open(os.path.join(pdir, f), errors="replace").read()
                for block in re.split(r"={18,}", txt):
                    if "Sanitizer" in block:
                        reports.append(block.strip())
        res = _result(pdir)
        entry = {"name": kind, "bin": binname, "wall_s": round(time.time() - t0, 1),
                 "evaluations_under_sanitizer": (res or {}).get("evaluations"),
                 "report_blocks": len(reports)}
        lum = [r for r in reports if LUMINA_FRAME.search(r)]
        if lum:
            first = lum[0].splitlines()[0][:100]
            entry.update({"status": "violation", "signature": f"{pid}/{kind}/{first}",
                          "message": first, "replay": os.path.relpath(pdir, root)})
        elif reports:
            entry.update({"status": "observation",
                          "message": "reports only in dependency code: " + reports[0].splitlines()[0][:120]})
        elif rc in (0,) and res and not res.get("inconclusive"):
            entry.update({"status": "held"})
        else:
            own = _own_violations(kind, pid, res)
            if own:
                entry.update(own)
            else:
                entry.update({"status": "inconclusive",
                              "message": f"{kind} run rc={rc} " + str((res or {}).get("inconclusive"))})
        results.append(entry)
    return results


def run(name, pid, seed, root, harness, out_dir):
    spec = PROPS[pid]
    if name == "miri":
        rs = run_miri(pid, seed, root, harness, out_dir, spec)
    else:
        rs = run_san(name, pid, seed, root, harness, out_dir, spec)
    # collapse per-bin results: worst status wins
    order = {"violation": 3, "inconclusive": 2, "observation": 1, "held": 0}
    rs.sort(key=lambda r: -order.get(r.get("status"), 2))
    top = dict(rs[0])
    top["name"] = name
    if len(rs) > 1:
        top["all_bins"] = rs
    return top
