P("C11", "vt",
  technique="round-trip and size comparison against an independent share encoder",
  design_ref="DESIGN.md §5 C11",
  level_text="Every data length 1..=4096 (thorough: plus every length within 2 bytes of a share boundary up to 64 KiB "
             "and MiB-sized blobs) x {share version 0 / no signer, share version 1 / signer} x app versions is split by the "
             "real Blob::to_shares, compared byte for byte with an independent encoder of the share layout and with the "
             "independent ceiling formula, compared with shares_len(), and reconstructed; 1.5k (thorough 30k) sequences of "
             "1..6 blobs interleaved with reserved-namespace shares go through reconstruct_all. Exhaustive over the stated "
             "length range, sampled over namespaces/signers/data.",
  level_note="Trusted: the harness's share layout model (c11_model.rs, ~40 lines, cross-checked against lumina on every case: "
             "a disagreement is reported, not assumed). Namespace padding shares of user namespaces are outside the property text "
             "(observed separately: reconstruct_all turns each into an empty blob).")

P("C12", "vt",
  technique="differential check against an independent ADR-013 commitment implementation",
  design_ref="DESIGN.md §5 C12",
  level_text="Commitment::from_blob / Blob::new / Commitment::from_shares are compared with an independent implementation "
             "(own share encoder, own subtree-width and merkle-mountain-range partition, NMT roots and RFC-6962 root from "
             "vcore::sha on sha2 only) for every share count 1..=300 (thorough 1..=1000), powers of two and 64*2^k +-1, "
             "multiples of 64 +-1, perfect squares +-1, up to 5000, plus 16385 (thorough up to 32769) shares where the "
             "min-square-size bound binds; both share versions, random valid app versions. Blob::validate is checked to accept "
             "exactly when the stored commitment equals the independent value over 12 tamper families (both outcomes observed "
             "per family where the family allows it).",
  level_note="Trusted: c11_model.rs + vcore::sha as the specification (SubtreeRootThreshold = 64 for app versions 1..7), sha2. "
             "Field combinations without a defined encoding (share version 1 without signer etc.) are only recorded.")

P("C13", "vt", also_release=True,
  technique="mutation testing of proofs against a ground-truth tree / square kept by the harness",
  design_ref="DESIGN.md §5 C13",
  level_text="The harness keeps every node of the real RFC-6962 tree (vcore::sha) and the real square; a candidate is legitimate "
             "iff index < total and the walk prescribed by (index, total) ends at the claimed leaf with the claimed aunts and root. "
             "accepted => legitimate, honest => accepted, no panic. (A) leaf lists of every size 1..=300, every index (quick: "
             "every index up to 64 leaves, 14 above), ~60 mutants per proof incl. index >= total, total 0 / <= index / > 2^63, "
             "aunt edits, foreign roots; (B) every row range (sampled above a cap) of DAHs of real squares and of random roots "
             "with 2..64 rows, ~35 mutants through the protobuf type incl. span 0..=65535; (C) share proofs for every namespace "
             "run of real squares (ODS 1..16, thorough 32), ~45 mutants through the protobuf type incl. u32 range-sum wrap. "
             "Run under overflow-checked and plain release profiles (thorough): arithmetic defects surface as panics in the "
             "former and as wrongly accepted proofs / slice panics in the latter.",
  level_note="Trusted: vcore::sha, SHA-256 collision resistance, nmt-rs for building the honest NMT range proofs of part C. "
             "Not demanded (recorded as observations): RowProof does not bind the claimed row numbers to the merkle indices "
             "(relabelled rows and column roots verify), NMT range proofs do not bind the tree size.")
