#!/usr/bin/env python3
"""Generate MANIFEST.json from props.py (claimed checks) and properties.jsonl
(everything not claimed is listed under not_applicable with its reason)."""
import json
import os
import subprocess

ROOT = os.path.dirname(os.path.abspath(__file__))
import sys
sys.path.insert(0, ROOT)
from props import PROPS, NOT_CLAIMED  # noqa: E402

ids = [json.loads(l)["id"] for l in open(os.path.join(ROOT, "properties.jsonl"))]

hook_commits = subprocess.run(
    ["git", "-C", "/repo", "log", "--format=%H %s", "--grep=^verif hooks"],
    stdout=subprocess.PIPE, text=True).stdout.strip().splitlines()

baseline = json.load(open("/root/.vp/BASELINE.json"))["cmd"]

manifest = {
    "version": 1,
    "setup_cmd": "./setup.sh",
    "hooks": {
        "guard": "eigerco_lumina_verif",
        "enable": "rustc --cfg eigerco_lumina_verif (set in harness/.cargo/config.toml [build] rustflags) plus cargo feature test-utils of lumina-node/celestia-types; hooks live in node/src/verif.rs and small verif_* shims",
        "baseline_off_cmd": baseline,
        "source_commits": [c.split()[0] for c in hook_commits],
        "add_only": True,
    },
    "engines": [
        {"name": "vt", "path": "harness/vt", "kind_free_text": "runtime monitors over celestia-types/-proto (real code + executable oracles, seeded workloads)",
         "serves_properties": sorted(p for p, s in PROPS.items() if s["bin"] == "vt")},
        {"name": "vn", "path": "harness/vn", "kind_free_text": "runtime monitors over lumina-node components through cfg-guarded hooks (virtual time, mocked network, event logs, reference models)",
         "serves_properties": sorted(p for p, s in PROPS.items() if s["bin"] == "vn")},
        {"name": "vg", "path": "harness/vg", "kind_free_text": "runtime monitors over celestia-grpc with an in-process fake gRPC node (trace checking)",
         "serves_properties": sorted(p for p, s in PROPS.items() if s["bin"] == "vg")},
    ],
    "checks": [],
    "not_applicable": [],
    "notes": "All checks: ./check <ID> --tier quick|thorough; exit 0 held / 1 VIOLATION / 3 INCONCLUSIVE (never folded). Known findings: known_findings.json. Technique family: runtime monitoring and sanitizers only.",
}

for pid in ids:
    if pid in PROPS:
        s = PROPS[pid]
        manifest["checks"].append({
            "property_id": pid,
            "quick_cmd": f"./check {pid} --tier quick",
            "thorough_cmd": f"./check {pid} --tier thorough",
            "evidence_file": f"/verif/evidence/{pid}.json",
            "replay_cmd_template": "./check --replay {path}",
            "engine": s["bin"],
            "level_claimed": {
                "category": s["level"],
                "text": s["level_text"],
                "design_ref": s.get("design_ref", "DESIGN.md §5"),
            },
            "level_note": s["level_note"],
            "technique": s["technique"],
        })
    else:
        manifest["not_applicable"].append({
            "property_id": pid,
            "reason": NOT_CLAIMED.get(pid, "monitor not built yet; planned as described in DESIGN.md §5 (runtime monitor with executable oracle)"),
        })

with open(os.path.join(ROOT, "MANIFEST.json"), "w") as f:
    json.dump(manifest, f, indent=1)
    f.write("\n")

try:
    import jsonschema
    jsonschema.validate(manifest, json.load(open("/root/.vp/MANIFEST.schema.json")))
    print("MANIFEST.json valid;", len(manifest["checks"]), "checks,", len(manifest["not_applicable"]), "not claimed")
except ImportError:
    print("jsonschema not importable here; wrote MANIFEST.json without validation")
