P("C18", "vn", also_release=False,
  technique="runtime monitoring: every call of the real BlockRanges::check_insertion_constraints is compared online with the property text evaluated on an executable interval-set model (admit/refuse decision and both neighbour flags); exhaustive small universe + boundary-pool random inputs",
  design_ref="DESIGN.md §5 C18",
  level_text="Exploration: every stored subset of heights 1..10 (thorough 1..12) x every candidate a..=b with a,b in 0..N+2 "
             "(height 0 and inverted ranges included) plus the candidates ending at u64::MAX-1 / u64::MAX, and random stored sets over "
             "a u64 boundary pool {small, 2^32±, 2^63±, u64::MAX-k, u64::MAX} with candidates whose endpoints lie within ±2 of a range "
             "edge (quick 0.8 M sets x 12 candidates = 9.8 M calls, thorough 30 M sets = 361 M calls), under overflow checks and "
             "debug assertions. Oracle: admitted <=> valid range, disjoint from the stored set, and (nothing stored | starts above the "
             "highest stored height | a-1 stored | b+1 stored); flags == (a-1 stored, b+1 stored). Coverage floors: all six legal and all "
             "three illegal classes (by the model) occur >= 1000 times, >= 1000 calls touch u64::MAX. Held = no divergence and no panic on "
             "the calls observed.",
  level_note="Trusted: the ISet interval model in harness/vn/src/c18.rs (u128 arithmetic). The kind of error of a refused range is not part "
             "of the text and only recorded (always the expected kind so far). Release profile not run: the function is pure and raised no "
             "overflow/debug-assertion panic on any generated input, so release semantics coincide on these inputs.")

P("C24", "vn", also_release=False,
  technique="runtime monitoring: every batch returned by the real calculate_range_to_fetch (hook) is judged against the property text on an interval-set model; the same oracle judges the first batch announced by a real Syncer worker over mocked P2p + InMemoryStore in virtual time",
  design_ref="DESIGN.md §5 C24",
  level_text="Exploration: (a) every synced (= stored ∪ pruned) subset of heights 1..12, each fed through K stored/pruned splits "
             "united by the real `pruned + &stored` as the worker does (K = 4 quick / 48 thorough), x head 0..13 and u64::MAX x limit 0..13 "
             "and u64::MAX; (b) random synced sets over a u64 boundary pool with head/limit from the pool or within ±2 of a range edge "
             "(quick 0.6 M sets x 8 = 8.5 M calls in total, thorough 30 M sets = 284 M calls); (c) real Syncer worker on random "
             "stored/pruned layouts over 12 signed headers with a trusted peer reporting any head the store accepts, batch size 1..16 "
             "(quick 4 000 runs, thorough 60 000): the FetchingHeadersStarted range + first header request are judged. Oracle per batch: only "
             "heights >= 1 that are neither stored nor pruned; size <= limit; max <= head; directly above the highest synced height (when that "
             "is below the head) or directly below the highest synced range; empty only if limit = 0 or no such height exists. With nothing "
             "synced any batch satisfying the first three clauses is accepted; head = 0 (never passed by the worker) is watched for panics only. "
             "Coverage floors on input classes (behind head, caught up with a gap below, fully synced, nothing synced, limit 0, u64::MAX). "
             "On the pinned tree the monitor fires for one input class only: head below the highest synced height with the gap under the "
             "highest synced range lying above that head (signatures C24/calculate_range_to_fetch/above-head/head-below-highest-synced and "
             "C24/worker/above-head/head-below-highest-synced; see agent_out/C18.md).",
  level_note="Trusted: ISet model (harness/vn/src/c18.rs); reading of fetch_next_batch that the returned range is requested unchanged or not at "
             "all (confirmed at worker level: batch_differs_from_hook_result = 0). The clause 'so that inserting it extends stored data' is "
             "taken as the rationale of the position rule (the function sees stored ∪ pruned only); a batch the store later refuses is C25/C38 "
             "territory. Worker stage uses wall-clock only for the sampling-window test (headers 1 h old, window 30 d). Release profile not "
             "run: pure function, no overflow panic on any generated input.")

P("C36", "vn", also_release=False,
  technique="runtime monitoring: every answer of the real pruner window search (hook, fresh cache) on real InMemoryStores of signed headers is checked against the property text using ground-truth header times; exhaustive small universe, random larger stores, worker-like histories feeding the function its own earlier answers",
  design_ref="DESIGN.md §5 C36",
  level_text="Exploration: one honest signed chain with time(h) = T0 + 1000 s*h. (a) every stored subset of heights 1..10 (thorough 1..13), "
             "stores built alternately by bottom-up insertion of runs and by inserting everything and removing the rest, x 41 (53) cutoff "
             "positions (between neighbours, before the first, after the last, exactly on each header time, 1 ns either side) x every "
             "admissible previous answer = None or any chain height with time <= cutoff, still stored or not; (b) random run/gap subsets of a "
             "48-header chain x 120 random (cutoff, prev) pairs (quick 2 000 stores, thorough 40 000); (c) 25-step histories (quick 5 000, "
             "thorough 120 000) in which the cutoff advances, the store loses (pruner-like) and gains (syncer-like) headers and prev is the "
             "running maximum of the function's own answers, exactly as Worker::update_cached_data does. Quick 0.62 M calls, thorough 11.1 M. "
             "Oracle: Some(r) => r stored, time(r) <= cutoff, no stored h > r with time(h) < cutoff; None => no stored header strictly older "
             "than the cutoff; Err or panic on a consistent store => violation. A header exactly on the cutoff may or may not be reported. "
             "Floors: every (prev class x older-header-exists) input class, edge above/at/below prev, ties, >= 2 000 history steps.",
  level_note="Trusted: header times are ground truth of vgen::chain::ChainGen (asserted against the model at start); InMemoryStore returns what "
             "was inserted (C19); admissible prev derived from the property text (module doc of c36.rs). The hook creates a fresh Cache per "
             "call, so the production BlockInfo cache is not exercised. No wall-clock involved (cutoff is an argument).")
