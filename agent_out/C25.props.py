P("C25", "vn", also_release=False,
  technique="real Syncer worker in tokio virtual time over mocked P2p + LoggedStore; harness is network and pruner; offline checker over one ordered event log",
  design_ref="DESIGN.md §5 C25 (suspected defect §6 S12)",
  level_text="Exploration of generated histories: each run builds an honest chain whose heights 1..n_old are >= 2 h older than the "
             "sampling window and whose remaining heights are >= 2 h inside it, starts the real syncer (batch 8..512, optional "
             "pre-filled old / stale / straddling ranges), answers every header-ex request honestly with random delay, order and "
             "prefix truncation, announces new heads over header-sub, plays the daser (marks in-window headers sampled) and the "
             "pruner (removes the window-bounding header only / all old heights highest-first like the real pruner / bottom-up / "
             "random old heights / sampled in-window interior heights), then observes 200 further virtual seconds (or 400 range "
             "requests). The checker rebuilds stored/pruned sets from acknowledged store mutations and flags every batch "
             "(FetchingHeadersStarted) and every range request whose lowest synced height above it is older than the window; "
             "'pruned' vs 'still stored' neighbour give two distinct signatures. Quick: 64 runs (~1.5-3k batches, >= 12 runs in "
             "which the syncer was triggered while the bounding header was pruned, >= 25 in which it stopped at a stored old "
             "header), ~5 s with the fix / ~15 s on the unchanged tree (re-request loops are expensive); thorough: 2000 runs. Held = no such request on these histories, not a proof for all schedules.",
  level_note="Trusted: header age is ground truth of the generated chain (wall-clock margin >= 2 h); tokio paused clock; InMemoryStore "
             "behind vnode::LoggedStore; the mocked P2p command channel as the boundary of the real P2p worker; the harness-pruner "
             "removes in-window heights only when they are not edges of stored+pruned ranges (what the real pruner does), old "
             "heights arbitrarily. On the unchanged tree the monitor fires with signature C25/refetch-below-pruned-edge (genuine "
             "defect S12, fix in agent_out/C25.fix.patch).")

P("C38", "vn", level="fault_enumeration", also_release=False,
  technique="real Syncer worker in tokio virtual time against a hostile fake header network (27 fault scripts, wire-level faults through the real header-ex client filter); offline store-content checker + bounded-progress check in requests / virtual time",
  design_ref="DESIGN.md §5 C38",
  level_text="Fault enumeration: per run an honest chain (0..150 heights outside, 200..900 (thorough 2000) inside the sampling window, "
             "1-3 validators) and two complete fork chains (unknown validators; the honest validators' own keys). Phase 1 answers "
             "range requests from a budget of 10..90 faults drawn from 27 scripts (fork full/prefix, honest+fork splices, whole "
             "batches served coherently from one fork, invalid signature / tampered / gapped / wrong-start / too-many / duplicate / "
             "empty / not-found / invalid-status / garbage / shuffled wire responses passed through the real "
             "decode_and_verify_responses, five transport failures, silence), lets head requests fail or return stale honest "
             "heads, loses or skips header-sub announcements and disconnects/reconnects all peers (untrusted first). Phase 2 "
             "answers honestly (full, or shorter with probability up to 40 %). Safety oracle over the whole log: every header whose insertion the store "
             "acknowledged, and the final store content, equals the honest header of that height. Progress oracle: all heights of "
             "the window up to the newest head the node was told about are stored within 4*ceil(missing/r)+64+8*ticks+2*short "
             "range requests and 1500 virtual seconds. Coverage floors: every script injected, both coherent-fork kinds, store-level "
             "neighbour refusals, runs with work left for phase 2. Quick: 32 runs (~1.1k faults, ~3.5k range requests); thorough: "
             "800 runs (~30k faults).",
  level_note="Assumed: head requests are answered with honest (possibly stale/late/failing) content (trusted peers); header-sub "
             "delivers only honest headers with increasing heights (what the real worker's validate+verify lets through with "
             "< 1/3 byzantine power); forks signed with the honest validators' keys are offered only below the node's stored head "
             "(above it the light-client model assumes > 2/3 honest power); the daser samples every stored in-window header at each "
             "tick; 'eventually' is restated as the request/virtual-time bound above; slow-sync classification near the 10-min "
             "pruning cutoff depends on wall-clock but only affects pacing, not the verdict. No pruner in this harness (C25/C35).")
