#!/bin/sh
# MANIFEST.setup_cmd: offline build of all harness binaries against /repo's working tree.
set -e
cd "$(dirname "$0")"
export CARGO_NET_OFFLINE=true
exec ./check --build
