#!/bin/sh
# Create a private scratch workspace for developing/validating monitors:
#   /tmp/ws-<name>/repo     git worktree of /repo HEAD (edit freely: seeded breaks, trial fixes)
#   /tmp/ws-<name>/harness  copy of /verif/harness (with warm target dir), path deps -> that worktree
# Usage: tools/mkws.sh <name>
set -e
N="$1"; [ -n "$N" ] || { echo "usage: mkws.sh <name>"; exit 2; }
W=/tmp/ws-$N
rm -rf "$W/harness"
[ -d "$W/repo" ] && git -C /repo worktree remove --force "$W/repo" 2>/dev/null || true
mkdir -p "$W"
git -C /repo worktree add --detach "$W/repo" HEAD >/dev/null
cp -a /verif/harness "$W/harness" 2>/dev/null || true
sed -i "s#/repo/#$W/repo/#g" "$W/harness/Cargo.toml"
sed -i "s#/verif/harness/target#$W/harness/target#" "$W/harness/.cargo/config.toml"
echo "workspace ready: $W  (build: cd $W/harness && cargo build --offline --profile verif -p <vt|vn|vg>)"
