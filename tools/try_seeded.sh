#!/bin/sh
# Exploratory: run checks against a delivered seeded patch in the scratch workspace /tmp/ws-seed
# (never touches /repo). usage: tools/try_seeded.sh <patch.diff> <PROP> [<PROP>...]
P="$1"; shift
W=/tmp/ws-seed
git -C $W/repo checkout -- . && git -C $W/repo apply --whitespace=nowarn "$P" || { echo "patch does not apply"; exit 2; }
for id in "$@"; do
  out=$(cd /verif && VERIF_HARNESS=$W/harness VERIF_SCRATCH=$W ./check $id --tier quick 2>&1)
  echo "$id rc=$? :: $(echo "$out" | grep -E '^(VIOLATION|INCONCLUSIVE|HELD)' | cut -c1-300 | head -3 | tr '\n' '|')"
done
git -C $W/repo checkout -- .
