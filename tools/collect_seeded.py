#!/usr/bin/env python3
"""Copy confirmed seeded changes from /tmp/sb-out/<id> into /verif/seeded/<id>/ (patch.diff, demo.diff,
meta.json, confirm.json). Prints the ids that are new."""
import json, os, shutil, sys
SRC, DST = "/tmp/sb-out", "/verif/seeded"
os.makedirs(DST, exist_ok=True)
new = []
for sid in sorted(os.listdir(SRC)):
    c = os.path.join(SRC, sid, "confirm.json")
    if not os.path.isfile(c) or not json.load(open(c)).get("ok"):
        continue
    d = os.path.join(DST, sid)
    if os.path.isdir(d):
        continue
    os.makedirs(d)
    for f in ("patch.diff", "demo.diff", "meta.json", "confirm.json"):
        p = os.path.join(SRC, sid, f)
        if os.path.isfile(p):
            shutil.copy(p, os.path.join(d, f))
    m = os.path.join(d, "meta.json")
    if not os.path.isfile(m):
        json.dump({"property": sid.split("-")[0], "title": sid}, open(m, "w"))
    else:
        try:
            mm = json.load(open(m))
        except Exception:
            mm = {"title": sid}
        mm.setdefault("property", sid.split("-")[0])
        mm["confirmed_by"] = "tools/confirm_seeded.py (demo fails with change / passes without; workspace suite keeps all stable tests)"
        json.dump(mm, open(m, "w"), indent=1)
    new.append(sid)
print(" ".join(new))
