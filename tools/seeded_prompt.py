#!/usr/bin/env python3
"""Print the seeded-break author prompt for one property id (only the property text is given)."""
import json, sys
pid = sys.argv[1]
n = sys.argv[2] if len(sys.argv) > 2 else "2"
tmpl = open('/verif/tools/seeded_prompt.md').read()
for l in open('/verif/properties.jsonl'):
    p = json.loads(l)
    if p['id'] == pid:
        files = ", ".join(p['anchors']['files'])
        crates = sorted({f.split('/')[0] for f in p['anchors']['files']})
        cmap = {'types': 'celestia-types', 'node': 'lumina-node', 'grpc': 'celestia-grpc', 'utils': 'lumina-utils', 'proto': 'celestia-proto'}
        filt = " ".join("-p " + cmap[c] for c in crates if c in cmap)
        name = "sb" + pid.lower()
        out = tmpl
        for k, v in {"{WORKTREE}": f"/tmp/sb-{name}/repo", "{MKSB}": f"mksb {name}", "{RMSB}": f"rmsb {name}",
                     "{ID}": pid, "{TITLE}": p['title'], "{STATEMENT}": p['statement'],
                     "{QUANTIFIER}": p['quantifier']['text'], "{FILES}": files, "{N}": n,
                     "{TESTFILTER}": f"for quick iterations replace `--workspace` by `{filt}`, and run the whole workspace once at the end",
                     "{OUTDIR}": "/tmp/sb-out"}.items():
            out = out.replace(k, v)
        print(out)
