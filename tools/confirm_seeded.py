#!/usr/bin/env python3
"""Confirm a seeded change delivered by an independent author before it is kept:

  tools/confirm_seeded.py <slot> <dir> [<dir> ...]

<slot> names a persistent scratch worktree /tmp/cf-<slot>/repo (own target dir, warm after the
first use). For every delivered directory (patch.diff, demo.diff, meta.json):
  1. unchanged tree + demo      -> the demonstration tests must PASS
  2. patch + demo               -> at least one demonstration test must FAIL
  3. patch only                 -> workspace builds and no test of BASELINE.stable_pass fails
Writes <dir>/confirm.json. Nothing is ever applied to /repo itself.
"""
import json
import os
import re
import subprocess
import sys
import time

BASE = json.load(open("/root/.vp/BASELINE.json"))
STABLE = set(BASE["stable_pass"])
CRATE = {"types": "celestia-types", "node": "lumina-node", "grpc": "celestia-grpc",
         "utils": "lumina-utils", "proto": "celestia-proto", "rpc": "celestia-rpc", "client": "celestia-client"}


def sh(cmd, cwd=None, timeout=3600):
    p = subprocess.run(cmd, cwd=cwd, stdout=subprocess.PIPE, stderr=subprocess.STDOUT, text=True,
                       timeout=timeout, shell=isinstance(cmd, str))
    return p.returncode, p.stdout


def reset(wt):
    sh(["git", "checkout", "--", "."], cwd=wt)
    sh(["git", "clean", "-fdq", "-e", "target"], cwd=wt)


def demo_tests(demo_diff):
    """(crates, test names) added by the demonstration diff."""
    names, crates = [], set()
    cur = None
    for l in open(demo_diff, errors="replace"):
        m = re.match(r"\+\+\+ b/(\S+)", l)
        if m:
            cur = m.group(1)
            top = cur.split("/")[0]
            if top in CRATE:
                crates.add(CRATE[top])
            continue
        m = re.match(r"\+\s*(?:pub\s+)?(?:async\s+)?fn\s+([a-zA-Z0-9_]+)\s*[<(]", l)
        if m and cur:
            names.append(m.group(1))
    return sorted(crates), names


def run_nextest(wt, args, log):
    cmd = ["cargo", "nextest", "run", "--offline", "--no-fail-fast", "--test-threads", "8",
           "--tool-config-file", "pb:/w/lib/nextest.toml", "--profile", "pb"] + args
    env = dict(os.environ, CARGO_NET_OFFLINE="true", CARGO_TERM_COLOR="never")
    p = subprocess.run(cmd, cwd=wt, env=env, stdout=subprocess.PIPE, stderr=subprocess.STDOUT, text=True)
    open(log, "w").write(p.stdout)
    failed = set()
    for l in p.stdout.splitlines():
        m = re.match(r"\s+(FAIL|TIMEOUT|SIGABRT|SIGSEGV|LEAK-FAIL)\s+\[.*?\]\s+\(\s*\d+/\d+\)\s+(\S+)\s+(\S+)", l)
        if m:
            failed.add((m.group(2), m.group(3)))
    summ = re.search(r"Summary \[.*?\] (.*)", p.stdout)
    built = "error: could not compile" not in p.stdout and "error[E" not in p.stdout
    return p.returncode, failed, (summ.group(1) if summ else "no summary"), built


def confirm(wt, d):
    out = {"dir": d, "ok": False}
    patch, demo = os.path.join(d, "patch.diff"), os.path.join(d, "demo.diff")
    if not (os.path.isfile(patch) and os.path.isfile(demo)):
        out["error"] = "patch.diff or demo.diff missing"
        return out
    crates, names = demo_tests(demo)
    out["demo_crates"], out["demo_tests"] = crates, names
    if not names or not crates:
        out["error"] = "could not find demonstration tests in demo.diff"
        return out
    filt = " | ".join(f"test(/{n}(::|$)/)" for n in names)
    pk = []
    for c in crates:
        pk += ["-p", c]

    # 1. change + demo: the whole existing suite must keep its stable tests, the demo must fail
    reset(wt)
    rc, o = sh(["git", "apply", "--whitespace=nowarn", demo], cwd=wt)
    if rc != 0:
        out["error"] = "demo.diff does not apply: " + o[-300:]
        return out
    rc, o = sh(["git", "apply", "--whitespace=nowarn", patch], cwd=wt)
    if rc != 0:
        out["error"] = "patch.diff does not apply: " + o[-300:]
        reset(wt)
        return out
    rc, failed, summ, built = run_nextest(wt, ["--workspace"], os.path.join(d, "confirm-suite.log"))
    if not built:
        out["error"] = "workspace does not build with the change"
        reset(wt)
        return out
    demo_failed = sorted(t for (_b, t) in failed if any(t.endswith(n) or ("::" + n + "::") in ("::" + t) for n in names))
    out["demo_changed"] = {"summary": summ, "failed": demo_failed}

    def stable_of(fs):
        return sorted({(b, t) for (b, t) in fs
                       if f"{b.split('::')[0]}::{t}" in STABLE or f"{b}::{t}" in STABLE})
    sf = stable_of(failed)
    # timing-sensitive tests flake on a loaded machine: re-run the failing stable tests alone, twice
    for attempt in range(2):
        if not sf:
            break
        filt2 = " | ".join(f"test(/^{re.escape(t)}$/)" for (_b, t) in sf)
        rc2, failed2, summ2, _ = run_nextest(wt, ["--workspace", "-E", filt2],
                                             os.path.join(d, f"confirm-suite-retry{attempt}.log"))
        sf = [x for x in sf if x in stable_of(failed2)]
    stable_failed = sorted(f"{b.split('::')[0]}::{t}" for (b, t) in sf)
    out["suite"] = {"summary": summ, "stable_tests_failing": stable_failed}
    if stable_failed:
        out["error"] = "existing tests fail with the change"
        reset(wt)
        return out
    if not demo_failed:
        out["error"] = "demonstration does not fail with the change"
        reset(wt)
        return out

    # 2. demo on the unchanged tree
    rc, o = sh(["git", "apply", "-R", "--whitespace=nowarn", patch], cwd=wt)
    if rc != 0:
        out["error"] = "could not revert patch: " + o[-300:]
        reset(wt)
        return out
    rc, failed, summ, built = run_nextest(wt, pk + ["-E", filt], os.path.join(d, "confirm-demo-unchanged.log"))
    out["demo_unchanged"] = {"rc": rc, "summary": summ, "failed": sorted(map(str, failed))}
    reset(wt)
    if not built or rc != 0 or failed or " 0 passed" in summ or "no summary" in summ:
        out["error"] = "demonstration does not pass on the unchanged tree"
        return out
    out["ok"] = True
    return out


def main():
    slot = sys.argv[1]
    wt = f"/tmp/cf-{slot}/repo"
    if not os.path.isdir(wt):
        os.makedirs(f"/tmp/cf-{slot}", exist_ok=True)
        sh(["git", "-C", "/repo", "worktree", "add", "--detach", wt, "HEAD"])
    else:
        reset(wt)
        sh(["git", "checkout", "--detach", sh(["git", "-C", "/repo", "rev-parse", "HEAD"])[1].strip()], cwd=wt)
    for d in sys.argv[2:]:
        if os.path.isfile(os.path.join(d, "confirm.json")):
            continue  # already decided (possibly by another slot)
        t0 = time.time()
        try:
            r = confirm(wt, os.path.abspath(d))
        except Exception as e:  # noqa
            r = {"dir": d, "ok": False, "error": f"confirm script error: {e}"}
        r["wall_s"] = round(time.time() - t0, 1)
        json.dump(r, open(os.path.join(d, "confirm.json"), "w"), indent=1)
        print(("CONFIRMED " if r["ok"] else "REJECTED  ") + d + ("" if r["ok"] else "  :: " + r.get("error", "")))


if __name__ == "__main__":
    main()
