#!/bin/sh
# Scratch worktree for a seeded-break author: /tmp/sb-<name>/repo = git worktree of /repo HEAD
# with a warm copy of /repo/target (so `cargo test` only rebuilds the workspace crates).
set -e
N="$1"; [ -n "$N" ] || { echo "usage: mksb.sh <name>"; exit 2; }
W=/tmp/sb-$N
[ -d "$W/repo" ] && git -C /repo worktree remove --force "$W/repo" 2>/dev/null || true
rm -rf "$W"; mkdir -p "$W"
git -C /repo worktree add --detach "$W/repo" HEAD >/dev/null
if [ -d /repo/target ]; then cp -a /repo/target "$W/repo/target"; fi
echo "$W/repo"
