#!/bin/sh
# Scratch worktree for a seeded-break author: /tmp/sb-<name>/repo = git worktree of /repo HEAD.
set -e
N="$1"; [ -n "$N" ] || { echo "usage: mksb <name>"; exit 2; }
W=/tmp/sb-$N
[ -d "$W/repo" ] && git -C /repo worktree remove --force "$W/repo" 2>/dev/null || true
rm -rf "$W"; mkdir -p "$W"
git -C /repo worktree add --detach "$W/repo" HEAD >/dev/null
echo "$W/repo   (cold target dir: first 'cargo test -p <crate>' build takes several minutes; build only the crates you need: -p celestia-types / -p lumina-node / -p celestia-grpc; disk is scarce - do not build the whole workspace more than once)"
