#!/usr/bin/env python3
"""Compare a nextest log (status-level=fail) with BASELINE.json stable_pass: prints the
stable tests that failed / timed out in the log."""
import json, re, sys
b = json.load(open('/root/.vp/BASELINE.json'))
stable = set(b['stable_pass'])
bad = set()
for l in open(sys.argv[1], errors='replace'):
    m = re.match(r'\s+(FAIL|TIMEOUT|SIGABRT|SIGSEGV|LEAK-FAIL)\s+\[.*?\]\s+\(\s*\d+/\d+\)\s+(\S+)\s+(\S+)', l)
    if m:
        binid, test = m.group(2), m.group(3)
        crate = binid.split('::')[0]
        names = {f"{crate}::{test}", f"{binid}::{test}"}
        bad |= names
hit = sorted(stable & bad)
print(f"stable tests failing in this log: {len(hit)}")
for h in hit: print("  ", h)
