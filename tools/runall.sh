#!/bin/sh
# usage: tools/runall.sh [tier] ID...   -> one summary line per property
TIER=$1; shift
for id in "$@"; do
  out=$(./check $id --tier $TIER 2>&1)
  rc=$?
  echo "$id rc=$rc :: $(echo "$out" | grep -E '^(VIOLATION|INCONCLUSIVE|HELD|KNOWN-FINDING|property=)' | cut -c1-260 | tr '\n' '|')"
done
