#!/usr/bin/env python3
"""Regenerate the table of DESIGN.md §10 (b) from seeded/*/meta.json, confirm.json and seeded/RESULTS.json."""
import json, os, re
ROOT = os.path.dirname(os.path.dirname(os.path.abspath(__file__)))
S = os.path.join(ROOT, "seeded")
res = json.load(open(os.path.join(S, "RESULTS.json"))) if os.path.exists(os.path.join(S, "RESULTS.json")) else {}
rows = []
for sid in sorted(os.listdir(S)):
    d = os.path.join(S, sid)
    if not os.path.isfile(os.path.join(d, "meta.json")):
        continue
    m = json.load(open(os.path.join(d, "meta.json")))
    r = res.get(sid, {})
    sigs = []
    for pid, run in r.get("runs", {}).items():
        for l in run.get("verdict_lines", []):
            mm = re.search(r"signature=(\S+)", l)
            if mm:
                sigs.append(mm.group(1))
    caught = "yes" if r.get("caught") else ("not run" if not r else "**NO**")
    title = (m.get("title") or m.get("what_changed", ""))[:140].replace("|", "/").replace("\n", " ")
    needs = (m.get("needs_to_manifest", ""))[:160].replace("|", "/").replace("\n", " ")
    note = m.get("verif_note", "")
    rows.append(f"| {sid} | {m.get('property','')} | {title} | {needs} | {caught} | {', '.join(f'`{x}`' for x in sigs[:2])} {note} |")
tbl = "| seeded change | property | change | needs to manifest | caught by quick check | signature(s) / note |\n|---|---|---|---|---|---|\n" + "\n".join(rows)
n = len(rows)
c = sum(1 for sid in res if res[sid].get("caught"))
tbl += f"\n\n{c} of {n} kept changes are caught by the quick check of the property they break."
p = os.path.join(ROOT, "DESIGN.md")
s = open(p).read()
s = re.sub(r"<!-- SEEDED:BEGIN -->.*?<!-- SEEDED:END -->", "<!-- SEEDED:BEGIN -->\n" + tbl + "\n<!-- SEEDED:END -->", s, flags=re.S)
open(p, "w").write(s)
print(f"{n} rows, {c} caught")
