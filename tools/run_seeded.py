#!/usr/bin/env python3
"""Run the registered checks against the seeded property-breaking changes kept in
/verif/seeded/<id>/ (patch.diff + meta.json). For each change: apply it to /repo's
working tree, run the quick check(s) of the property it breaks (optionally all
checks), record the verdict, and undo the change straight afterwards.

  tools/run_seeded.py [--only <id>[,<id>]] [--tier quick|thorough] [--all-props]

Never commits anything in /repo. Refuses to run when /repo has uncommitted changes.
Results: /verif/seeded/RESULTS.json and RESULTS.md.
"""
import json
import os
import subprocess
import sys
import time

ROOT = os.path.dirname(os.path.dirname(os.path.abspath(__file__)))
SEEDED = os.path.join(ROOT, "seeded")


def sh(cmd, **kw):
    return subprocess.run(cmd, stdout=subprocess.PIPE, stderr=subprocess.STDOUT, text=True, **kw)


def repo_clean():
    return sh(["git", "-C", "/repo", "status", "--porcelain", "--untracked-files=no"]).stdout.strip() == ""


def main():
    only = None
    tier = "quick"
    args = sys.argv[1:]
    i = 0
    while i < len(args):
        if args[i] == "--only":
            i += 1
            only = set(args[i].split(","))
        elif args[i] == "--tier":
            i += 1
            tier = args[i]
        i += 1
    if not repo_clean():
        print("refusing: /repo has uncommitted changes")
        return 2
    results = {}
    rpath = os.path.join(SEEDED, "RESULTS.json")
    if os.path.exists(rpath):
        results = json.load(open(rpath))
    for sid in sorted(os.listdir(SEEDED)):
        d = os.path.join(SEEDED, sid)
        patch = os.path.join(d, "patch.diff")
        if not os.path.isfile(patch) or (only and sid not in only):
            continue
        meta = json.load(open(os.path.join(d, "meta.json")))
        props = meta.get("checks") or [meta["property"]]
        a = sh(["git", "-C", "/repo", "apply", "--whitespace=nowarn", patch])
        if a.returncode != 0:
            results[sid] = {"status": "patch does not apply", "log": a.stdout[-500:]}
            print(sid, "PATCH DOES NOT APPLY")
            continue
        try:
            entry = {"property": meta["property"], "tier": tier, "runs": {}}
            for pid in props:
                t0 = time.time()
                r = sh([os.path.join(ROOT, "check"), pid, "--tier", tier], cwd=ROOT)
                lines = [l for l in r.stdout.splitlines() if l.startswith(("VIOLATION", "INCONCLUSIVE", "HELD", "KNOWN-FINDING"))]
                entry["runs"][pid] = {"exit": r.returncode, "wall_s": round(time.time() - t0, 1),
                                      "verdict_lines": [l[:400] for l in lines][:6]}
                print(sid, pid, "exit", r.returncode, "|", (lines[0][:160] if lines else ""))
            entry["caught"] = any(v["exit"] == 1 for v in entry["runs"].values())
            results[sid] = entry
        finally:
            sh(["git", "-C", "/repo", "apply", "-R", "--whitespace=nowarn", patch])
            sh(["git", "-C", "/repo", "checkout", "--", "."])
        assert repo_clean(), "repo not clean after undo"
    json.dump(results, open(rpath, "w"), indent=1, sort_keys=True)
    with open(os.path.join(SEEDED, "RESULTS.md"), "w") as f:
        f.write("| seeded change | property | caught | verdict |\n|---|---|---|---|\n")
        for sid, e in sorted(results.items()):
            v = ""
            for pid, r in e.get("runs", {}).items():
                v += f"{pid}: exit {r['exit']}; "
            f.write(f"| {sid} | {e.get('property', '')} | {'yes' if e.get('caught') else 'NO'} | {v or e.get('status', '')} |\n")
    return 0


if __name__ == "__main__":
    sys.exit(main())
