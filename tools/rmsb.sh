#!/bin/sh
N="$1"; W=/tmp/sb-$N
git -C /repo worktree remove --force "$W/repo" 2>/dev/null || true
rm -rf "$W"
git -C /repo worktree prune
