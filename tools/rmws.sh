#!/bin/sh
# Remove a scratch workspace created by mkws.sh (worktree + build output).
N="$1"; W=/tmp/ws-$N
git -C /repo worktree remove --force "$W/repo" 2>/dev/null || true
rm -rf "$W"
git -C /repo worktree prune
