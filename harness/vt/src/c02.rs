//! C02 — Header chain verification accepts exactly linked successors (celestia-types part).
//!
//! Real code driven: `ExtendedHeader::{verify, verify_adjacent, verify_range, verify_adjacent_range}`.
//! Oracle: `c02_model::linked` — the conditions of the property text evaluated over facts recorded
//! when the headers were generated (never over lumina's own verification code):
//!   accepted  =>  linked                          (always; soundness)
//!   linked    =>  accepted                        (on adjacent pairs and on well-formed commits)
//! Clock-dependent inputs are >= 30 minutes away from the `now + 10 s` boundary.

#[path = "c02_model.rs"]
mod c02_model;

use c02_model::{Facts, H, World, adjacent_range_linked, exact, linked, range_exact, range_linked, trusted_power};
use vcore::{Ctx, Rng, guard, json, panic_site};

fn fam_class(family: &str) -> &str {
    family.split('/').next().unwrap_or(family)
}

fn facts_json(f: &Facts) -> vcore::Value {
    json!({
        "id": f.id, "height": f.height, "chain": f.chain, "time_unix_ns": f.time_ns.to_string(), "far_future": f.far_future,
        "parent_id": f.parent, "validators": f.vals.iter().map(|(k, p)| format!("{}:{p}", vcore::hex(&k[..4]))).collect::<Vec<_>>(),
        "next_validators": f.next_vals.iter().map(|(k, p)| format!("{}:{p}", vcore::hex(&k[..4]))).collect::<Vec<_>>(),
        "commit_entries": f.entries.iter().map(|(k, e)| format!("{}:{e:?}", vcore::hex(&k[..4]))).collect::<Vec<_>>(),
        "well_formed": f.well_formed,
    })
}

/// Compare one observed verdict with the oracle.
#[allow(clippy::too_many_arguments)]
fn judge(
    ctx: &Ctx,
    op: &str,
    family: &str,
    expected: Result<(), &'static str>,
    is_exact: bool,
    observed: Result<Result<(), String>, String>,
    detail: impl Fn() -> vcore::Value,
) {
    ctx.eval();
    let class = fam_class(family);
    match observed {
        Err(p) => {
            ctx.count(&format!("{op}.panic"));
            ctx.violation(&format!("C02/{op}/panic/{}", panic_site(&p)), &format!("{op} panicked ({family}): {p}"), detail());
        }
        Ok(Ok(())) => {
            ctx.count(&format!("{op}.accepted"));
            ctx.count(&format!("{op}.family.{class}.accepted"));
            match expected {
                Ok(()) => ctx.count(&format!("{op}.accepted.linked")),
                Err(cond) => {
                    ctx.violation(
                        &format!("C02/{op}/accepts/{cond}"),
                        &format!("{op} accepted although the condition `{cond}` of the property does not hold (input family {family})"),
                        detail(),
                    );
                }
            }
        }
        Ok(Err(e)) => {
            ctx.count(&format!("{op}.rejected"));
            ctx.count(&format!("{op}.family.{class}.rejected"));
            match expected {
                Err(cond) => ctx.count(&format!("{op}.rejected.{cond}")),
                Ok(()) if is_exact => {
                    ctx.violation(
                        &format!("C02/{op}/rejects-linked/{}", if op.contains("range") { "well-formed-list" } else { class }),
                        &format!("{op} rejected ({e}) a successor for which every condition of the property holds (input family {family})"),
                        detail(),
                    );
                }
                Ok(()) => ctx.count(&format!("{op}.rejected.linked-but-malformed-commit")),
            }
        }
    }
}

fn run_world(ctx: &Ctx, case: u64) {
    let len = ctx.scale(8usize, 12);
    let mut w = World::new(ctx.rng(1, case), case, len);
    ctx.count("worlds");
    let rotations = (0..len).filter(|i| w.vals_at[*i].len() != w.next_vals_at[*i].len() || w.chain[*i].f.vals != w.chain[*i].f.next_vals).count();
    ctx.count_n("honest_headers", len as u64);
    ctx.count_n("validator_rotations", rotations as u64);

    // --- every ordered pair of the honest chain
    for i in 0..len {
        for j in 0..len {
            let (t, u) = (&w.chain[i], &w.chain[j]);
            let exp = linked(&t.f, &u.f);
            let fam = if j == i + 1 { "honest-adjacent" } else if j > i { "honest-skipping" } else { "honest-not-later" };
            pair(ctx, case, fam, t, u, exp);
        }
    }

    // --- perturbed / forked candidates against a few trusted headers
    let mut trusted_idx: Vec<usize> = vec![0, w.rng.gen_range(0..len), len - 1];
    if ctx.quick() {
        trusted_idx.truncate(2);
    }
    for t in trusted_idx {
        let cands = w.candidates(t);
        let trusted = w.chain[t].clone();
        for (family, u) in &cands {
            let exp = linked(&trusted.f, &u.f);
            pair(ctx, case, family, &trusted, u, exp);
        }
        // --- ranges
        for (family, list) in w.lists(t) {
            ranges(ctx, case, &family, &trusted, &list);
        }
    }
}

fn pair(ctx: &Ctx, case: u64, family: &str, t: &H, u: &H, exp: Result<(), &'static str>) {
    let is_exact = exact(&t.f, &u.f);
    let (signed, total) = trusted_power(&t.f, &u.f);
    let detail = || {
        json!({
            "seed": ctx.seed, "world_case": case, "family": family, "trusted": facts_json(&t.f), "untrusted": facts_json(&u.f),
            "oracle": format!("{exp:?}"), "trusted_power_signed": signed.to_string(), "trusted_power_total": total.to_string(),
        })
    };
    let adjacent = u.f.height == t.f.height + 1;
    ctx.nontrivial(&("pair", family, adjacent, exp.is_ok(), t.f.vals.len()));
    if !adjacent && u.f.height > t.f.height {
        // boundary bookkeeping for the 1/3 rule
        let b = if 3 * signed == total {
            "eq"
        } else if 3 * signed > total {
            if 3 * signed - total <= 3 { "above_by_le3" } else { "above" }
        } else if total - 3 * signed <= 3 {
            "below_by_le3"
        } else {
            "below"
        };
        ctx.count(&format!("nonadjacent.trusted_power_margin_{b}"));
    }
    let obs = guard(|| t.hdr.verify(&u.hdr).map_err(|e| e.to_string()));
    judge(ctx, "verify", family, exp, is_exact, obs, &detail);

    // verify_adjacent = verify + adjacency
    let exp_adj = if !adjacent { Err("not-adjacent") } else { exp };
    let obs = guard(|| t.hdr.verify_adjacent(&u.hdr).map_err(|e| e.to_string()));
    judge(ctx, "verify_adjacent", family, exp_adj, true, obs, &detail);
    ctx.sample(|| detail());
}

fn ranges(ctx: &Ctx, case: u64, family: &str, t: &H, list: &[H]) {
    let facts: Vec<&Facts> = list.iter().map(|h| &h.f).collect();
    let hdrs: Vec<celestia_types::ExtendedHeader> = list.iter().map(|h| h.hdr.clone()).collect();
    let detail = || {
        json!({
            "seed": ctx.seed, "world_case": case, "family": family, "trusted": facts_json(&t.f),
            "list": facts.iter().map(|f| facts_json(f)).collect::<Vec<_>>(),
        })
    };
    let is_exact = range_exact(&t.f, &facts);
    let exp = range_linked(&t.f, &facts);
    ctx.nontrivial(&("range", family, exp.is_ok(), list.len()));
    let obs = guard(|| t.hdr.verify_range(&hdrs).map_err(|e| e.to_string()));
    judge(ctx, "verify_range", family, exp, is_exact, obs, &detail);

    let exp = adjacent_range_linked(&t.f, &facts);
    let obs = guard(|| t.hdr.verify_adjacent_range(&hdrs).map_err(|e| e.to_string()));
    judge(ctx, "verify_adjacent_range", family, exp, is_exact, obs, &detail);
}

pub fn run(ctx: &Ctx) {
    ctx.rule(
        "Worlds: an honest chain of 8 (quick) / 12 (thorough) headers signed by 1..8 validators with set rotation (0..100 % overlap, \
         changed powers) between blocks. Each evaluation = one verify / verify_adjacent / verify_range / verify_adjacent_range call of the real code: \
         every ordered pair of the honest chain; per trusted header and distance 1,2,3,7 candidates with other chain id, time =, 1 ns / 1 day before, \
         1 ns after the trusted time, now-1h, now+1h, now+1y, random / grandparent / sibling parent, changed validator set, equal / lower height, a fork \
         by the same validators, and commits signed by subsets of the trusted set just below / exactly / just above one third of the trusted power \
         (plus outsiders; insiders voting nil / absent / with forged signatures; double votes); lists: honest slices (adjacent or later start), \
         swapped, duplicated, reversed, gapped, one element replaced (fork, chain id, time, parent, validators, future), empty. \
         Non-trivial = distinct (operation, family, adjacency, oracle outcome, set size / list length).",
    );
    ctx.assume("ground truth: facts recorded at generation (vgen::chain keys; only a validator's own key makes valid signatures)");
    ctx.assume("headers are either >= 30 min in the past or >= 1 h in the future relative to the wall clock (now + 10 s boundary never approached)");
    ctx.assume("completeness (linked => accepted) is demanded for adjacent pairs and for commits whose Commit-flag entries are all genuine with one entry per validator");

    let worlds = ctx.scale(160u64, 2400);
    let next = std::sync::atomic::AtomicU64::new(0);
    ctx.par(ctx.cores(), |_| {
        loop {
            let c = next.fetch_add(1, std::sync::atomic::Ordering::Relaxed);
            if c >= worlds {
                break;
            }
            run_world(ctx, c);
        }
    });

    // coverage floors: both outcomes, every condition of the predicate seen violated, the 1/3 boundary
    ctx.floor("validator_rotations", 100);
    ctx.floor("verify.accepted.linked", 1000);
    for cond in ["height-not-greater", "chain-id", "time-not-after-trusted", "time-from-future", "next-validators", "parent", "trusted-power<=1/3"] {
        ctx.floor(&format!("verify.rejected.{cond}"), 100);
    }
    ctx.floor("verify.family.honest-adjacent.accepted", 500);
    ctx.floor("verify.family.honest-skipping.accepted", 500);
    ctx.floor("verify.family.honest-skipping.rejected", 100);
    ctx.floor("verify.family.insiders-just-above-third.accepted", 100);
    ctx.floor("verify.family.insiders-just-below-third.rejected", 100);
    ctx.floor("verify.family.insiders-exactly-third.rejected", 20);
    ctx.floor("verify.family.double-vote.rejected", 50);
    ctx.floor("verify.family.time-now-minus-1h.accepted", 50);
    ctx.floor("verify.family.time-1ns-after.accepted", 50);
    ctx.floor("nonadjacent.trusted_power_margin_eq", 20);
    ctx.floor("verify_adjacent.rejected.not-adjacent", 500);
    ctx.floor("verify_adjacent.accepted.linked", 300);
    for op in ["verify_range", "verify_adjacent_range"] {
        ctx.floor(&format!("{op}.accepted.linked"), 200);
        ctx.floor(&format!("{op}.rejected.heights-not-consecutive"), 100);
        ctx.floor(&format!("{op}.rejected.parent"), 50);
        ctx.floor(&format!("{op}.rejected.chain-id"), 50);
    }
    ctx.floor("verify_adjacent_range.rejected.first-not-adjacent-to-trusted", 50);
}
