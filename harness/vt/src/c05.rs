//! C05 — row retrieval returns exactly the committed row.
//!
//! Workload: generated extended squares (EDS widths 2..64; 128 and 256 in the thorough tier),
//! every row index. Honest: `Row::new(i)`, verified, encoded (left half) -> decoded -> verified,
//! and a hand-built right-half message (the parity half of the committed row) -> decoded
//! (reconstruction) -> verified. Adversarial candidates on the wire level (`RawRow`, both half
//! sides) and on the object level (`Row { shares }`): altered byte, swapped / dropped /
//! duplicated / substituted shares, the row of another index or another square, a column in place
//! of the row, wrong half-side flag, wrong lengths, indices outside the square, byte-mutated
//! encodings.
//!
//! Oracle: ground truth is the snapshot of raw cells of the square the DAH commits to. Honest =>
//! accepted and the decoded row equals row `i` of the snapshot (bytes and parity flags). Anything
//! accepted for index `i` => `i` is inside the square and the row has exactly the `w` cells of row
//! `i` in order.
//!
//! Compiled into `vn` as well (`vn/src/c05.rs`) with the shrex response codec.

use bytes::BytesMut;
use celestia_proto::shwap::{Row as RawRow, Share as RawShare, row::HalfSide};
use celestia_types::consts::appconsts::AppVersion;
use celestia_types::row::{Row, RowId};
use celestia_types::{DataAvailabilityHeader, Share};
use prost::Message;
use vcore::{ChaCha8Rng, Ctx, Rng, Value, guard, json, panic_site};

#[path = "c04_util.rs"]
pub mod util;
use util::{Sq, hex_s, make_square, other_index, work_items};

const HEIGHT: u64 = 11;

pub struct Codec {
    pub name: &'static str,
    pub direct: bool,
    pub encode: fn(&Row) -> Vec<u8>,
    pub frame: fn(&RawRow) -> Vec<u8>,
    pub decode_verify: fn(&[u8], RowId, &DataAvailabilityHeader, AppVersion) -> Result<Row, String>,
}

pub fn types_codec() -> Codec {
    Codec {
        name: "types",
        direct: true,
        encode: |r| {
            let mut b = BytesMut::new();
            r.encode(&mut b);
            b.to_vec()
        },
        frame: |r| r.encode_to_vec(),
        decode_verify: |b, id, dah, _| {
            let r = Row::decode(id, b).map_err(|e| format!("decode: {e}"))?;
            r.verify(id, dah).map_err(|e| format!("verify: {e}"))?;
            Ok(r)
        },
    }
}

pub fn run(ctx: &Ctx) {
    run_with(ctx, &types_codec());
}

fn side_name(s: i32) -> &'static str {
    match s {
        0 => "left",
        1 => "right",
        _ => "invalid",
    }
}

/// Coarse input class of a candidate family, used in violation signatures.
fn class_of(family: &str) -> &'static str {
    let f = family.split(['/', '(']).next().unwrap_or(family);
    match f {
        "byte-altered" | "share-substituted" | "share-length" => "altered-share",
        "swap-two" | "reversed" => "reordered-shares",
        "drop-one" | "dup-one" | "quarter" | "empty" | "whole-row-as-half" | "half-only" | "twice" => "wrong-share-count",
        "other-row" | "column-as-row" | "outside-square" => "other-row",
        "other-square" => "other-square",
        "wrong-side-flag" | "side-flag-invalid" => "wrong-side-flag",
        "parity-flags-flipped" => "parity-flags",
        _ => "mutated-encoding",
    }
}

fn raw_half(cells: &[&[u8; 512]], side: HalfSide) -> RawRow {
    RawRow {
        shares_half: cells.iter().map(|c| RawShare { data: c.to_vec() }).collect(),
        half_side: side as i32,
    }
}

struct Mon<'a> {
    ctx: &'a Ctx,
    codec: &'a Codec,
}

struct Cand<'a> {
    family: &'a str,
    index: usize,
    raw: Option<&'a RawRow>,
    bytes: Option<&'a [u8]>,
    note: String,
}

/// How a row differs from row `i` of the snapshot (`None` = identical bytes in every cell).
fn row_diff(sq: &Sq, i: usize, row: &Row) -> Option<String> {
    if row.shares.len() != sq.w {
        return Some(format!("{} shares instead of {}", row.shares.len(), sq.w));
    }
    for (c, s) in row.shares.iter().enumerate() {
        if s.data() != sq.at(i, c) {
            return Some(format!("share {c} differs from the committed cell"));
        }
    }
    None
}

fn flags_differ(sq: &Sq, i: usize, row: &Row) -> bool {
    row.shares.iter().enumerate().any(|(c, s)| s.is_parity() == sq.in_ods(i, c))
}

impl Mon<'_> {
    fn id(&self, i: usize) -> RowId {
        RowId::new(i as u16, HEIGHT).expect("height > 0")
    }

    fn detail(&self, sq: &Sq, cand: &Cand, observed: Value) -> Value {
        json!({
            "codec": self.codec.name,
            "eds_width": sq.w,
            "app_version": sq.app.as_u64(),
            "requested_row": cand.index,
            "family": cand.family,
            "note": cand.note,
            "candidate": cand.raw.map(|r| json!({
                "half_side": r.half_side,
                "shares_half": r.shares_half.iter().map(|s| hex_s(&s.data)).collect::<Vec<_>>(),
            })),
            "candidate_bytes": cand.bytes.map(hex_s),
            "committed_row": if cand.index < sq.w {
                json!((0..sq.w).map(|c| vcore::hex(sq.at(cand.index, c))).collect::<Vec<_>>())
            } else { Value::Null },
            "row_roots": sq.dah.row_roots().iter().map(|h| hex_s(&celestia_types::nmt::NamespacedHashExt::to_vec(h))).collect::<Vec<_>>(),
            "observed": observed,
        })
    }

    fn judge(&self, sq: &Sq, cand: &Cand, via: &str, res: Result<Result<Row, String>, String>) {
        self.ctx.eval();
        let fam = cand.family;
        match res {
            Err(p) => {
                self.ctx.count(&format!("adv.{fam}.panicked"));
                self.ctx.count("adv.panicked");
                self.ctx.extra(&format!("panic_site.{}", panic_site(&p)), json!(p));
            }
            Ok(Err(_)) => {
                self.ctx.count(&format!("adv.{fam}.rejected"));
                self.ctx.count("adv.rejected");
            }
            Ok(Ok(row)) => {
                self.ctx.count(&format!("adv.{fam}.accepted"));
                let observed = |why: &str| {
                    json!({
                        "via": via, "difference": why,
                        "accepted_row": row.shares.iter().map(|s| vcore::hex(s.data())).collect::<Vec<_>>(),
                    })
                };
                if cand.index >= sq.w {
                    self.ctx.violation(
                        "C05/index-outside-square",
                        &format!("a row was accepted for index {} of a square with {} rows", cand.index, sq.w),
                        self.detail(sq, cand, observed("index outside the square")),
                    );
                    return;
                }
                match row_diff(sq, cand.index, &row) {
                    None => {
                        self.ctx.count("adv.accepted_correct_row");
                        if flags_differ(sq, cand.index, &row) {
                            self.ctx.count("adv.accepted_correct_row_but_parity_flags_differ");
                        }
                    }
                    Some(why) => {
                        self.ctx.count("adv.accepted_wrong_row");
                        self.ctx.violation(
                            &format!("C05/accepts-wrong-row/{}", class_of(fam)),
                            &format!("row accepted for index {} although it is not the committed row: {why}", cand.index),
                            self.detail(sq, cand, observed(&why)),
                        );
                    }
                }
            }
        }
    }

    fn present(&self, sq: &Sq, family: &str, i: usize, raw: &RawRow, note: String) {
        let fam = format!("{family}/{}", side_name(raw.half_side));
        let bytes = (self.codec.frame)(raw);
        let res = guard(|| (self.codec.decode_verify)(&bytes, self.id(i), &sq.dah, sq.app));
        let cand = Cand { family: &fam, index: i, raw: Some(raw), bytes: None, note };
        self.judge(sq, &cand, "decode+verify", res);
    }

    fn present_bytes(&self, sq: &Sq, family: &str, i: usize, bytes: &[u8], note: String) {
        let res = guard(|| (self.codec.decode_verify)(bytes, self.id(i), &sq.dah, sq.app));
        let cand = Cand { family, index: i, raw: None, bytes: Some(bytes), note };
        self.judge(sq, &cand, "decode+verify", res);
    }

    fn present_direct(&self, sq: &Sq, family: &str, i: usize, shares: Vec<Share>, note: String) {
        if !self.codec.direct {
            return;
        }
        let row = Row { shares };
        let res = guard(|| row.verify(self.id(i), &sq.dah).map(|()| row.clone()).map_err(|e| e.to_string()));
        let fam = format!("{family}(direct)");
        let cand = Cand { family: &fam, index: i, raw: None, bytes: None, note };
        self.judge(sq, &cand, "Row::verify", res);
    }

    /// Shares of snapshot row `j` as objects with the flags an honest holder would use.
    fn shares_of(&self, sq: &Sq, j: usize) -> Option<Vec<Share>> {
        (0..sq.w)
            .map(|c| {
                if sq.in_ods(j, c) {
                    Share::from_raw(sq.at(j, c)).ok()
                } else {
                    Share::parity(sq.at(j, c)).ok()
                }
            })
            .collect()
    }

    fn honest(&self, sq: &Sq, i: usize) {
        let ctx = self.ctx;
        let id = self.id(i);
        let mk = |note: &str| Cand { family: "honest", index: i, raw: None, bytes: None, note: note.into() };
        ctx.eval();
        let row = match guard(|| Row::new(i as u16, &sq.eds)) {
            Ok(Ok(r)) => r,
            Ok(Err(e)) => return ctx.inconclusive(&format!("Row::new({i}) failed on a valid square: {e}")),
            Err(p) => return ctx.inconclusive(&format!("Row::new({i}) panicked: {p}")),
        };
        if let Some(why) = row_diff(sq, i, &row) {
            ctx.violation(
                "C05/Row::new/not-the-committed-row",
                &format!("Row::new({i}) does not return row {i} of the square: {why}"),
                self.detail(sq, &mk("Row::new"), json!({"difference": why})),
            );
            return;
        }
        if flags_differ(sq, i, &row) {
            ctx.violation(
                "C05/Row::new/parity-flags",
                &format!("Row::new({i}) marks shares of the wrong quadrant as parity"),
                self.detail(sq, &mk("Row::new"), json!({})),
            );
        }
        if self.codec.direct {
            ctx.eval();
            match guard(|| row.verify(id, &sq.dah)) {
                Ok(Ok(())) => ctx.count("honest.direct.accepted"),
                Ok(Err(e)) => ctx.violation(
                    "C05/honest-rejected/Row::verify",
                    &format!("the committed row {i} is rejected: {e}"),
                    self.detail(sq, &mk("direct"), json!({"error": e.to_string()})),
                ),
                Err(p) => ctx.violation(
                    &format!("C05/honest-rejected/Row::verify/panic/{}", panic_site(&p)),
                    &format!("verifying the committed row {i} panicked: {p}"),
                    self.detail(sq, &mk("direct"), json!({"panic": p})),
                ),
            }
        }
        // left half: encoder of the code under test; right half: parity half of the committed row
        let h = sq.w / 2;
        let right_cells: Vec<&[u8; 512]> = (h..sq.w).map(|c| sq.at(i, c)).collect();
        let right = raw_half(&right_cells, HalfSide::Right);
        let encodings: [(&str, Result<Vec<u8>, String>); 2] = [
            ("left", guard(|| (self.codec.encode)(&row))),
            ("right", Ok((self.codec.frame)(&right))),
        ];
        for (side, bytes) in encodings {
            ctx.eval();
            let bytes = match bytes {
                Ok(b) => b,
                Err(p) => {
                    ctx.violation(
                        &format!("C05/honest-rejected/encode/panic/{}", panic_site(&p)),
                        &format!("encoding row {i} panicked: {p}"),
                        self.detail(sq, &mk(side), json!({"panic": p})),
                    );
                    continue;
                }
            };
            match guard(|| (self.codec.decode_verify)(&bytes, id, &sq.dah, sq.app)) {
                Ok(Ok(d)) => {
                    ctx.count("honest.accepted");
                    ctx.count(&format!("honest.accepted.{side}"));
                    ctx.count(if i < h { "honest.accepted.rows=upper" } else { "honest.accepted.rows=lower" });
                    ctx.nontrivial(&("honest", self.codec.name, side, sq.w, i, vcore::hash64(&sq.cells[i * sq.w..(i + 1) * sq.w])));
                    if let Some(why) = row_diff(sq, i, &d) {
                        ctx.violation(
                            &format!("C05/honest-roundtrip/{side}-half/row-differs"),
                            &format!("row {i} decoded from its {side} half verifies but is not the committed row: {why}"),
                            self.detail(sq, &mk(side), json!({"difference": why})),
                        );
                    } else if flags_differ(sq, i, &d) {
                        ctx.violation(
                            &format!("C05/honest-roundtrip/{side}-half/parity-flags-differ"),
                            &format!("row {i} decoded from its {side} half has the committed bytes but marks shares of the wrong quadrant as parity"),
                            self.detail(sq, &mk(side), json!({})),
                        );
                    }
                    ctx.sample(|| json!({
                        "kind": "honest", "codec": self.codec.name, "eds_width": sq.w, "row": i, "half": side,
                        "encoded_len": bytes.len(), "accepted": true,
                    }));
                }
                Ok(Err(e)) => ctx.violation(
                    &format!("C05/honest-rejected/{side}-half"),
                    &format!("committed row {i} sent as its {side} half is rejected: {e}"),
                    self.detail(sq, &mk(side), json!({"error": e})),
                ),
                Err(p) => ctx.violation(
                    &format!("C05/honest-rejected/{side}-half/panic/{}", panic_site(&p)),
                    &format!("committed row {i} sent as its {side} half panics: {p}"),
                    self.detail(sq, &mk(side), json!({"panic": p})),
                ),
            }
        }
    }

    fn adversarial(&self, sq: &Sq, other: &Sq, rng: &mut ChaCha8Rng, i: usize) {
        let ctx = self.ctx;
        let w = sq.w;
        let h = w / 2;
        let nt = |fam: &str, a: usize, b: usize| {
            ctx.nontrivial(&(fam.to_string(), self.codec.name, w, i, a, b));
            ctx.count("adv.nontrivial");
        };
        let half = |row: usize, side: HalfSide| -> RawRow {
            let cells: Vec<&[u8; 512]> = match side {
                HalfSide::Left => (0..h).map(|c| sq.at(row, c)).collect(),
                HalfSide::Right => (h..w).map(|c| sq.at(row, c)).collect(),
            };
            raw_half(&cells, side)
        };
        for side in [HalfSide::Left, HalfSide::Right] {
            let own = half(i, side);
            let off = if side == HalfSide::Left { 0 } else { h };

            // one byte of one share
            for region in 0..3 {
                let mut raw = own.clone();
                let s = rng.gen_range(0..h);
                let k = match region {
                    0 => rng.gen_range(0..29),
                    1 => 29,
                    _ => rng.gen_range(30..512),
                };
                raw.shares_half[s].data[k] ^= 1 << rng.gen_range(0..8);
                nt("byte-altered", s, k);
                self.present(sq, "byte-altered", i, &raw, format!("share {} byte {k} altered", off + s));
            }
            // two shares swapped
            if h >= 2 {
                let a = rng.gen_range(0..h);
                let b = other_index(rng, h, a);
                if own.shares_half[a] != own.shares_half[b] {
                    let mut raw = own.clone();
                    raw.shares_half.swap(a, b);
                    nt("swap-two", a, b);
                    self.present(sq, "swap-two", i, &raw, format!("shares {} and {} swapped", off + a, off + b));
                }
                let mut raw = own.clone();
                raw.shares_half.reverse();
                if raw != own {
                    nt("reversed", 0, 0);
                    self.present(sq, "reversed", i, &raw, "half reversed".into());
                }
            }
            // dropped / duplicated / lengths
            {
                let a = rng.gen_range(0..h);
                let mut raw = own.clone();
                raw.shares_half.remove(a);
                nt("drop-one", a, 0);
                self.present(sq, "drop-one", i, &raw, format!("share {} dropped", off + a));
                let mut raw = own.clone();
                let x = raw.shares_half[a].clone();
                raw.shares_half.insert(a, x);
                nt("dup-one", a, 0);
                self.present(sq, "dup-one", i, &raw, format!("share {} duplicated", off + a));
                if h >= 2 {
                    let mut raw = own.clone();
                    raw.shares_half.truncate(h / 2);
                    nt("quarter", 0, 0);
                    self.present(sq, "quarter", i, &raw, "only the first half of the half".into());
                }
                let mut raw = own.clone();
                raw.shares_half.clear();
                self.present(sq, "empty", i, &raw, "no shares".into());
                // the whole row in place of a half
                let cells: Vec<&[u8; 512]> = (0..w).map(|c| sq.at(i, c)).collect();
                let raw = raw_half(&cells, side);
                nt("whole-row-as-half", 0, 0);
                self.present(sq, "whole-row-as-half", i, &raw, "all w shares sent as the half".into());
                for len in [0usize, 511, 513] {
                    let mut raw = own.clone();
                    raw.shares_half[a].data.resize(len, 0);
                    self.present(sq, "share-length", i, &raw, format!("share {} has {len} bytes", off + a));
                }
            }
            // a share replaced by the cell above/below or by the cell of the other half
            {
                let a = rng.gen_range(0..h);
                let j = other_index(rng, w, i);
                if sq.at(j, off + a) != sq.at(i, off + a) {
                    let mut raw = own.clone();
                    raw.shares_half[a].data = sq.at(j, off + a).to_vec();
                    nt("share-substituted", a, j);
                    self.present(sq, "share-substituted", i, &raw, format!("share {} replaced by cell ({j}, {})", off + a, off + a));
                }
            }
            // the row of another index (same half of the square, other half)
            {
                let mut js = vec![other_index(rng, w, i)];
                if h >= 2 {
                    let base = if i < h { 0 } else { h };
                    js.push(base + other_index(rng, h, i - base));
                }
                for j in js {
                    let raw = half(j, side);
                    if (0..w).any(|c| sq.at(j, c) != sq.at(i, c)) {
                        nt("other-row", j, 0);
                    }
                    self.present(sq, "other-row", i, &raw, format!("half of row {j}"));
                }
            }
            // wrong side flag
            {
                let mut raw = own.clone();
                raw.half_side = if side == HalfSide::Left { 1 } else { 0 };
                if half(i, HalfSide::Left).shares_half != half(i, HalfSide::Right).shares_half {
                    nt("wrong-side-flag", 0, 0);
                }
                self.present(sq, "wrong-side-flag", i, &raw, format!("{} half flagged as the other side", side_name(side as i32)));
                for v in [2, -1, i32::MAX] {
                    let mut raw = own.clone();
                    raw.half_side = v;
                    self.present(sq, "side-flag-invalid", i, &raw, format!("half_side = {v} with the {} half", side_name(side as i32)));
                }
            }
            // column i in place of row i
            {
                let cells: Vec<&[u8; 512]> = match side {
                    HalfSide::Left => (0..h).map(|r| sq.at(r, i)).collect(),
                    HalfSide::Right => (h..w).map(|r| sq.at(r, i)).collect(),
                };
                let raw = raw_half(&cells, side);
                if (0..w).any(|k| sq.at(k, i) != sq.at(i, k)) {
                    nt("column-as-row", 0, 0);
                }
                self.present(sq, "column-as-row", i, &raw, format!("half of column {i}"));
            }
            // same row of another square
            if other.w == w {
                let cells: Vec<&[u8; 512]> = match side {
                    HalfSide::Left => (0..h).map(|c| other.at(i, c)).collect(),
                    HalfSide::Right => (h..w).map(|c| other.at(i, c)).collect(),
                };
                let raw = raw_half(&cells, side);
                if (0..w).any(|c| other.at(i, c) != sq.at(i, c)) {
                    nt("other-square", 0, 0);
                }
                self.present(sq, "other-square", i, &raw, "same row of another square".into());
            }
            // byte-level mutation of the encoding
            for _ in 0..3 {
                let mut bytes = (self.codec.frame)(&own);
                let m = vcore::mutate_bytes(rng, &mut bytes);
                self.present_bytes(sq, "bytes-mutated", i, &bytes, format!("encoding of the {} half, mutation {m}", side_name(side as i32)));
            }
        }

        // object level
        if self.codec.direct {
            if let Some(own) = self.shares_of(sq, i) {
                let j = other_index(rng, w, i);
                if let Some(o) = self.shares_of(sq, j) {
                    if (0..w).any(|c| sq.at(j, c) != sq.at(i, c)) {
                        nt("other-row(direct)", j, 0);
                    }
                    self.present_direct(sq, "other-row", i, o, format!("row {j}"));
                }
                let a = rng.gen_range(0..w);
                let b = other_index(rng, w, a);
                if own[a] != own[b] {
                    let mut s = own.clone();
                    s.swap(a, b);
                    nt("swap-two(direct)", a, b);
                    self.present_direct(sq, "swap-two", i, s, format!("shares {a} and {b} swapped"));
                }
                let mut s = own.clone();
                s.remove(a);
                nt("drop-one(direct)", a, 0);
                self.present_direct(sq, "drop-one", i, s, format!("share {a} dropped"));
                let mut s = own.clone();
                s.truncate(h);
                nt("half-only(direct)", 0, 0);
                self.present_direct(sq, "half-only", i, s, "left half only".into());
                let mut s = own.clone();
                s.extend(own.iter().cloned());
                nt("twice(direct)", 0, 0);
                self.present_direct(sq, "twice", i, s, "row repeated twice".into());
                self.present_direct(sq, "empty", i, Vec::new(), "no shares".into());
                // parity flags flipped (bytes unchanged: acceptance would carry the right bytes)
                let s: Option<Vec<Share>> = own
                    .iter()
                    .map(|x| if x.is_parity() { Share::from_raw(x.data()).ok() } else { Share::parity(x.data()).ok() })
                    .collect();
                if let Some(s) = s {
                    self.present_direct(sq, "parity-flags-flipped", i, s, "every parity flag flipped".into());
                }
                let s: Vec<Share> = own.iter().map(|x| Share::parity(x.data()).unwrap()).collect();
                self.present_direct(sq, "parity-flags-flipped", i, s, "every share marked parity".into());
            }
        }
    }

    fn outside(&self, sq: &Sq, rng: &mut ChaCha8Rng) {
        let w = sq.w;
        let h = w / 2;
        let j = rng.gen_range(0..w);
        for o in [w, w + 1, 2 * w - 1, 2 * w, u16::MAX as usize] {
            for side in [HalfSide::Left, HalfSide::Right] {
                let cells: Vec<&[u8; 512]> = match side {
                    HalfSide::Left => (0..h).map(|c| sq.at(j, c)).collect(),
                    HalfSide::Right => (h..w).map(|c| sq.at(j, c)).collect(),
                };
                self.ctx.nontrivial(&("outside", self.codec.name, w, o, j, side as i32));
                self.ctx.count("adv.nontrivial");
                self.present(sq, "outside-square", o, &raw_half(&cells, side), format!("half of row {j} for index {o}"));
            }
            if let Some(s) = self.shares_of(sq, j) {
                self.present_direct(sq, "outside-square", o, s, format!("row {j} for index {o}"));
            }
        }
    }

    fn square(&self, ods_width: usize, k: u64) {
        let ctx = self.ctx;
        let mut rng = ctx.rng(ods_width as u64, k);
        let Some(sq) = make_square(ctx, &mut rng, ods_width) else { return };
        let Some(other) = make_square(ctx, &mut rng, ods_width) else { return };
        let w = sq.w;
        for i in 0..w {
            self.honest(&sq, i);
        }
        ctx.count("squares.every_row_honest");
        // adversarial: every row of squares up to 16 wide, a sample of rows (incl. the quadrant
        // border rows) of larger ones
        let rows: Vec<usize> = if w <= ctx.scale(16, 64) {
            (0..w).collect()
        } else {
            let h = w / 2;
            let mut v = vec![0, h - 1, h, w - 1];
            for _ in 0..ctx.scale(8, 12) {
                v.push(rng.gen_range(0..w));
            }
            v
        };
        for i in rows {
            self.adversarial(&sq, &other, &mut rng, i);
        }
        self.outside(&sq, &mut rng);
    }
}

pub fn run_with(ctx: &Ctx, codec: &Codec) {
    ctx.rule(
        "Squares from vgen::square (EDS widths 2..64, thorough also 128 and 256); every row index: Row::new == \
         committed row, verify, left-half encode -> decode -> verify, hand-built right-half message -> decode \
         (reconstruction) -> verify, result compared cell by cell with the raw square. Adversarial candidates for \
         both half sides and on Row objects: altered byte, swapped / reversed / dropped / duplicated / substituted \
         shares, row of another index, column, other square, wrong or invalid side flag, wrong lengths, index \
         outside the square, byte-mutated encodings. Non-trivial = honest acceptance at a distinct (width, row, \
         half, content), or a candidate whose content differs from the committed row.",
    );
    ctx.assume("ExtendedDataSquare::from_ods yields the square whose cells are the ground truth (decided by C08)");
    ctx.assume("DAH roots were cross-checked against an independent NMT implementation (vcore::sha) over the raw cells");
    ctx.extra("codec", json!(codec.name));

    let widths: Vec<usize> = if ctx.quick() { vec![1, 2, 4, 8, 16, 32] } else { vec![1, 2, 4, 8, 16, 32, 64, 128] };
    let quick = ctx.quick();
    let per_width = move |w: usize| -> usize {
        if quick {
            match w {
                1 | 2 => 8,
                4 | 8 => 6,
                _ => 4,
            }
        } else {
            match w {
                1 | 2 => 96,
                4 | 8 => 64,
                16 | 32 => 48,
                64 => 6,
                _ => 3,
            }
        }
    };
    let items = work_items(&widths, &per_width);
    let shards = ctx.cores();
    let mon = Mon { ctx, codec };
    ctx.par(shards, |shard| {
        for (i, (w, k)) in items.iter().enumerate() {
            if i % shards == shard {
                mon.square(*w, *k);
            }
        }
    });

    ctx.floor("honest.accepted.left", ctx.scale(400, 5_000));
    ctx.floor("honest.accepted.right", ctx.scale(400, 5_000));
    ctx.floor("honest.accepted.rows=upper", 200);
    ctx.floor("honest.accepted.rows=lower", 200);
    ctx.floor("adv.rejected", ctx.scale(5_000, 50_000));
    ctx.floor("adv.nontrivial", ctx.scale(3_000, 30_000));
    for w in &widths {
        ctx.floor(&format!("squares.eds_width={}", 2 * w), 2);
    }
}
