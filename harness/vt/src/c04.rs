//! C04 — a verified sample is the share at the requested coordinates.
//!
//! Workload: generated extended squares (EDS widths 2..64, realistic namespace layout). For every
//! / many coordinates and both proof axes the code under test produces the honest sample
//! (`Sample::new`), which is encoded, decoded and verified. Adversarial candidates are built on
//! the wire level (`RawSample`) from honest shares and proofs of *other* positions, altered
//! shares, rewritten proof ranges, edited sibling lists, flipped axis flags, ids outside the
//! square, samples of another square and byte-level mutations of encodings.
//!
//! Oracle (restating the property): ground truth is the snapshot of raw cells of the square the
//! DAH commits to (cross-checked with an independent NMT). Honest sample for `(r, c)` => accepted
//! and the decoded share is cell `(r, c)`. Any candidate accepted for id `(r, c)` => `(r, c)` lies
//! in the square and the accepted share bytes equal cell `(r, c)`. Nothing else is demanded
//! (a candidate with an odd proof but the right share may be accepted or rejected).
//!
//! The same module is compiled into `vn` (see `vn/src/c04.rs`) with the shrex response codec of
//! lumina-node as decoder/verifier.

use bytes::BytesMut;
use celestia_proto::shwap::{Sample as RawSample, Share as RawShare};
use celestia_types::consts::appconsts::AppVersion;
use celestia_types::sample::{Sample, SampleId};
use celestia_types::{AxisType, DataAvailabilityHeader};
use prost::Message;
use vcore::{ChaCha8Rng, Ctx, Rng, SliceRandom, Value, guard, json, panic_site};

#[path = "c04_util.rs"]
pub mod util;
use util::{Sq, hex_s, make_square, other_index, work_items};

const HEIGHT: u64 = 7;

/// How candidates are decoded and verified (types-level API in `vt`, shrex codec in `vn`).
pub struct Codec {
    pub name: &'static str,
    /// Also exercise `Sample::verify` on sample objects directly (no decode step).
    pub direct: bool,
    /// Encoder of the code under test for an honest sample.
    pub encode: fn(&Sample) -> Vec<u8>,
    /// Harness-side framing of a raw (possibly hostile) protobuf message.
    pub frame: fn(&RawSample) -> Vec<u8>,
    pub decode_verify: fn(&[u8], SampleId, &DataAvailabilityHeader, AppVersion) -> Result<Sample, String>,
}

pub fn types_codec() -> Codec {
    Codec {
        name: "types",
        direct: true,
        encode: |s| {
            let mut b = BytesMut::new();
            s.encode(&mut b);
            b.to_vec()
        },
        frame: |r| r.encode_to_vec(),
        decode_verify: |b, id, dah, _| {
            let s = Sample::decode(id, b).map_err(|e| format!("decode: {e}"))?;
            s.verify(id, dah).map_err(|e| format!("verify: {e}"))?;
            Ok(s)
        },
    }
}

pub fn run(ctx: &Ctx) {
    run_with(ctx, &types_codec());
}

fn axis_name(a: AxisType) -> &'static str {
    match a {
        AxisType::Row => "row",
        AxisType::Col => "col",
    }
}

/// Coarse input class of a candidate family, used in violation signatures.
fn class_of(family: &str) -> &'static str {
    let f = family.trim_end_matches("(direct)");
    match f {
        "same-line" | "same-line-reindexed" | "same-line-alias-index" | "cross-line" | "elsewhere" | "transposed" | "axis-flag-flipped" => "sample-of-other-position",
        "outside-square" | "outside-square-reindexed" | "outside-square-alt-tree-shape" => "sample-of-other-position",
        "share-byte-altered" | "share-substituted" => "altered-share",
        "other-square" => "other-square",
        "bytes-mutated" | "benign-reencoding" => "mutated-encoding",
        _ => "edited-proof",
    }
}

fn flip(a: AxisType) -> AxisType {
    match a {
        AxisType::Row => AxisType::Col,
        AxisType::Col => AxisType::Row,
    }
}

struct Mon<'a> {
    ctx: &'a Ctx,
    codec: &'a Codec,
}

/// What was presented to the verifier (for replay files and classification).
struct Cand<'a> {
    family: &'a str,
    /// requested coordinates
    r: usize,
    c: usize,
    raw: Option<&'a RawSample>,
    bytes: Option<&'a [u8]>,
    note: String,
}

fn raw_json(raw: &RawSample) -> Value {
    json!({
        "proof_type": raw.proof_type,
        "share": raw.share.as_ref().map(|s| vcore::hex(&s.data)),
        "proof": raw.proof.as_ref().map(|p| json!({
            "start": p.start, "end": p.end,
            "nodes": p.nodes.iter().map(|n| hex_s(n)).collect::<Vec<_>>(),
            "leaf_hash": hex_s(&p.leaf_hash),
            "is_max_namespace_ignored": p.is_max_namespace_ignored,
        })),
    })
}

impl Mon<'_> {
    fn id(&self, r: usize, c: usize) -> SampleId {
        SampleId::new(r as u16, c as u16, HEIGHT).expect("height > 0")
    }

    fn detail(&self, sq: &Sq, cand: &Cand, extra: Value) -> Value {
        json!({
            "codec": self.codec.name,
            "eds_width": sq.w,
            "app_version": sq.app.as_u64(),
            "requested": {"row": cand.r, "col": cand.c},
            "family": cand.family,
            "note": cand.note,
            "expected_share": if sq.inside(cand.r, cand.c) { json!(vcore::hex(sq.at(cand.r, cand.c))) } else { Value::Null },
            "candidate": cand.raw.map(raw_json),
            "candidate_bytes": cand.bytes.map(hex_s),
            "row_roots": sq.dah.row_roots().iter().map(|h| hex_s(&celestia_types::nmt::NamespacedHashExt::to_vec(h))).collect::<Vec<_>>(),
            "column_roots": sq.dah.column_roots().iter().map(|h| hex_s(&celestia_types::nmt::NamespacedHashExt::to_vec(h))).collect::<Vec<_>>(),
            "observed": extra,
        })
    }

    /// Oracle for an adversarial (or arbitrary) candidate presented for id `(r, c)`.
    fn judge(&self, sq: &Sq, cand: &Cand, via: &str, res: Result<Result<Sample, String>, String>) {
        self.ctx.eval();
        let fam = cand.family;
        match res {
            Err(p) => {
                // Not an acceptance. Panic freedom of decoders is C16's subject; recorded only.
                self.ctx.count(&format!("adv.{fam}.panicked"));
                self.ctx.count("adv.panicked");
                self.ctx.extra(&format!("panic_site.{}", panic_site(&p)), json!(p));
            }
            Ok(Err(_)) => {
                self.ctx.count(&format!("adv.{fam}.rejected"));
                self.ctx.count("adv.rejected");
            }
            Ok(Ok(s)) => {
                self.ctx.count(&format!("adv.{fam}.accepted"));
                let axis = s.proof_type;
                let start = s.proof.start_idx() as usize;
                let end = s.proof.end_idx() as usize;
                let observed = json!({
                    "via": via,
                    "accepted_share": vcore::hex(s.share.data()),
                    "accepted_is_parity": s.share.is_parity(),
                    "proof_axis": axis_name(axis), "proof_start": start, "proof_end": end,
                });
                if !sq.inside(cand.r, cand.c) {
                    self.ctx.count("adv.accepted_outside_square");
                    self.ctx.violation(
                        &format!("C04/coordinate-outside-square/axis={}", axis_name(axis)),
                        &format!(
                            "sample accepted for ({}, {}) which is outside the {w}x{w} square (proof axis {}, proof range {start}..{end})",
                            cand.r, cand.c, axis_name(axis), w = sq.w
                        ),
                        self.detail(sq, cand, observed),
                    );
                    return;
                }
                if s.share.data() == sq.at(cand.r, cand.c) {
                    self.ctx.count("adv.accepted_correct_share");
                    if s.share.is_parity() == sq.in_ods(cand.r, cand.c) {
                        self.ctx.count("adv.accepted_correct_share_but_parity_flag_differs");
                        self.ctx.count(&format!("adv.{fam}.accepted_parity_flag_differs"));
                    }
                    return;
                }
                self.ctx.count("adv.accepted_wrong_share");
                // Is the accepted (share, proof) pair simply an honest sample of another position
                // on the line the proof axis addresses (same row for a row proof, same column for
                // a column proof)?
                let (want, line_cell) = match axis {
                    AxisType::Row => (cand.c, (start < sq.w).then(|| sq.at(cand.r, start))),
                    AxisType::Col => (cand.r, (start < sq.w).then(|| sq.at(start, cand.c))),
                };
                let unbound = end == start + 1 && start != want && line_cell == Some(s.share.data());
                if unbound {
                    self.ctx.count(&format!("adv.position_unbound.axis={}", axis_name(axis)));
                    self.ctx.violation(
                        &format!("C04/position-unbound/axis={}", axis_name(axis)),
                        &format!(
                            "sample verified for ({}, {}) although share and {} proof are those of index {start} on the same {}: the proof position is not compared with the requested coordinate",
                            cand.r, cand.c, axis_name(axis), axis_name(axis)
                        ),
                        self.detail(sq, cand, observed),
                    );
                } else {
                    self.ctx.violation(
                        &format!("C04/accepts-wrong-share/{}", class_of(fam)),
                        &format!(
                            "sample accepted for ({}, {}) with a share that differs from the committed cell",
                            cand.r, cand.c
                        ),
                        self.detail(sq, cand, observed),
                    );
                }
            }
        }
    }

    /// Present a raw candidate for id `(r, c)` through the decoder.
    fn present(&self, sq: &Sq, family: &str, r: usize, c: usize, raw: &RawSample, note: String) {
        let id = self.id(r, c);
        let bytes = (self.codec.frame)(raw);
        let res = guard(|| (self.codec.decode_verify)(&bytes, id, &sq.dah, sq.app));
        let cand = Cand { family, r, c, raw: Some(raw), bytes: None, note };
        self.judge(sq, &cand, "decode+verify", res);
    }

    fn present_bytes(&self, sq: &Sq, family: &str, r: usize, c: usize, bytes: &[u8], note: String) {
        let id = self.id(r, c);
        let res = guard(|| (self.codec.decode_verify)(bytes, id, &sq.dah, sq.app));
        let cand = Cand { family, r, c, raw: None, bytes: Some(bytes), note };
        self.judge(sq, &cand, "decode+verify", res);
    }

    /// Present a sample object directly to `Sample::verify` (no decoding).
    fn present_direct(&self, sq: &Sq, family: &str, r: usize, c: usize, s: &Sample, note: String) {
        if !self.codec.direct {
            return;
        }
        let id = self.id(r, c);
        let res = guard(|| s.verify(id, &sq.dah).map(|()| s.clone()).map_err(|e| e.to_string()));
        let raw = RawSample::from(s.clone());
        let fam = format!("{family}(direct)");
        let cand = Cand { family: &fam, r, c, raw: Some(&raw), bytes: None, note };
        self.judge(sq, &cand, "Sample::verify", res);
    }

    /// The honest sample of `(r, c)` as the code under test produces it.
    fn honest_sample(&self, sq: &Sq, r: usize, c: usize, axis: AxisType) -> Option<Sample> {
        match guard(|| Sample::new(r as u16, c as u16, axis, &sq.eds)) {
            Ok(Ok(s)) => Some(s),
            Ok(Err(e)) => {
                self.ctx.inconclusive(&format!("Sample::new({r},{c},{axis}) failed on a valid square: {e}"));
                None
            }
            Err(p) => {
                self.ctx.inconclusive(&format!("Sample::new({r},{c},{axis}) panicked: {p}"));
                None
            }
        }
    }

    /// Honest sample: produced, (directly verified), encoded, decoded, verified.
    fn honest(&self, sq: &Sq, r: usize, c: usize, axis: AxisType) {
        let Some(s) = self.honest_sample(sq, r, c, axis) else { return };
        let ax = axis_name(axis);
        let id = self.id(r, c);
        let raw = RawSample::from(s.clone());
        let mk = |note: &str| Cand { family: "honest", r, c, raw: Some(&raw), bytes: None, note: note.into() };
        if self.codec.direct {
            self.ctx.eval();
            match guard(|| s.verify(id, &sq.dah)) {
                Ok(Ok(())) => self.ctx.count("honest.direct.accepted"),
                Ok(Err(e)) => self.ctx.violation(
                    &format!("C04/honest-rejected/Sample::verify/axis={ax}"),
                    &format!("honest sample of ({r}, {c}) rejected: {e}"),
                    self.detail(sq, &mk("direct"), json!({"error": e.to_string()})),
                ),
                Err(p) => self.ctx.violation(
                    &format!("C04/honest-rejected/Sample::verify/panic/{}", panic_site(&p)),
                    &format!("honest sample of ({r}, {c}) panicked in verify: {p}"),
                    self.detail(sq, &mk("direct"), json!({"panic": p})),
                ),
            }
        }
        self.ctx.eval();
        let bytes = match guard(|| (self.codec.encode)(&s)) {
            Ok(b) => b,
            Err(p) => {
                self.ctx.violation(
                    &format!("C04/honest-rejected/encode/panic/{}", panic_site(&p)),
                    &format!("encoding the honest sample of ({r}, {c}) panicked: {p}"),
                    self.detail(sq, &mk("encode"), json!({"panic": p})),
                );
                return;
            }
        };
        match guard(|| (self.codec.decode_verify)(&bytes, id, &sq.dah, sq.app)) {
            Ok(Ok(d)) => {
                self.ctx.count("honest.accepted");
                self.ctx.count(&format!("honest.accepted.axis={ax}"));
                self.ctx.count(if sq.in_ods(r, c) { "honest.accepted.quadrant=ods" } else { "honest.accepted.quadrant=parity" });
                self.ctx.nontrivial(&("honest", sq.w, r, c, ax, vcore::hash64(&sq.at(r, c)[..])));
                if d.share.data() != sq.at(r, c) {
                    self.ctx.violation(
                        &format!("C04/honest-roundtrip/share-differs/axis={ax}"),
                        &format!("honest sample of ({r}, {c}) decodes and verifies but carries a share that is not the committed cell"),
                        self.detail(sq, &mk("roundtrip"), json!({"decoded_share": vcore::hex(d.share.data())})),
                    );
                } else if d.share.is_parity() == sq.in_ods(r, c) {
                    self.ctx.count("honest.parity_flag_differs");
                }
                self.ctx.sample(|| json!({
                    "kind": "honest", "codec": self.codec.name, "eds_width": sq.w, "row": r, "col": c, "axis": ax,
                    "encoded_len": bytes.len(), "share": vcore::hex(sq.at(r, c)), "accepted": true,
                }));
            }
            Ok(Err(e)) => self.ctx.violation(
                &format!("C04/honest-rejected/decode+verify/axis={ax}"),
                &format!("honest sample of ({r}, {c}) rejected after encode/decode: {e}"),
                self.detail(sq, &mk("roundtrip"), json!({"error": e})),
            ),
            Err(p) => self.ctx.violation(
                &format!("C04/honest-rejected/decode+verify/panic/{}", panic_site(&p)),
                &format!("honest sample of ({r}, {c}) panicked after encode/decode: {p}"),
                self.detail(sq, &mk("roundtrip"), json!({"panic": p})),
            ),
        }
    }

    /// All adversarial families for target `(r, c)` with candidate proofs along `axis`.
    fn adversarial(&self, sq: &Sq, other: &Sq, rng: &mut ChaCha8Rng, r: usize, c: usize, axis: AxisType) {
        let w = sq.w;
        let ax = axis_name(axis);
        // position on the same line of the proof axis / across it / elsewhere
        let (r2, c2) = (other_index(rng, w, r), other_index(rng, w, c));
        let same_line = match axis {
            AxisType::Row => (r, c2),
            AxisType::Col => (r2, c),
        };
        // a same-line position within the same half (same quadrant class) when there is one
        let same_half = |x: usize, rng: &mut ChaCha8Rng| -> Option<usize> {
            let h = w / 2;
            if h < 2 {
                return None;
            }
            let base = if x < h { 0 } else { h };
            Some(base + other_index(rng, h, x - base))
        };
        let same_line_same_half = match axis {
            AxisType::Row => same_half(c, rng).map(|c3| (r, c3)),
            AxisType::Col => same_half(r, rng).map(|r3| (r3, c)),
        };
        let cross_line = match axis {
            AxisType::Row => (r2, c),
            AxisType::Col => (r, c2),
        };
        let want = match axis {
            AxisType::Row => c,
            AxisType::Col => r,
        };

        let key = |fam: &str, p: (usize, usize)| (fam.to_string(), self.codec.name, w, r, c, p, ax);

        // --- honest samples of other positions, unmodified ------------------------------------
        let mut line_samples: Vec<((usize, usize), Sample)> = Vec::new();
        for (fam, pos) in [
            ("same-line", Some(same_line)),
            ("same-line", same_line_same_half),
            ("cross-line", Some(cross_line)),
            ("elsewhere", Some((r2, c2))),
        ] {
            let Some(pos) = pos else { continue };
            let Some(s) = self.honest_sample(sq, pos.0, pos.1, axis) else { continue };
            if sq.at(pos.0, pos.1) != sq.at(r, c) {
                self.ctx.nontrivial(&key(fam, pos));
                self.ctx.count("adv.nontrivial");
            }
            let note = format!("honest {ax}-proof sample of ({}, {})", pos.0, pos.1);
            self.present(sq, fam, r, c, &RawSample::from(s.clone()), note.clone());
            self.present_direct(sq, fam, r, c, &s, note);
            if fam == "same-line" {
                line_samples.push((pos, s));
            }
        }

        // --- same-line samples with rewritten proof range --------------------------------------
        for (pos, s) in &line_samples {
            let mut raw = RawSample::from(s.clone());
            let p = raw.proof.as_mut().unwrap();
            let orig = p.start;
            for (start, end, what) in [
                (want as i64, want as i64 + 1, "range rewritten to the requested index"),
                (0, 1, "range 0..1"),
                (orig, orig + 2, "range widened"),
                (orig.min(want as i64), orig.max(want as i64) + 1, "range spanning both indices"),
            ] {
                let mut raw = raw.clone();
                let p = raw.proof.as_mut().unwrap();
                (p.start, p.end) = (start, end);
                if sq.at(pos.0, pos.1) != sq.at(r, c) {
                    self.ctx.nontrivial(&key("same-line-reindexed", (pos.0 * 1000 + start as usize, pos.1 * 1000 + end as usize)));
                    self.ctx.count("adv.nontrivial");
                }
                self.present(sq, "same-line-reindexed", r, c, &raw, format!("honest {ax}-proof sample of ({}, {}), {what} ({start}..{end})", pos.0, pos.1));
            }
            // sibling list adapted as far as an attacker can without the preimages: reversed / rotated
            let mut raw2 = raw.clone();
            let p = raw2.proof.as_mut().unwrap();
            (p.start, p.end) = (want as i64, want as i64 + 1);
            p.nodes.reverse();
            self.present(sq, "same-line-reindexed", r, c, &raw2, format!("honest sample of ({}, {}), range rewritten, siblings reversed", pos.0, pos.1));
        }

        // --- index aliasing: nmt-rs derives the left/right structure of the path only from the number
        // of set bits of the start index, so the last leaf of the line (all siblings on the left)
        // also verifies under any index with that many set bits. An index that agrees with the
        // requested one only in its low 8/16/32 bits must not be mistaken for it (a position
        // comparison done in a narrower integer type would be).
        {
            let last = w - 1;
            let last_pos = match axis {
                AxisType::Row => (r, last),
                AxisType::Col => (last, c),
            };
            if want != last {
                if let Some(s) = self.honest_sample(sq, last_pos.0, last_pos.1, axis) {
                    let levels = w.trailing_zeros();
                    let extra = levels - (want as u32).count_ones();
                    for shift in [8u32, 16, 32] {
                        if (want as u64) >> shift != 0 {
                            continue;
                        }
                        let start = (want as i64) | ((((1i64 << extra) - 1)) << shift);
                        let mut raw = RawSample::from(s.clone());
                        let p = raw.proof.as_mut().unwrap();
                        (p.start, p.end) = (start, start + 1);
                        if sq.at(last_pos.0, last_pos.1) != sq.at(r, c) {
                            self.ctx.nontrivial(&key("same-line-alias-index", (shift as usize, start as usize)));
                            self.ctx.count("adv.nontrivial");
                            self.ctx.count("adv.alias_index_candidates");
                        }
                        self.present(
                            sq,
                            "same-line-alias-index",
                            r,
                            c,
                            &raw,
                            format!(
                                "honest {ax}-proof sample of the last position ({}, {}) re-labelled as leaf {start} (= requested index {want} in its low {shift} bits, same number of set bits as {last})",
                                last_pos.0, last_pos.1
                            ),
                        );
                    }
                }
            }
        }

        // --- the requested position itself, tampered -------------------------------------------
        let Some(own) = self.honest_sample(sq, r, c, axis) else { return };
        let own_raw = RawSample::from(own.clone());

        // axis flag flipped (right share, proof along the other axis than claimed)
        {
            let mut raw = own_raw.clone();
            raw.proof_type = flip(axis) as i32;
            self.present(sq, "axis-flag-flipped", r, c, &raw, format!("honest {ax} sample of the requested position, proof_type flipped"));
            let mut s = own.clone();
            s.proof_type = flip(axis);
            self.present_direct(sq, "axis-flag-flipped", r, c, &s, "proof_type flipped".into());
        }
        // transposed position, with and without flipped flag
        if r != c {
            if let Some(t) = self.honest_sample(sq, c, r, axis) {
                if sq.at(c, r) != sq.at(r, c) {
                    self.ctx.nontrivial(&key("transposed", (c, r)));
                    self.ctx.count("adv.nontrivial");
                }
                let mut raw = RawSample::from(t.clone());
                raw.proof_type = flip(axis) as i32;
                self.present(sq, "transposed", r, c, &raw, format!("honest {ax} sample of ({c}, {r}) with proof_type flipped"));
                let mut s = t.clone();
                s.proof_type = flip(axis);
                self.present_direct(sq, "transposed", r, c, &s, format!("honest {ax} sample of ({c}, {r}) with proof_type flipped"));
            }
        }
        // share bytes altered
        for region in 0..3 {
            let mut raw = own_raw.clone();
            let d = &mut raw.share.as_mut().unwrap().data;
            let k = match region {
                0 => rng.gen_range(0..29),
                1 => 29,
                _ => rng.gen_range(30..d.len()),
            };
            d[k] ^= 1 << rng.gen_range(0..8);
            self.ctx.nontrivial(&key("share-byte-altered", (k, region)));
            self.ctx.count("adv.nontrivial");
            self.present(sq, "share-byte-altered", r, c, &raw, format!("honest sample of the requested position, share byte {k} altered"));
        }
        // share substituted by another cell (proof kept)
        for pos in [same_line, cross_line, (r2, c2)] {
            if sq.at(pos.0, pos.1) == sq.at(r, c) {
                continue;
            }
            let mut raw = own_raw.clone();
            raw.share = Some(RawShare { data: sq.at(pos.0, pos.1).to_vec() });
            self.ctx.nontrivial(&key("share-substituted", pos));
            self.ctx.count("adv.nontrivial");
            self.present(sq, "share-substituted", r, c, &raw, format!("honest proof of the requested position with the share of ({}, {})", pos.0, pos.1));
        }
        // share of the same position in another square (proof kept), and the other square's sample
        if other.w == sq.w && other.at(r, c) != sq.at(r, c) {
            let mut raw = own_raw.clone();
            raw.share = Some(RawShare { data: other.at(r, c).to_vec() });
            self.ctx.count("adv.nontrivial");
            self.present(sq, "other-square", r, c, &raw, "share of the same position of another square, honest proof".into());
            if let Some(s) = self.honest_sample(other, r, c, axis) {
                self.ctx.nontrivial(&key("other-square", (r, c)));
                self.ctx.count("adv.nontrivial");
                self.present(sq, "other-square", r, c, &RawSample::from(s.clone()), "honest sample of the same position of another square".into());
                self.present_direct(sq, "other-square", r, c, &s, "honest sample of the same position of another square".into());
            }
        }
        // proof range of the own sample edited (share stays right: acceptance would be harmless)
        {
            let p0 = own_raw.proof.as_ref().unwrap().clone();
            for (start, end) in [
                (p0.start + 1, p0.end + 1),
                (p0.start - 1, p0.end - 1),
                (p0.start, p0.end + 1),
                (p0.start, p0.start),
                (p0.end, p0.start),
                (-1, 0),
                (p0.start + w as i64, p0.end + w as i64),
                (i64::MAX - 1, i64::MAX),
                (u32::MAX as i64, u32::MAX as i64 + 1),
            ] {
                let mut raw = own_raw.clone();
                let p = raw.proof.as_mut().unwrap();
                (p.start, p.end) = (start, end);
                self.present(sq, "own-proof-range-edited", r, c, &raw, format!("own sample, proof range {start}..{end}"));
            }
        }
        // sibling list edited
        {
            let n = own_raw.proof.as_ref().unwrap().nodes.len();
            for kind in 0..5 {
                let mut raw = own_raw.clone();
                let p = raw.proof.as_mut().unwrap();
                let what = match kind {
                    0 => {
                        p.nodes.remove(rng.gen_range(0..n));
                        "sibling dropped"
                    }
                    1 => {
                        let i = rng.gen_range(0..n);
                        let x = p.nodes[i].clone();
                        p.nodes.insert(i, x);
                        "sibling duplicated"
                    }
                    2 => {
                        if n < 2 {
                            continue;
                        }
                        let i = rng.gen_range(0..n - 1);
                        if p.nodes[i] == p.nodes[i + 1] {
                            continue;
                        }
                        p.nodes.swap(i, i + 1);
                        "siblings swapped"
                    }
                    3 => {
                        let i = rng.gen_range(0..n);
                        let k = rng.gen_range(0..p.nodes[i].len());
                        p.nodes[i][k] ^= 1 << rng.gen_range(0..8);
                        "sibling byte altered"
                    }
                    _ => {
                        let i = rng.gen_range(0..n);
                        p.nodes[i].truncate(rng.gen_range(0..90));
                        "sibling truncated"
                    }
                };
                self.present(sq, "own-siblings-edited", r, c, &raw, what.into());
            }
        }
        // flags / structure
        {
            let mut raw = own_raw.clone();
            let p = raw.proof.as_mut().unwrap();
            p.is_max_namespace_ignored = !p.is_max_namespace_ignored;
            self.present(sq, "structure", r, c, &raw, "is_max_namespace_ignored flipped".into());

            let mut raw = own_raw.clone();
            let p = raw.proof.as_mut().unwrap();
            p.leaf_hash = p.nodes[0].clone();
            self.present(sq, "structure", r, c, &raw, "turned into an absence proof (leaf_hash set)".into());

            let mut raw = own_raw.clone();
            raw.share = None;
            self.present(sq, "structure", r, c, &raw, "share missing".into());

            let mut raw = own_raw.clone();
            raw.proof = None;
            self.present(sq, "structure", r, c, &raw, "proof missing".into());

            for pt in [2, -1, i32::MAX] {
                let mut raw = own_raw.clone();
                raw.proof_type = pt;
                self.present(sq, "structure", r, c, &raw, format!("proof_type = {pt}"));
            }
            for len in [0usize, 1, 511, 513, 1024] {
                let mut raw = own_raw.clone();
                raw.share.as_mut().unwrap().data.resize(len, 0);
                self.present(sq, "structure", r, c, &raw, format!("share length {len}"));
            }
        }
        // benign re-encodings of the own sample (nothing is demanded; if accepted the share must be right)
        {
            let mut bytes = (self.codec.frame)(&own_raw);
            if self.codec.name == "types" {
                // unknown varint field 15 appended to the message
                bytes.extend_from_slice(&[0x78, 0x01]);
                self.present_bytes(sq, "benign-reencoding", r, c, &bytes, "unknown field appended".into());
            }
        }
        // byte-level mutations of encodings: own sample and a same-line sample
        for k in 0..4 {
            let (src, what) = if k % 2 == 0 || line_samples.is_empty() {
                (own_raw.clone(), "own")
            } else {
                (RawSample::from(line_samples[0].1.clone()), "same-line")
            };
            let mut bytes = (self.codec.frame)(&src);
            let m = vcore::mutate_bytes(rng, &mut bytes);
            self.present_bytes(sq, "bytes-mutated", r, c, &bytes, format!("encoding of the {what} sample, mutation {m}"));
        }
    }

    /// Requests for coordinates outside the square.
    fn outside(&self, sq: &Sq, rng: &mut ChaCha8Rng, axis: AxisType) {
        let w = sq.w;
        let ax = axis_name(axis);
        let fixed = rng.gen_range(0..w); // index of the line (row for row proofs, column for column proofs)
        let j = rng.gen_range(0..w); // honest position on that line
        let pos = match axis {
            AxisType::Row => (fixed, j),
            AxisType::Col => (j, fixed),
        };
        let Some(s) = self.honest_sample(sq, pos.0, pos.1, axis) else { return };
        let raw0 = RawSample::from(s.clone());
        let outs = [w, w + 1, w + w / 2, 2 * w - 1, 2 * w, 4 * w + j, u16::MAX as usize];
        for &o in &outs {
            let (r, c) = match axis {
                AxisType::Row => (fixed, o),
                AxisType::Col => (o, fixed),
            };
            self.ctx.nontrivial(&("outside", self.codec.name, w, r, c, ax));
            self.ctx.count("adv.nontrivial");
            let note = format!("honest {ax} sample of ({}, {}) presented for the outside coordinate", pos.0, pos.1);
            self.present(sq, "outside-square", r, c, &raw0, note.clone());
            self.present_direct(sq, "outside-square", r, c, &s, note);
            let mut raw = raw0.clone();
            let p = raw.proof.as_mut().unwrap();
            (p.start, p.end) = (o as i64, o as i64 + 1);
            self.present(sq, "outside-square-reindexed", r, c, &raw, format!("honest {ax} sample of ({}, {}), range rewritten to {o}..{}", pos.0, pos.1, o + 1));
            // the other coordinate outside as well
            let (r, c) = match axis {
                AxisType::Row => (o, j),
                AxisType::Col => (j, o),
            };
            self.present(sq, "outside-square", r, c, &raw0, format!("honest {ax} sample of ({}, {}) for an id whose line index is outside", pos.0, pos.1));
        }
        // Alternative tree shape: a leaf at index j >= w/2 of a perfect tree of w leaves sits on the
        // same root-to-leaf path as index j + w/2 of a tree of 3w/2 leaves; the verifier infers the
        // tree size from the proof.
        let j = rng.gen_range(w / 2..w);
        let pos = match axis {
            AxisType::Row => (fixed, j),
            AxisType::Col => (j, fixed),
        };
        if let Some(s) = self.honest_sample(sq, pos.0, pos.1, axis) {
            let mut raw = RawSample::from(s);
            let o = j + w / 2;
            let p = raw.proof.as_mut().unwrap();
            (p.start, p.end) = (o as i64, o as i64 + 1);
            let (r, c) = match axis {
                AxisType::Row => (fixed, o),
                AxisType::Col => (o, fixed),
            };
            self.ctx.nontrivial(&("alt-tree", self.codec.name, w, r, c, ax));
            self.ctx.count("adv.nontrivial");
            self.present(sq, "outside-square-alt-tree-shape", r, c, &raw, format!("honest {ax} sample of ({}, {}) re-labelled as leaf {o} of a tree of {} leaves", pos.0, pos.1, 3 * w / 2));
        }
    }

    fn square(&self, ods_width: usize, k: u64) {
        let ctx = self.ctx;
        let mut rng = ctx.rng(ods_width as u64, k);
        let Some(sq) = make_square(ctx, &mut rng, ods_width) else { return };
        let Some(other) = make_square(ctx, &mut rng, ods_width) else { return };
        let w = sq.w;
        let axes = [AxisType::Row, AxisType::Col];

        // honest: every coordinate (small squares / thorough), random coordinates otherwise
        let all_honest = w * w <= ctx.scale(256, 4096);
        if all_honest {
            for r in 0..w {
                for c in 0..w {
                    for a in axes {
                        self.honest(&sq, r, c, a);
                    }
                }
            }
            ctx.count("squares.every_coordinate_honest");
        } else {
            for _ in 0..ctx.scale(192, 1024) {
                let (r, c) = (rng.gen_range(0..w), rng.gen_range(0..w));
                for a in axes {
                    self.honest(&sq, r, c, a);
                }
            }
        }

        // adversarial targets: every coordinate of small squares, random ones otherwise
        let mut targets: Vec<(usize, usize)> = Vec::new();
        if w * w <= ctx.scale(16, 64) {
            for r in 0..w {
                for c in 0..w {
                    targets.push((r, c));
                }
            }
        } else {
            // corners / quadrant borders plus random
            let h = w / 2;
            targets.extend([(0, 0), (h - 1, h - 1), (h - 1, h), (h, h - 1), (h, h), (w - 1, w - 1), (0, w - 1), (w - 1, 0)]);
            for _ in 0..ctx.scale(16, 72) {
                targets.push((rng.gen_range(0..w), rng.gen_range(0..w)));
            }
        }
        targets.shuffle(&mut rng);
        for (r, c) in targets {
            for a in axes {
                self.adversarial(&sq, &other, &mut rng, r, c, a);
            }
        }
        for _ in 0..ctx.scale(2, 6) {
            for a in axes {
                self.outside(&sq, &mut rng, a);
            }
        }
    }
}

pub fn run_with(ctx: &Ctx, codec: &Codec) {
    ctx.rule(
        "Squares from vgen::square (ODS widths 1..32 => EDS 2..64, realistic namespace layout, random app version); \
         honest = Sample::new at every coordinate of small squares / random coordinates of large ones, both axes, \
         encode -> decode -> verify. Adversarial candidates per target and axis: honest samples of other positions \
         (same line of the proof axis, across it, elsewhere, transposed, other square) unmodified and with rewritten \
         ranges, altered / substituted shares, edited ranges and sibling lists, flipped flags, missing fields, ids \
         outside the square (incl. re-labelling in a tree of another size), byte-mutated encodings. Non-trivial = \
         honest acceptance at a distinct (width, coordinate, axis, cell), or an adversarial candidate whose share \
         differs from the committed cell of the requested coordinate while its own (share, proof) pair is genuine \
         for some position or square.",
    );
    ctx.assume("ExtendedDataSquare::from_ods yields the square whose cells are the ground truth (decided by C08)");
    ctx.assume("DAH roots were cross-checked against an independent NMT implementation (vcore::sha) over the raw cells");
    ctx.assume("sha256 collision resistance (rejections of re-labelled proofs are expected, not demanded)");
    ctx.extra("codec", json!(codec.name));

    let widths = [1usize, 2, 4, 8, 16, 32];
    let quick = ctx.quick();
    let per_width = move |w: usize| -> usize {
        if quick {
            match w {
                1 | 2 => 6,
                4 | 8 => 4,
                _ => 3,
            }
        } else {
            match w {
                1 | 2 => 48,
                4 | 8 => 32,
                16 => 24,
                _ => 16,
            }
        }
    };
    let items = work_items(&widths, &per_width);
    let shards = ctx.cores();
    let mon = Mon { ctx, codec };
    ctx.par(shards, |shard| {
        for (i, (w, k)) in items.iter().enumerate() {
            if i % shards == shard {
                mon.square(*w, *k);
            }
        }
    });

    ctx.floor("honest.accepted", ctx.scale(2_000, 50_000));
    ctx.floor("honest.accepted.axis=row", 500);
    ctx.floor("honest.accepted.axis=col", 500);
    ctx.floor("honest.accepted.quadrant=ods", 200);
    ctx.floor("honest.accepted.quadrant=parity", 200);
    ctx.floor("adv.rejected", ctx.scale(5_000, 50_000));
    ctx.floor("adv.nontrivial", ctx.scale(2_000, 20_000));
    for w in [2, 4, 8, 16, 32, 64] {
        ctx.floor(&format!("squares.eds_width={w}"), 2);
    }
}
