//! C13 — merkle, row and share proofs are position-binding and sound.
//!
//! Ground truth: the harness keeps the real tree (all node hashes computed with `vcore::sha`,
//! RFC-6962 on sha2) and the real square. A candidate proof handed to lumina is *legitimate* iff
//! `index < total`, the root is the real root, and walking the real tree along the left/right
//! turns that `(index, total)` prescribe ends exactly at a real leaf whose bytes are the claimed
//! leaf and whose real siblings are the claimed aunts. (By collision resistance every other
//! accepted candidate is a soundness bug, whatever the implementation looks like; candidates
//! that are legitimate only because RFC-6962 roots do not commit to the leaf count — "aliases" —
//! may be accepted or rejected.)
//!
//! accepted ⇒ legitimate; honest ⇒ accepted; a panic on a candidate is a violation (`verify`
//! documents an error for malformed proofs). Runs under `verif` (overflow checks: arithmetic
//! defects show up as panics) and `verif-rel` (plain release: they show up as accepted proofs
//! or slice panics).

use std::collections::HashMap;

use celestia_proto::celestia::core::v1::proof::{
    NmtProof as RawNmtProof, Proof as RawMerkleProof, RowProof as RawRowProof, ShareProof as RawShareProof,
};
use celestia_types::consts::appconsts::AppVersion;
use celestia_types::hash::Hash;
use celestia_types::nmt::{Namespace, NamespaceProof, NamespacedHash, NamespacedHashExt};
use celestia_types::{DataAvailabilityHeader, ExtendedDataSquare, MerkleProof, RowProof, ShareProof};
use vcore::{ChaCha8Rng, Ctx, Rng, SliceRandom, Value, guard, json, panic_site, rand_bytes, sha};
use vgen::square::{committed_namespace, gen_eds, random_app_version, random_user_namespace, share_bytes};

type H = [u8; 32];
type NmtNsProof = nmt_rs::nmt_proof::NamespaceProof<celestia_types::nmt::NamespacedSha2Hasher, 29>;

// ---------------------------------------------------------------------------------------------
// Ground-truth tree
// ---------------------------------------------------------------------------------------------

fn split(n: u128) -> u128 {
    // largest power of two strictly below n (n >= 2)
    let mut k = 1u128;
    while k * 2 < n {
        k *= 2;
    }
    k
}

struct Tree {
    leaves: Vec<Vec<u8>>,
    nodes: HashMap<(usize, usize), H>,
    root: H,
}

impl Tree {
    fn new(leaves: Vec<Vec<u8>>) -> Tree {
        assert!(!leaves.is_empty());
        fn build(leaves: &[Vec<u8>], lo: usize, hi: usize, nodes: &mut HashMap<(usize, usize), H>) -> H {
            let h = if hi - lo == 1 {
                sha::leaf_hash(&leaves[lo])
            } else {
                let k = split((hi - lo) as u128) as usize;
                let l = build(leaves, lo, lo + k, nodes);
                let r = build(leaves, lo + k, hi, nodes);
                sha::inner_hash(&l, &r)
            };
            nodes.insert((lo, hi), h);
            h
        }
        let mut nodes = HashMap::new();
        let root = build(&leaves, 0, leaves.len(), &mut nodes);
        Tree { leaves, nodes, root }
    }

    fn n(&self) -> usize {
        self.leaves.len()
    }

    /// Real audit path of leaf `i`, leaf-to-root.
    fn path(&self, i: usize) -> Vec<H> {
        let (mut lo, mut hi) = (0usize, self.n());
        let mut sibs = Vec::new();
        while hi - lo > 1 {
            let k = split((hi - lo) as u128) as usize;
            if i < lo + k {
                sibs.push(self.nodes[&(lo + k, hi)]);
                hi = lo + k;
            } else {
                sibs.push(self.nodes[&(lo, lo + k)]);
                lo += k;
            }
        }
        sibs.reverse();
        sibs
    }

    /// Is the candidate legitimate? Returns the real position of the proven leaf.
    fn legit(&self, index: usize, total: usize, leaf: &[u8], aunts: &[H], root: &H) -> Option<usize> {
        if *root != self.root || index >= total {
            return None;
        }
        let (mut idx, mut tot) = (index as u128, total as u128);
        let (mut lo, mut hi) = (0usize, self.n());
        let mut sibs: Vec<H> = Vec::new();
        while tot > 1 {
            if hi - lo == 1 {
                return None; // claims a deeper position than the real tree has
            }
            let k = split(tot);
            let rk = split((hi - lo) as u128) as usize;
            if idx < k {
                sibs.push(self.nodes[&(lo + rk, hi)]);
                hi = lo + rk;
                tot = k;
            } else {
                sibs.push(self.nodes[&(lo, lo + rk)]);
                lo += rk;
                idx -= k;
                tot -= k;
            }
        }
        if hi - lo != 1 || self.leaves[lo] != leaf {
            return None;
        }
        sibs.reverse();
        (sibs == aunts).then_some(lo)
    }
}

// ---------------------------------------------------------------------------------------------
// Part A: MerkleProof
// ---------------------------------------------------------------------------------------------

#[derive(Clone)]
struct Cand {
    family: &'static str,
    index: usize,
    total: usize,
    leaf: Vec<u8>,
    leaf_hash: H,
    aunts: Vec<H>,
    root: H,
}

fn cand_detail(t: &Tree, c: &Cand, honest_index: usize) -> Value {
    json!({
        "real_leaf_count": t.n(),
        "proof_built_for_index": honest_index,
        "mutation": c.family,
        "claimed_index": c.index,
        "claimed_total": c.total,
        "leaf": vcore::hex(&c.leaf),
        "leaf_hash_field_matches_leaf": c.leaf_hash == sha::leaf_hash(&c.leaf),
        "aunts": c.aunts.iter().map(|a| vcore::hex_full(a)).collect::<Vec<_>>(),
        "root_is_real_root": c.root == t.root,
        "leaves": if t.n() <= 8 { json!(t.leaves.iter().map(|l| vcore::hex_full(l)).collect::<Vec<_>>()) } else { json!(format!("{} leaves (see seed)", t.n())) },
    })
}

fn judge_merkle(ctx: &Ctx, t: &Tree, c: &Cand, honest: bool, honest_index: usize, wire: bool) {
    let legit = t.legit(c.index, c.total, &c.leaf, &c.aunts, &c.root);
    let proof = MerkleProof {
        index: c.index,
        total: c.total,
        leaf_hash: c.leaf_hash,
        aunts: c.aunts.clone(),
    };
    let proof = if wire && c.index <= i64::MAX as usize && c.total <= i64::MAX as usize {
        // through the protobuf type, as a peer would deliver it
        let raw = RawMerkleProof::from(proof.clone());
        match guard(|| MerkleProof::try_from(raw)) {
            Err(p) => {
                ctx.violation(&format!("C13/merkle_decode/panic/{}", panic_site(&p)), &p, cand_detail(t, c, honest_index));
                return;
            }
            Ok(Err(_)) => {
                ctx.count(&format!("merkle/decode_rejected/{}", c.family));
                if honest {
                    ctx.violation("C13/merkle_decode/rejects-honest", "honest proof does not decode", cand_detail(t, c, honest_index));
                }
                return;
            }
            Ok(Ok(p)) => {
                if p != proof {
                    ctx.violation("C13/merkle_decode/changes-proof", "RawMerkleProof round trip changed the proof", cand_detail(t, c, honest_index));
                }
                ctx.count("merkle/via_wire");
                p
            }
        }
    } else {
        proof
    };
    ctx.eval();
    match guard(|| proof.verify(&c.leaf, c.root)) {
        Err(p) => {
            let sig = if c.total == 0 {
                "C13/merkle_verify/panic/total=0".to_string()
            } else if c.total > (1usize << 63) {
                "C13/merkle_verify/panic/total>2^63".to_string()
            } else {
                format!("C13/merkle_verify/panic/{}", panic_site(&p))
            };
            ctx.violation(&sig, &format!("MerkleProof::verify panicked instead of returning an error: {p}"), cand_detail(t, c, honest_index));
        }
        Ok(Ok(())) => {
            if legit.is_some() {
                ctx.count("merkle/accepted_legitimate");
                if honest {
                    ctx.count("merkle/accepted_honest");
                } else {
                    ctx.count(&format!("merkle/accepted_alias/{}", c.family));
                }
            } else if c.index >= c.total {
                ctx.violation(
                    "C13/merkle_verify/accepts-index>=total",
                    &format!(
                        "MerkleProof::verify accepted index {} with total {} (real tree: {} leaves, proof built for leaf {})",
                        c.index, c.total, t.n(), honest_index
                    ),
                    cand_detail(t, c, honest_index),
                );
            } else {
                ctx.violation(
                    &format!("C13/merkle_verify/accepts-illegitimate/{}", group("merkle", c.family)),
                    "MerkleProof::verify accepted a proof although the leaf is not at that index of the real tree / aunts are not its siblings / root differs",
                    cand_detail(t, c, honest_index),
                );
            }
        }
        Ok(Err(_)) => {
            if honest {
                ctx.violation("C13/merkle_verify/rejects-honest", "honest proof rejected", cand_detail(t, c, honest_index));
            } else if legit.is_some() {
                ctx.count(&format!("merkle/rejected_alias_or_field/{}", c.family));
            } else {
                ctx.count(&format!("merkle/rejected/{}", c.family));
                ctx.count("merkle/rejected_illegitimate");
            }
        }
    }
}

/// Coarse class of a mutation family, used in signatures (counters keep the fine family).
fn group(part: &str, family: &str) -> &'static str {
    let f = family;
    match part {
        "merkle" => {
            if f.starts_with("leaf_hash") {
                "leaf_hash-field"
            } else if f.starts_with("leaf") || f.starts_with("inner-node") || f.starts_with("relocated") {
                "leaf"
            } else if f.starts_with("index+d") {
                "index-and-total"
            } else if f.starts_with("index") {
                "index"
            } else if f.starts_with("total") {
                "total"
            } else if f.starts_with("aunt") {
                "aunts"
            } else if f.starts_with("root") {
                "root"
            } else {
                "other"
            }
        }
        "row" => {
            if f.starts_with("root-of-other-dah") || f == "root-bitflip" || f.starts_with("root=Hash") {
                "dah-root"
            } else if f.starts_with("root-count") || f.starts_with("span") || f.starts_with("start_row")
                || f.starts_with("relabelled") || f.starts_with("row-number") || f.contains("dropped(")
            {
                "root-count-vs-span"
            } else if f.starts_with("root") || f.starts_with("column-roots") {
                "proven-root"
            } else if f.starts_with("aunt") {
                "aunts"
            } else if f.starts_with("proof-") {
                "merkle-index-total"
            } else if f.starts_with("leaf_hash") {
                "leaf_hash-field"
            } else {
                "other"
            }
        }
        _ => {
            if f.starts_with("share") {
                "proven-share"
            } else if f.starts_with("namespace") {
                "namespace"
            } else if f.starts_with("nmt-node") {
                "nmt-node"
            } else if f.starts_with("range") || f.starts_with("absence") {
                "nmt-range"
            } else if f.starts_with("nmt-proof") || f.starts_with("row-proof-missing") {
                "proof-count"
            } else if f.starts_with("row-") {
                "row-proof"
            } else if f.starts_with("root") {
                "dah-root"
            } else {
                "other"
            }
        }
    }
}

fn flip(rng: &mut ChaCha8Rng, h: &mut [u8]) {
    let i = rng.gen_range(0..h.len());
    h[i] ^= 1 << rng.gen_range(0..8);
}

fn np2(n: usize) -> usize {
    n.checked_next_power_of_two().unwrap_or(usize::MAX)
}

fn merkle_mutants(rng: &mut ChaCha8Rng, t: &Tree, i: usize, h: &Cand, foreign_root: &H) -> Vec<Cand> {
    let n = t.n();
    let mut out: Vec<Cand> = Vec::new();
    let mut push = |family: &'static str, f: &mut dyn FnMut(&mut Cand) -> bool| {
        let mut c = h.clone();
        c.family = family;
        if f(&mut c) {
            out.push(c);
        }
    };

    // leaf
    if n > 1 {
        let j = (i + rng.gen_range(1..n)) % n;
        push("leaf=other-leaf", &mut |c| {
            c.leaf = t.leaves[j].clone();
            c.leaf_hash = sha::leaf_hash(&c.leaf);
            c.leaf != t.leaves[i]
        });
        // whole proof of leaf j presented for position i
        push("relocated-proof", &mut |c| {
            c.leaf = t.leaves[j].clone();
            c.leaf_hash = sha::leaf_hash(&c.leaf);
            c.aunts = t.path(j);
            true
        });
    }
    push("leaf=bitflip", &mut |c| {
        if c.leaf.is_empty() {
            c.leaf.push(0);
        } else {
            flip(rng, &mut c.leaf);
        }
        c.leaf_hash = sha::leaf_hash(&c.leaf);
        true
    });
    push("leaf=truncated-or-extended", &mut |c| {
        if c.leaf.is_empty() || rng.gen_bool(0.5) {
            c.leaf.push(0);
        } else {
            c.leaf.pop();
        }
        c.leaf_hash = sha::leaf_hash(&c.leaf);
        true
    });
    push("leaf=bitflip,leaf_hash-field-kept", &mut |c| {
        if c.leaf.is_empty() {
            c.leaf.push(1);
        } else {
            flip(rng, &mut c.leaf);
        }
        true
    });
    push("leaf_hash-field", &mut |c| {
        flip(rng, &mut c.leaf_hash);
        true
    });
    // an inner node offered as a leaf (second-preimage shape)
    if !h.aunts.is_empty() {
        push("inner-node-as-leaf", &mut |c| {
            let own = sha::leaf_hash(&t.leaves[i]);
            let sib = c.aunts[0];
            // children in either order
            let mut l = Vec::new();
            if rng.gen_bool(0.5) {
                l.extend_from_slice(&own);
                l.extend_from_slice(&sib);
            } else {
                l.extend_from_slice(&sib);
                l.extend_from_slice(&own);
            }
            c.leaf = l;
            c.leaf_hash = sha::leaf_hash(&c.leaf);
            c.aunts.remove(0);
            c.index = i / 2;
            c.total = (n + 1) / 2;
            true
        });
    }

    // index
    let mut idxs = vec![
        i.wrapping_sub(1),
        i + 1,
        0,
        n - 1,
        n,
        n + 1,
        np2(n),
        np2(n).wrapping_sub(1),
        np2(n) + 1,
        2 * n,
        i + n,
        i + np2(n),
        i ^ 1,
        usize::MAX,
        usize::MAX - 1,
        1usize << 63,
        i64::MAX as usize,
        rng.gen_range(0..n),
        n + rng.gen_range(0..4 * n),
        rng.r#gen::<usize>(),
    ];
    idxs.sort();
    idxs.dedup();
    for x in idxs {
        if x != i {
            push(if x >= n { "index>=total" } else { "index<total" }, &mut |c| {
                c.index = x;
                true
            });
        }
    }

    // total
    let mut tots = vec![
        0,
        1,
        n - 1,
        n + 1,
        np2(n),
        np2(n) + 1,
        np2(n) / 2,
        (np2(n) / 2).wrapping_sub(1),
        2 * n,
        i,
        i + 1,
        i + 2,
        usize::MAX,
        (1usize << 63) + 1,
        1usize << 63,
        i64::MAX as usize,
        rng.gen_range(1..=2 * n),
        rng.r#gen::<usize>(),
    ];
    tots.sort();
    tots.dedup();
    for x in tots {
        if x != n {
            let fam = if x == 0 {
                "total=0"
            } else if x <= i {
                "total<=index"
            } else if x > (1usize << 63) {
                "total>2^63"
            } else {
                "total"
            };
            push(fam, &mut |c| {
                c.total = x;
                true
            });
        }
    }
    // index and total shifted together
    for d in [1usize, n, np2(n)] {
        push("index+d,total+d", &mut |c| {
            c.index = i + d;
            c.total = n + d;
            true
        });
    }

    // aunts
    let k = h.aunts.len();
    if k > 0 {
        for _ in 0..2 {
            push("aunt-bitflip", &mut |c| {
                let a = rng.gen_range(0..k);
                flip(rng, &mut c.aunts[a]);
                true
            });
        }
        push("aunt-dropped-first", &mut |c| {
            c.aunts.remove(0);
            true
        });
        push("aunt-dropped-last", &mut |c| {
            c.aunts.pop();
            true
        });
        push("aunts-empty", &mut |c| {
            c.aunts.clear();
            true
        });
        push("aunt=leaf-hash", &mut |c| {
            let a = rng.gen_range(0..k);
            let own = c.leaf_hash;
            if c.aunts[a] == own {
                return false;
            }
            c.aunts[a] = own;
            true
        });
    }
    if k > 1 {
        push("aunts-swapped", &mut |c| {
            let a = rng.gen_range(0..k - 1);
            if c.aunts[a] == c.aunts[a + 1] {
                return false;
            }
            c.aunts.swap(a, a + 1);
            true
        });
        push("aunts-reversed", &mut |c| {
            c.aunts.reverse();
            c.aunts != h.aunts
        });
        push("aunt-dropped-middle", &mut |c| {
            let a = rng.gen_range(0..k);
            c.aunts.remove(a);
            true
        });
    }
    push("aunt-extra-last", &mut |c| {
        let mut x = [0u8; 32];
        rng.fill(&mut x);
        c.aunts.push(x);
        true
    });
    push("aunt-extra-first", &mut |c| {
        let x = c.aunts.first().copied().unwrap_or([7u8; 32]);
        c.aunts.insert(0, x);
        true
    });

    // root
    push("root-bitflip", &mut |c| {
        flip(rng, &mut c.root);
        true
    });
    push("root-of-other-tree", &mut |c| {
        c.root = *foreign_root;
        c.root != t.root
    });
    push("root=empty-hash", &mut |c| {
        c.root = sha::sha256(&[]);
        true
    });
    out
}

fn random_leaves(rng: &mut ChaCha8Rng, n: usize) -> Vec<Vec<u8>> {
    let style = rng.gen_range(0..5);
    let mut v: Vec<Vec<u8>> = Vec::with_capacity(n);
    for _ in 0..n {
        // duplicates are legal leaves and make "same bytes, other position" cases
        if !v.is_empty() && rng.gen_bool(0.08) {
            let j = rng.gen_range(0..v.len());
            v.push(v[j].clone());
            continue;
        }
        let len = match style {
            0 => 90, // like DAH roots
            1 => rng.gen_range(0..4),
            2 => 32,
            3 => 65, // shaped like an inner-node preimage
            _ => rng.gen_range(0..48),
        };
        let mut l = rand_bytes(rng, len);
        if style == 3 {
            l[0] = 1;
        }
        v.push(l);
    }
    v
}

fn merkle_case(ctx: &Ctx, n: usize, case: u64) {
    let mut rng = ctx.rng(1, (n as u64) << 16 | case);
    let tree = Tree::new(random_leaves(&mut rng, n));
    let foreign_n = n.max(2) - 1 + rng.gen_range(0..3);
    let foreign = Tree::new(random_leaves(&mut rng, foreign_n));
    // harness self-check: two independent reference implementations agree
    assert_eq!(tree.root, sha::merkle_root(&tree.leaves), "harness: reference trees disagree");

    let all = ctx.scale(64usize, 300usize);
    let mut indices: Vec<usize> = if n <= all {
        (0..n).collect()
    } else {
        let k = split(n as u128) as usize;
        let mut v = vec![0, 1, k - 1, k, k + 1, n / 2, n - 2, n - 1];
        for _ in 0..6 {
            v.push(rng.gen_range(0..n));
        }
        v.retain(|x| *x < n);
        v.sort();
        v.dedup();
        v
    };
    indices.dedup();

    for &i in &indices {
        let aunts = tree.path(i);
        debug_assert_eq!(aunts, sha::merkle_path(&tree.leaves, i));
        let reference = Cand {
            family: "honest(reference-built)",
            index: i,
            total: n,
            leaf: tree.leaves[i].clone(),
            leaf_hash: sha::leaf_hash(&tree.leaves[i]),
            aunts,
            root: tree.root,
        };
        // honest proof built by lumina, verified against the *reference* root
        match guard(|| MerkleProof::new(i, &tree.leaves)) {
            Err(p) => ctx.violation(&format!("C13/merkle_new/panic/{}", panic_site(&p)), &p, json!({"n": n, "index": i})),
            Ok(Err(e)) => ctx.violation("C13/merkle_new/err", &format!("{e}"), json!({"n": n, "index": i})),
            Ok(Ok((p, root))) => {
                if root != tree.root {
                    ctx.violation(
                        "C13/merkle_new/root-differs-from-rfc6962",
                        "MerkleProof::new returned a root different from the RFC-6962 root of the leaves",
                        json!({"n": n, "index": i}),
                    );
                }
                let c = Cand {
                    family: "honest(lumina-built)",
                    index: p.index,
                    total: p.total,
                    leaf: tree.leaves[i].clone(),
                    leaf_hash: p.leaf_hash,
                    aunts: p.aunts.clone(),
                    root: tree.root,
                };
                judge_merkle(ctx, &tree, &c, true, i, i % 2 == 0);
            }
        }
        judge_merkle(ctx, &tree, &reference, true, i, i % 2 == 1);
        let muts = merkle_mutants(&mut rng, &tree, i, &reference, &foreign.root);
        for (k, m) in muts.iter().enumerate() {
            judge_merkle(ctx, &tree, m, false, i, k % 4 == 0);
        }
        ctx.nontrivial(&("merkle", n, i));
        ctx.sample(|| json!({"part": "merkle", "leaves": n, "index": i, "mutants": muts.len()}));
    }
    // out-of-range index for MerkleProof::new
    if let Ok(Ok(_)) = guard(|| MerkleProof::new(n, &tree.leaves)) {
        ctx.violation("C13/merkle_new/accepts-index>=len", "MerkleProof::new built a proof for an index past the end", json!({"n": n}));
    }
}

// ---------------------------------------------------------------------------------------------
// Part B: RowProof
// ---------------------------------------------------------------------------------------------

struct DahEnv {
    dah: DataAvailabilityHeader,
    tree: Tree,
    /// number of rows (= extended square width)
    w: usize,
}

impl DahEnv {
    fn new(dah: DataAvailabilityHeader) -> DahEnv {
        let all: Vec<Vec<u8>> = dah
            .row_roots()
            .iter()
            .chain(dah.column_roots().iter())
            .map(|r| r.to_array().to_vec())
            .collect();
        let w = dah.row_roots().len();
        DahEnv {
            dah,
            tree: Tree::new(all),
            w,
        }
    }
    fn root(&self) -> Hash {
        Hash::Sha256(self.tree.root)
    }
}

fn random_nshash(rng: &mut ChaCha8Rng) -> NamespacedHash {
    let a = random_user_namespace(rng, false);
    let b = random_user_namespace(rng, false);
    let (min, max) = if a <= b { (a, b) } else { (b, a) };
    let mut raw = [0u8; 90];
    raw[..29].copy_from_slice(min.as_bytes());
    raw[29..58].copy_from_slice(max.as_bytes());
    rng.fill(&mut raw[58..]);
    NamespacedHash::from_raw(&raw).unwrap()
}

fn random_dah(rng: &mut ChaCha8Rng, w: usize) -> DataAvailabilityHeader {
    let rows = (0..w).map(|_| random_nshash(rng)).collect();
    let cols = (0..w).map(|_| random_nshash(rng)).collect();
    DataAvailabilityHeader::new_unchecked(rows, cols)
}

struct RowLegit {
    /// real positions (in rows ++ columns) of the proven roots
    positions: Vec<usize>,
}

fn arr32(v: &[u8]) -> Option<H> {
    v.try_into().ok()
}

/// Ground truth for a raw row proof against `root`.
fn legit_row(env: &DahEnv, raw: &RawRowProof, root: &Hash) -> Option<RowLegit> {
    let Hash::Sha256(root) = root else { return None };
    if raw.row_roots.len() != raw.proofs.len() || raw.end_row < raw.start_row {
        return None;
    }
    if (raw.end_row as u64 - raw.start_row as u64 + 1) != raw.proofs.len() as u64 {
        return None;
    }
    let mut positions = Vec::new();
    for (rr, p) in raw.row_roots.iter().zip(&raw.proofs) {
        if p.index < 0 || p.total <= 0 {
            return None;
        }
        let aunts: Option<Vec<H>> = p.aunts.iter().map(|a| arr32(a)).collect();
        let pos = env.tree.legit(p.index as usize, p.total as usize, rr, &aunts?, root)?;
        positions.push(pos);
    }
    Some(RowLegit { positions })
}

fn row_detail(env: &DahEnv, raw: &RawRowProof, family: &str) -> Value {
    json!({
        "mutation": family,
        "dah_rows": env.w,
        "start_row": raw.start_row,
        "end_row": raw.end_row,
        "row_roots": raw.row_roots.len(),
        "proofs": raw.proofs.iter().take(6).map(|p| json!({"index": p.index, "total": p.total, "aunts": p.aunts.len()})).collect::<Vec<_>>(),
        "proofs_len": raw.proofs.len(),
    })
}

/// Some inner merkle proof claims an index at or past its leaf count (the class of input that
/// `MerkleProof::verify` wrongly accepts; same defect seen through the composite proofs).
fn has_index_ge_total(raw: &RawRowProof) -> bool {
    raw.proofs.iter().any(|p| p.index >= p.total)
}

fn span_is_65536(raw: &RawRowProof) -> bool {
    raw.start_row <= raw.end_row && raw.end_row as u64 - raw.start_row as u64 + 1 == 65536
}

/// Returns whether lumina accepted.
fn judge_row(ctx: &Ctx, env: &DahEnv, raw: &RawRowProof, root: Hash, family: &str, honest: bool) -> bool {
    let legit = legit_row(env, raw, &root);
    let proof = match guard(|| RowProof::try_from(raw.clone())) {
        Err(p) => {
            ctx.violation(&format!("C13/row_decode/panic/{}", panic_site(&p)), &p, row_detail(env, raw, family));
            return false;
        }
        Ok(Err(e)) => {
            ctx.count(&format!("row/decode_rejected/{family}"));
            if honest {
                ctx.violation("C13/row_decode/rejects-honest", &format!("{e}"), row_detail(env, raw, family));
            }
            return false;
        }
        Ok(Ok(p)) => p,
    };
    ctx.eval();
    match guard(|| proof.verify(root)) {
        Err(p) => {
            let sig = if span_is_65536(raw) {
                "C13/row_verify/panic/span-0..=65535-overflows-u16".to_string()
            } else {
                format!("C13/row_verify/panic/{}", panic_site(&p))
            };
            ctx.violation(&sig, &format!("RowProof::verify panicked instead of returning an error: {p}"), row_detail(env, raw, family));
            false
        }
        Ok(Ok(())) => {
            match legit {
                Some(l) => {
                    ctx.count("row/accepted_legitimate");
                    if honest {
                        ctx.count("row/accepted_honest");
                    }
                    let in_place = l
                        .positions
                        .iter()
                        .enumerate()
                        .all(|(k, p)| *p == raw.start_row as usize + k);
                    if !in_place {
                        // not demanded by the property text (see report): row numbers are not bound
                        ctx.count("obs/row_proof_accepted_for_other_rows_than_claimed");
                        if l.positions.iter().any(|p| *p >= env.w) {
                            ctx.count("obs/row_proof_accepted_for_column_root");
                        }
                    }
                }
                None => {
                    let sig = if span_is_65536(raw) {
                        "C13/row_verify/accepts/span-0..=65535-overflows-u16".to_string()
                    } else if !matches!(root, Hash::Sha256(_)) {
                        "C13/row_verify/accepts-illegitimate/empty-root".to_string()
                    } else if has_index_ge_total(raw) {
                        "C13/merkle_verify/accepts-index>=total".to_string() // same defect, seen through RowProof
                    } else {
                        format!("C13/row_verify/accepts-illegitimate/{}", group("row", family))
                    };
                    ctx.violation(
                        &sig,
                        &format!(
                            "RowProof::verify accepted: rows {}..={} with {} roots / {} proofs ({family})",
                            raw.start_row, raw.end_row, raw.row_roots.len(), raw.proofs.len()
                        ),
                        row_detail(env, raw, family),
                    );
                }
            }
            true
        }
        Ok(Err(e)) => {
            if honest {
                ctx.violation("C13/row_verify/rejects-honest", &format!("{e}"), row_detail(env, raw, family));
            } else if legit.is_some() {
                ctx.count(&format!("row/rejected_although_legitimate/{family}"));
            } else {
                ctx.count(&format!("row/rejected/{family}"));
                ctx.count("row/rejected_illegitimate");
            }
            false
        }
    }
}

fn row_mutants(rng: &mut ChaCha8Rng, env: &DahEnv, h: &RawRowProof) -> Vec<(&'static str, RawRowProof)> {
    let mut out: Vec<(&'static str, RawRowProof)> = Vec::new();
    let len = h.row_roots.len();
    let mut push = |family: &'static str, f: &mut dyn FnMut(&mut RawRowProof) -> bool| {
        let mut c = h.clone();
        if f(&mut c) {
            out.push((family, c));
        }
    };
    push("root-digest-bitflip", &mut |c| {
        let k = rng.gen_range(0..len);
        flip(rng, &mut c.row_roots[k][58..]);
        true
    });
    push("root-namespace-bitflip", &mut |c| {
        let k = rng.gen_range(0..len);
        flip(rng, &mut c.row_roots[k][..58]);
        true
    });
    push("root=other-row's-root", &mut |c| {
        let k = rng.gen_range(0..len);
        let o = rng.gen_range(0..env.tree.n());
        if env.tree.leaves[o] == c.row_roots[k] {
            return false;
        }
        c.row_roots[k] = env.tree.leaves[o].clone();
        true
    });
    if len > 1 {
        push("roots-swapped(proofs-kept)", &mut |c| {
            let a = rng.gen_range(0..len - 1);
            if c.row_roots[a] == c.row_roots[a + 1] {
                return false;
            }
            c.row_roots.swap(a, a + 1);
            true
        });
        push("roots-and-proofs-swapped", &mut |c| {
            let a = rng.gen_range(0..len - 1);
            c.row_roots.swap(a, a + 1);
            c.proofs.swap(a, a + 1);
            true
        });
    }
    push("aunt-bitflip", &mut |c| {
        let k = rng.gen_range(0..len);
        let n = c.proofs[k].aunts.len();
        if n == 0 {
            return false;
        }
        let a = rng.gen_range(0..n);
        flip(rng, &mut c.proofs[k].aunts[a]);
        true
    });
    push("aunt-dropped", &mut |c| {
        let k = rng.gen_range(0..len);
        c.proofs[k].aunts.pop().is_some()
    });
    push("aunt-extra", &mut |c| {
        let k = rng.gen_range(0..len);
        c.proofs[k].aunts.push(rand_bytes(rng, 32));
        true
    });
    push("aunt-wrong-size", &mut |c| {
        let k = rng.gen_range(0..len);
        match c.proofs[k].aunts.last_mut() {
            Some(a) => {
                a.pop();
                true
            }
            None => false,
        }
    });
    push("leaf_hash-field", &mut |c| {
        let k = rng.gen_range(0..len);
        flip(rng, &mut c.proofs[k].leaf_hash);
        true
    });
    push("proof-index", &mut |c| {
        let k = rng.gen_range(0..len);
        let p = &mut c.proofs[k];
        p.index = match rng.gen_range(0..5) {
            0 => p.index + 1,
            1 => p.index - 1,
            2 => p.total,
            3 => p.total + rng.gen_range(0..1000),
            _ => i64::MAX,
        };
        true
    });
    push("proof-total", &mut |c| {
        let k = rng.gen_range(0..len);
        let p = &mut c.proofs[k];
        p.total = match rng.gen_range(0..5) {
            0 => p.total + 1,
            1 => p.total - 1,
            2 => p.total * 2,
            3 => p.index,
            _ => i64::MAX,
        };
        true
    });
    push("root-count!=span:root-and-proof-dropped", &mut |c| {
        c.row_roots.pop();
        c.proofs.pop();
        true
    });
    push("root-count!=span:root-and-proof-added", &mut |c| {
        let r = c.row_roots[len - 1].clone();
        let p = c.proofs[len - 1].clone();
        c.row_roots.push(r);
        c.proofs.push(p);
        true
    });
    push("root-dropped(proofs-kept)", &mut |c| {
        c.row_roots.pop();
        true
    });
    push("proof-dropped(roots-kept)", &mut |c| {
        c.proofs.pop();
        true
    });
    push("root-count!=span:end_row+1", &mut |c| {
        c.end_row += 1;
        true
    });
    push("root-count!=span:start_row+1", &mut |c| {
        c.start_row += 1;
        true
    });
    push("root-count!=span:end_row-1", &mut |c| {
        if c.end_row == 0 {
            return false;
        }
        c.end_row -= 1;
        true
    });
    push("root-count!=span:end_row=65535", &mut |c| {
        c.end_row = 65535;
        c.end_row as u64 - c.start_row as u64 + 1 != len as u64
    });
    push("start_row>end_row", &mut |c| {
        std::mem::swap(&mut c.start_row, &mut c.end_row);
        c.start_row += 1;
        true
    });
    push("row-number>u16", &mut |c| {
        c.start_row += 65536;
        c.end_row += 65536;
        true
    });
    // span 0..=65535: 65536 rows claimed
    for keep in [0usize, 1, len] {
        push("span-0..=65535", &mut |c| {
            c.start_row = 0;
            c.end_row = 65535;
            c.row_roots.truncate(keep);
            c.proofs.truncate(keep);
            true
        });
    }
    // same roots, other row numbers (not demanded by the text: observation)
    push("relabelled-rows", &mut |c| {
        let d = rng.gen_range(1..5);
        c.start_row += d;
        c.end_row += d;
        true
    });
    // column roots offered as rows with their genuine merkle proofs (observation)
    push("column-roots-as-rows", &mut |c| {
        for k in 0..len {
            let pos = env.w + (h.start_row as usize + k) % env.w;
            c.row_roots[k] = env.tree.leaves[pos].clone();
            c.proofs[k] = RawMerkleProof {
                total: env.tree.n() as i64,
                index: pos as i64,
                leaf_hash: sha::leaf_hash(&env.tree.leaves[pos]).to_vec(),
                aunts: env.tree.path(pos).iter().map(|a| a.to_vec()).collect(),
            };
        }
        true
    });
    out
}

fn row_part(ctx: &Ctx, env: &DahEnv, other_root: &H, rng: &mut ChaCha8Rng, max_ranges: usize, label: &str) {
    // the DAH hash lumina computes is the reference merkle root over rows ++ columns
    match guard(|| env.dah.hash()) {
        Ok(Hash::Sha256(h)) if h == env.tree.root => ctx.count("dah_hash_equals_reference"),
        Ok(h) => ctx.violation(
            "C13/dah_hash/differs-from-rfc6962-root",
            &format!("dah.hash() = {h:?}, reference = {}", vcore::hex_full(&env.tree.root)),
            json!({"rows": env.w}),
        ),
        Err(p) => ctx.violation(&format!("C13/dah_hash/panic/{}", panic_site(&p)), &p, json!({"rows": env.w})),
    }
    let w = env.w;
    let mut ranges: Vec<(usize, usize)> = Vec::new();
    for s in 0..w {
        for e in s..w {
            ranges.push((s, e));
        }
    }
    if ranges.len() > max_ranges {
        ranges.shuffle(rng);
        ranges.truncate(max_ranges.saturating_sub(4));
        ranges.extend([(0, 0), (0, w - 1), (w - 1, w - 1), (w / 2, w - 1)]);
    }
    for (s, e) in ranges {
        let honest = match guard(|| env.dah.row_proof(s as u16..=e as u16)) {
            Ok(Ok(p)) => p,
            Ok(Err(err)) => {
                ctx.violation("C13/row_proof/err", &format!("row_proof({s}..={e}) of a {w}-row DAH failed: {err}"), json!({"rows": w}));
                continue;
            }
            Err(p) => {
                ctx.violation(&format!("C13/row_proof/panic/{}", panic_site(&p)), &p, json!({"rows": w, "start": s, "end": e}));
                continue;
            }
        };
        let raw = RawRowProof::from(honest);
        judge_row(ctx, env, &raw, env.root(), "honest", true);
        let muts = row_mutants(rng, env, &raw);
        for (fam, m) in &muts {
            judge_row(ctx, env, m, env.root(), fam, false);
        }
        // against other roots
        judge_row(ctx, env, &raw, Hash::Sha256(*other_root), "root-of-other-dah", false);
        let mut r = env.tree.root;
        flip(rng, &mut r);
        judge_row(ctx, env, &raw, Hash::Sha256(r), "root-bitflip", false);
        judge_row(ctx, env, &raw, Hash::None, "root=Hash::None", false);
        ctx.nontrivial(&("row", label, w, s, e));
        ctx.sample(|| json!({"part": "row", "dah_rows": w, "rows": [s, e], "mutants": muts.len() + 3, "dah": label}));
    }
}

// ---------------------------------------------------------------------------------------------
// Part C: ShareProof
// ---------------------------------------------------------------------------------------------

struct SquareEnv {
    eds: ExtendedDataSquare,
    env: DahEnv,
    /// ODS width
    k: usize,
}

fn honest_share_proof(sq: &SquareEnv, a: usize, b: usize, ns: &Namespace) -> RawShareProof {
    let k = sq.k;
    let (r0, r1) = (a / k, (b - 1) / k);
    let mut data = Vec::new();
    let mut share_proofs = Vec::new();
    for r in r0..=r1 {
        let c0 = if r == r0 { a % k } else { 0 };
        let c1 = if r == r1 { (b - 1) % k + 1 } else { k };
        let mut nmt = sq.eds.row_nmt(r as u16).expect("row nmt");
        let proof = nmt.build_range_proof(c0..c1);
        let np = NamespaceProof::from(NmtNsProof::PresenceProof {
            proof,
            ignore_max_ns: true,
        });
        share_proofs.push(RawNmtProof::from(np));
        for c in c0..c1 {
            data.push(share_bytes(&sq.eds, r, c).to_vec());
        }
    }
    let row_proof = sq.env.dah.row_proof(r0 as u16..=r1 as u16).expect("row proof");
    RawShareProof {
        data,
        share_proofs,
        namespace_id: ns.id().to_vec(),
        row_proof: Some(RawRowProof::from(row_proof)),
        namespace_version: ns.version() as u32,
    }
}

fn range_u32(p: &RawNmtProof) -> (u32, u32) {
    // the conversion lumina applies (i32 -> i64 -> u32)
    ((p.start as i64) as u32, (p.end as i64) as u32)
}

fn range_sum_overflows(raw: &RawShareProof) -> bool {
    let mut sum = 0u64;
    for p in &raw.share_proofs {
        let (s, e) = range_u32(p);
        if e > s {
            sum += (e - s) as u64;
        }
    }
    sum > u32::MAX as u64
}

struct ShareLegit {
    in_place: bool,
}

/// Ground truth for a raw share proof: every proven share is a real share of the row whose root
/// is (legitimately) proven, contiguous, in order, committed under the claimed namespace.
fn legit_share(sq: &SquareEnv, raw: &RawShareProof, root: &Hash) -> Option<ShareLegit> {
    let rp = raw.row_proof.as_ref()?;
    let rows = legit_row(&sq.env, rp, root)?;
    if raw.share_proofs.len() != rp.row_roots.len() {
        return None;
    }
    let ver: u8 = raw.namespace_version.try_into().ok()?;
    let ns = Namespace::new(ver, &raw.namespace_id).ok()?;
    let nsb: [u8; 29] = ns.as_bytes().try_into().unwrap();
    let mut need = 0u64;
    for p in &raw.share_proofs {
        if !p.leaf_hash.is_empty() {
            return None; // absence proof
        }
        let (s, e) = range_u32(p);
        if s >= e {
            return None;
        }
        need += (e - s) as u64;
    }
    if need != raw.data.len() as u64 || raw.data.iter().any(|d| d.len() != 512) {
        return None;
    }
    let w = sq.env.w;
    let mut at = 0usize;
    let mut in_place = true;
    for (p, pos) in raw.share_proofs.iter().zip(&rows.positions) {
        let (s, e) = range_u32(p);
        let len = (e - s) as usize;
        let chunk = &raw.data[at..at + len];
        at += len;
        // the axis the proven root belongs to
        let axis: Vec<(usize, usize)> = if *pos < w {
            (0..w).map(|c| (*pos, c)).collect()
        } else {
            (0..w).map(|r| (r, *pos - w)).collect()
        };
        if len > w {
            return None;
        }
        let matches_at = |off: usize| {
            (0..len).all(|i| {
                let (r, c) = axis[off + i];
                share_bytes(&sq.eds, r, c)[..] == chunk[i][..] && committed_namespace(&sq.eds, r, c) == nsb
            })
        };
        let found = (0..=w - len).find(|off| matches_at(*off))?;
        if found != s as usize && !(s as usize + len <= w && matches_at(s as usize)) {
            in_place = false;
        }
    }
    Some(ShareLegit { in_place })
}

fn share_detail(sq: &SquareEnv, raw: &RawShareProof, family: &str) -> Value {
    json!({
        "mutation": family,
        "ods_width": sq.k,
        "shares": raw.data.len(),
        "namespace": vcore::hex_full(&raw.namespace_id),
        "namespace_version": raw.namespace_version,
        "nmt_proofs": raw.share_proofs.iter().map(|p| json!({"start": p.start, "end": p.end, "nodes": p.nodes.len(), "absence": !p.leaf_hash.is_empty()})).collect::<Vec<_>>(),
        "row_proof": raw.row_proof.as_ref().map(|r| json!({"start_row": r.start_row, "end_row": r.end_row, "roots": r.row_roots.len(), "proofs": r.proofs.len()})),
    })
}

/// Families that alter a node of an otherwise honest proof: "fail if any inner node is altered".
/// (`legit_share` judges content only, so these are demanded explicitly.)
const MUST_REJECT: [&str; 4] = [
    "nmt-node-digest-bitflip",
    "nmt-node-namespace-bitflip",
    "nmt-node-dropped",
    "nmt-nodes-swapped",
];

fn judge_share(ctx: &Ctx, sq: &SquareEnv, raw: &RawShareProof, root: Hash, family: &str, honest: bool) {
    let mut legit = legit_share(sq, raw, &root);
    if MUST_REJECT.contains(&family) {
        legit = None;
    }
    let proof = match guard(|| ShareProof::try_from(raw.clone())) {
        Err(p) => {
            ctx.violation(&format!("C13/share_decode/panic/{}", panic_site(&p)), &p, share_detail(sq, raw, family));
            return;
        }
        Ok(Err(e)) => {
            ctx.count(&format!("share/decode_rejected/{family}"));
            if honest {
                ctx.violation("C13/share_decode/rejects-honest", &format!("{e}"), share_detail(sq, raw, family));
            }
            return;
        }
        Ok(Ok(p)) => p,
    };
    ctx.eval();
    match guard(|| proof.verify(root)) {
        Err(p) => {
            let rp_span = raw.row_proof.as_ref().map(span_is_65536).unwrap_or(false);
            let sig = if range_sum_overflows(raw) {
                "C13/share_verify/panic/range-sum-overflows-u32".to_string()
            } else if p.contains("left max namespace must be <= right min namespace") {
                // unconditional panic!() in nmt-rs' hash_nodes, reached through verify_range
                "C13/share_verify/panic/nmt-rs-hash_nodes-namespace-order".to_string()
            } else if rp_span {
                "C13/row_verify/panic/span-0..=65535-overflows-u16".to_string() // same defect, seen through ShareProof
            } else {
                format!("C13/share_verify/panic/{}", panic_site(&p))
            };
            ctx.violation(&sig, &format!("ShareProof::verify panicked instead of returning an error: {p}"), share_detail(sq, raw, family));
        }
        Ok(Ok(())) => match legit {
            Some(l) => {
                ctx.count("share/accepted_legitimate");
                if honest {
                    ctx.count("share/accepted_honest");
                }
                if !l.in_place {
                    ctx.count("obs/share_proof_accepted_at_other_offset_than_claimed");
                }
            }
            None => {
                let sig = if range_sum_overflows(raw) {
                    "C13/share_verify/accepts/range-sum-overflows-u32".to_string()
                } else if raw.row_proof.as_ref().map(has_index_ge_total).unwrap_or(false) {
                    "C13/merkle_verify/accepts-index>=total".to_string() // same defect, seen through ShareProof
                } else if raw.row_proof.as_ref().map(span_is_65536).unwrap_or(false) {
                    "C13/row_verify/accepts/span-0..=65535-overflows-u16".to_string() // same defect, seen through ShareProof
                } else {
                    format!("C13/share_verify/accepts-illegitimate/{}", group("share", family))
                };
                ctx.violation(
                    &sig,
                    "ShareProof::verify accepted shares that are not a run of real shares of the proven rows in the claimed namespace (or a malformed proof)",
                    share_detail(sq, raw, family),
                );
            }
        },
        Ok(Err(e)) => {
            if honest {
                ctx.violation("C13/share_verify/rejects-honest", &format!("{e}"), share_detail(sq, raw, family));
            } else if legit.is_some() {
                // shares are genuine (content ground truth) but something else in the proof was changed
                ctx.count(&format!("share/rejected_genuine_shares/{family}"));
            } else {
                ctx.count(&format!("share/rejected/{family}"));
                ctx.count("share/rejected_illegitimate");
            }
        }
    }
}

fn share_mutants(rng: &mut ChaCha8Rng, sq: &SquareEnv, h: &RawShareProof, other_ns: &Namespace) -> Vec<(&'static str, RawShareProof)> {
    let mut out: Vec<(&'static str, RawShareProof)> = Vec::new();
    let n = h.data.len();
    let np = h.share_proofs.len();
    let mut push = |family: &'static str, f: &mut dyn FnMut(&mut RawShareProof) -> bool| {
        let mut c = h.clone();
        if f(&mut c) {
            out.push((family, c));
        }
    };
    // proven share altered
    for (fam, lo, hi) in [
        ("share-namespace-byte", 0usize, 29usize),
        ("share-info-byte", 29, 30),
        ("share-payload-byte", 30, 512),
        ("share-last-byte", 511, 512),
    ] {
        push(fam, &mut |c| {
            let k = rng.gen_range(0..n);
            let i = rng.gen_range(lo..hi);
            c.data[k][i] ^= 1 << rng.gen_range(0..8);
            true
        });
    }
    if n > 1 {
        push("shares-swapped", &mut |c| {
            let a = rng.gen_range(0..n - 1);
            if c.data[a] == c.data[a + 1] {
                return false;
            }
            c.data.swap(a, a + 1);
            true
        });
    }
    push("share-dropped", &mut |c| {
        c.data.pop();
        true
    });
    push("share-duplicated", &mut |c| {
        let d = c.data[n - 1].clone();
        c.data.push(d);
        true
    });
    push("share-wrong-size", &mut |c| {
        c.data[n - 1].pop();
        true
    });
    push("share=other-share-of-square", &mut |c| {
        let k = rng.gen_range(0..n);
        let (r, col) = (rng.gen_range(0..2 * sq.k), rng.gen_range(0..2 * sq.k));
        let s = share_bytes(&sq.eds, r, col).to_vec();
        if s == c.data[k] {
            return false;
        }
        c.data[k] = s;
        true
    });
    // namespace
    push("namespace=other", &mut |c| {
        if other_ns.id() == &c.namespace_id[..] {
            return false;
        }
        c.namespace_id = other_ns.id().to_vec();
        c.namespace_version = other_ns.version() as u32;
        true
    });
    push("namespace-bitflip", &mut |c| {
        let i = rng.gen_range(18..28);
        c.namespace_id[i] ^= 1 << rng.gen_range(0..8);
        true
    });
    push("namespace-version>u8", &mut |c| {
        c.namespace_version += 256;
        true
    });
    // inner nodes of the row trees
    push("nmt-node-digest-bitflip", &mut |c| {
        let k = rng.gen_range(0..np);
        let m = c.share_proofs[k].nodes.len();
        if m == 0 {
            return false;
        }
        let a = rng.gen_range(0..m);
        flip(rng, &mut c.share_proofs[k].nodes[a][58..]);
        true
    });
    push("nmt-node-namespace-bitflip", &mut |c| {
        let k = rng.gen_range(0..np);
        let m = c.share_proofs[k].nodes.len();
        if m == 0 {
            return false;
        }
        let a = rng.gen_range(0..m);
        flip(rng, &mut c.share_proofs[k].nodes[a][..58]);
        true
    });
    push("nmt-node-dropped", &mut |c| {
        let k = rng.gen_range(0..np);
        c.share_proofs[k].nodes.pop().is_some()
    });
    push("nmt-node-extra", &mut |c| {
        let k = rng.gen_range(0..np);
        let node = random_nshash(rng).to_vec();
        c.share_proofs[k].nodes.push(node);
        true
    });
    push("nmt-nodes-swapped", &mut |c| {
        let k = rng.gen_range(0..np);
        let m = c.share_proofs[k].nodes.len();
        if m < 2 || c.share_proofs[k].nodes[0] == c.share_proofs[k].nodes[1] {
            return false;
        }
        c.share_proofs[k].nodes.swap(0, 1);
        true
    });
    // ranges
    push("range-shifted", &mut |c| {
        let k = rng.gen_range(0..np);
        let d = if rng.gen_bool(0.5) { 1 } else { sq.k as i32 };
        c.share_proofs[k].start += d;
        c.share_proofs[k].end += d;
        true
    });
    push("range-shifted-left", &mut |c| {
        let k = rng.gen_range(0..np);
        if c.share_proofs[k].start == 0 {
            return false;
        }
        c.share_proofs[k].start -= 1;
        c.share_proofs[k].end -= 1;
        true
    });
    push("range-widened", &mut |c| {
        let k = rng.gen_range(0..np);
        c.share_proofs[k].end += 1;
        true
    });
    push("range-widened+share-added", &mut |c| {
        c.share_proofs[np - 1].end += 1;
        let d = c.data[n - 1].clone();
        c.data.push(d);
        true
    });
    push("range-narrowed", &mut |c| {
        let k = rng.gen_range(0..np);
        c.share_proofs[k].start += 1;
        true
    });
    push("range-empty", &mut |c| {
        let k = rng.gen_range(0..np);
        c.share_proofs[k].end = c.share_proofs[k].start;
        true
    });
    push("range-negative", &mut |c| {
        let k = rng.gen_range(0..np);
        c.share_proofs[k].start = -1;
        true
    });
    push("absence-marker", &mut |c| {
        let k = rng.gen_range(0..np);
        c.share_proofs[k].leaf_hash = random_nshash(rng).to_vec();
        true
    });
    // counts
    push("nmt-proof-dropped", &mut |c| {
        c.share_proofs.pop();
        true
    });
    push("nmt-proof-added", &mut |c| {
        let p = c.share_proofs[np - 1].clone();
        c.share_proofs.push(p);
        true
    });
    push("row-proof-missing", &mut |c| {
        c.row_proof = None;
        true
    });
    // row proof part
    push("row-root-digest-bitflip", &mut |c| {
        let rp = c.row_proof.as_mut().unwrap();
        let k = rng.gen_range(0..rp.row_roots.len());
        flip(rng, &mut rp.row_roots[k][58..]);
        true
    });
    push("row-aunt-bitflip", &mut |c| {
        let rp = c.row_proof.as_mut().unwrap();
        let k = rng.gen_range(0..rp.proofs.len());
        let m = rp.proofs[k].aunts.len();
        let a = rng.gen_range(0..m);
        flip(rng, &mut rp.proofs[k].aunts[a]);
        true
    });
    push("row-proof-of-other-rows", &mut |c| {
        let rp = c.row_proof.as_ref().unwrap();
        let len = rp.row_roots.len();
        let w = sq.env.w;
        if len >= w {
            return false;
        }
        let s = (rp.start_row as usize + 1 + rng.gen_range(0..w - len)) % (w - len + 1);
        if s == rp.start_row as usize {
            return false;
        }
        let other = sq.env.dah.row_proof(s as u16..=(s + len - 1) as u16).unwrap();
        c.row_proof = Some(RawRowProof::from(other));
        true
    });
    push("row-proof-index>=total", &mut |c| {
        let rp = c.row_proof.as_mut().unwrap();
        let k = rng.gen_range(0..rp.proofs.len());
        rp.proofs[k].index = rp.proofs[k].total + rng.gen_range(0..3);
        true
    });
    push("row-span-0..=65535", &mut |c| {
        let rp = c.row_proof.as_mut().unwrap();
        rp.start_row = 0;
        rp.end_row = 65535;
        rp.row_roots.clear();
        rp.proofs.clear();
        c.share_proofs.clear();
        c.data.clear();
        true
    });
    push("row-span!=roots", &mut |c| {
        c.row_proof.as_mut().unwrap().end_row += 1;
        true
    });
    push("row-relabelled", &mut |c| {
        let rp = c.row_proof.as_mut().unwrap();
        rp.start_row += 1;
        rp.end_row += 1;
        true
    });
    // u32 sum of range lengths wraps around to the number of shares supplied
    push("range-sum-overflows-u32", &mut |c| {
        if np < 2 {
            // use the same row twice: two proofs, two roots
            let rp = c.row_proof.as_mut().unwrap();
            let (r, p) = (rp.row_roots[0].clone(), rp.proofs[0].clone());
            rp.row_roots.push(r);
            rp.proofs.push(p);
            rp.end_row = rp.start_row + 1;
            let sp = c.share_proofs[0].clone();
            c.share_proofs.push(sp);
        }
        let m = c.share_proofs.len();
        // first proof: 2^31 leaves, second: 2^31 + (n - others) leaves; others keep their size
        let others: i64 = c.share_proofs[2..].iter().map(|p| (p.end - p.start) as i64).sum();
        let rest = n as i64 - others;
        if rest < 0 || m < 2 {
            return false;
        }
        c.share_proofs[0].start = 0;
        c.share_proofs[0].end = i32::MIN; // 0x8000_0000 after the casts
        c.share_proofs[1].start = 0;
        c.share_proofs[1].end = ((0x8000_0000u32 as i64 + rest) as u32) as i32;
        true
    });
    out
}

fn share_part(ctx: &Ctx, sq: &SquareEnv, other_root: &H, rng: &mut ChaCha8Rng, label: u64) {
    let k = sq.k;
    // namespace runs of the ODS in row-major order
    let ns_at = |i: usize| committed_namespace(&sq.eds, i / k, i % k);
    let mut runs: Vec<(usize, usize)> = Vec::new();
    let mut a = 0usize;
    for i in 1..=k * k {
        if i == k * k || ns_at(i) != ns_at(a) {
            runs.push((a, i));
            a = i;
        }
    }
    let namespaces: Vec<Namespace> = runs.iter().map(|(a, _)| Namespace::from_raw(&ns_at(*a)).unwrap()).collect();
    for (ri, (a, b)) in runs.iter().enumerate() {
        let ns = namespaces[ri];
        let other_ns = namespaces[(ri + 1) % namespaces.len()];
        let mut ranges = vec![(*a, *b)];
        for _ in 0..3 {
            let x = rng.gen_range(*a..*b);
            let y = rng.gen_range(x + 1..=*b);
            ranges.push((x, y));
        }
        ranges.sort();
        ranges.dedup();
        for (x, y) in ranges {
            let raw = honest_share_proof(sq, x, y, &ns);
            let multi_row = raw.share_proofs.len() > 1;
            judge_share(ctx, sq, &raw, sq.env.root(), "honest", true);
            if multi_row {
                ctx.count("share/honest_multi_row");
            }
            let muts = share_mutants(rng, sq, &raw, &other_ns);
            for (fam, m) in &muts {
                judge_share(ctx, sq, m, sq.env.root(), fam, false);
            }
            judge_share(ctx, sq, &raw, Hash::Sha256(*other_root), "root-of-other-dah", false);
            judge_share(ctx, sq, &raw, Hash::None, "root=Hash::None", false);
            ctx.nontrivial(&("share", label, x, y));
            ctx.sample(|| {
                json!({"part": "share", "ods_width": k, "ods_range": [x, y], "rows": raw.share_proofs.len(),
                       "namespace": vcore::hex_full(ns.as_bytes()), "mutants": muts.len() + 2})
            });
        }
    }
}

// ---------------------------------------------------------------------------------------------

pub fn run(ctx: &Ctx) {
    ctx.rule(
        "(A) leaf lists of every size 1..=300 (random leaf lengths incl. empty, 90-byte, inner-node shaped, duplicates), \
         every index (quick: every index up to 64 leaves, 8 boundary + 6 random indices above), honest proofs built by lumina \
         and by the reference, ~60 mutants each: leaf (other/bit flip/length/inner node as leaf), leaf_hash field, index \
         pool incl. >= total and usize::MAX, total pool incl. 0, +-1, powers of two, <= index, > 2^63, aunts (flip, drop \
         first/middle/last, extra, swap, reverse, empty), root (flip/other tree/empty), relocated proofs; one in four through \
         the protobuf type. (B) DAHs of real squares (ODS 1..16, thorough 32) and of random roots with 2..64 (also non power \
         of two) rows: every row range (sampled above a cap), ~30 mutants each through RawRowProof: altered root digest / \
         namespaces / other root, altered / dropped / extra aunts, root and proof counts vs span, spans incl. 0..=65535 with \
         0 / 1 / all roots, other DAH root, Hash::None. (C) share proofs for every namespace run (whole and 3 random sub-ranges, \
         multi-row) of real squares, ~40 mutants each through RawShareProof: altered shares, namespace, NMT nodes, ranges \
         (shift/widen/narrow/empty/negative/u32-sum wrap), absence marker, counts, row-proof part. Non-trivial = honest proof \
         whose mutants were judged against the ground-truth tree/square; distinct by (part, size, position).",
    );
    ctx.assume("vcore::sha RFC-6962 reference and the harness's ground-truth tree; SHA-256 collision resistance (an accepted non-legitimate candidate is a bug, not a collision)");
    ctx.assume("honest NMT range proofs for part C are built with nmt-rs (Nmt::build_range_proof) on lumina's row trees");

    let shards = ctx.cores();

    // (A)
    let mut sizes: Vec<(usize, u64)> = (1..=300).map(|n| (n, 0)).collect();
    if !ctx.quick() {
        sizes.extend((1..=64).map(|n| (n, 1)));
        sizes.extend([511, 512, 513, 1000, 1023, 1024, 1025, 4097].map(|n| (n, 0)));
    }
    sizes.sort_by(|a, b| b.0.cmp(&a.0));
    ctx.par(shards, |shard| {
        for (i, (n, case)) in sizes.iter().enumerate() {
            if i % shards == shard {
                merkle_case(ctx, *n, *case);
            }
        }
    });

    // (B) + (C)
    let mut jobs: Vec<(&str, usize, u64)> = Vec::new();
    let sq_reps = ctx.scale(8u64, 60u64);
    for rep in 0..sq_reps {
        for k in [1usize, 2, 4, 8, 16] {
            jobs.push(("square", k, rep));
        }
    }
    if !ctx.quick() {
        for rep in 0..6 {
            jobs.push(("square", 32, rep));
        }
    }
    let rand_widths: &[usize] = &[2, 3, 4, 5, 6, 7, 8, 10, 12, 16, 20, 31, 32, 33, 64];
    for rep in 0..ctx.scale(1u64, 8u64) {
        for w in rand_widths {
            jobs.push(("random-dah", *w, rep));
        }
    }
    jobs.sort_by(|a, b| b.1.cmp(&a.1));
    let max_ranges = ctx.scale(60usize, 300usize);
    ctx.par(shards, |shard| {
        for (i, (kind, size, rep)) in jobs.iter().enumerate() {
            if i % shards != shard {
                continue;
            }
            let case = (*size as u64) << 32 | *rep << 1 | (*kind == "square") as u64;
            let mut rng = ctx.rng(2, case);
            let other = Tree::new(random_leaves(&mut rng, 8)).root;
            if *kind == "square" {
                let app: AppVersion = random_app_version(&mut rng);
                let (eds, _ods, _info) = gen_eds(&mut rng, *size, app);
                let dah = DataAvailabilityHeader::from_eds(&eds);
                let sq = SquareEnv {
                    eds,
                    env: DahEnv::new(dah),
                    k: *size,
                };
                row_part(ctx, &sq.env, &other, &mut rng, max_ranges, "real-square");
                share_part(ctx, &sq, &other, &mut rng, case);
                ctx.count("squares");
            } else {
                let env = DahEnv::new(random_dah(&mut rng, *size));
                row_part(ctx, &env, &other, &mut rng, max_ranges, "random-roots");
                ctx.count("random_dahs");
            }
        }
    });

    ctx.extra("profile_overflow_checks", json!(cfg!(debug_assertions)));
    ctx.floor("merkle/accepted_honest", ctx.scale(8_000, 90_000));
    ctx.floor("merkle/rejected_illegitimate", ctx.scale(100_000, 1_000_000));
    ctx.floor("merkle/via_wire", 10_000);
    ctx.floor("row/accepted_honest", ctx.scale(1_000, 10_000));
    ctx.floor("row/rejected_illegitimate", ctx.scale(20_000, 200_000));
    ctx.floor("share/accepted_honest", ctx.scale(300, 3_000));
    ctx.floor("share/honest_multi_row", ctx.scale(50, 500));
    ctx.floor("share/rejected_illegitimate", ctx.scale(8_000, 80_000));
    for f in ["root-digest-bitflip", "root-namespace-bitflip", "aunt-bitflip", "root-count!=span:root-and-proof-dropped",
              "root-count!=span:root-and-proof-added", "root-count!=span:end_row+1", "roots-swapped(proofs-kept)"] {
        ctx.floor(&format!("row/rejected/{f}"), 200);
    }
    for f in ["share-payload-byte", "share-info-byte", "nmt-node-digest-bitflip", "nmt-node-dropped", "row-root-digest-bitflip",
              "row-aunt-bitflip", "shares-swapped"] {
        ctx.floor(&format!("share/rejected/{f}"), 50);
    }
}
