//! C16 (vt half) — decoding network input never panics: decoders of `celestia-types`.
//!
//! Workload: coverage-free mutation fuzzing inside the monitor, deterministic from `ctx.rng`.
//! Seeds are honest encodings of every message built from `vgen` squares / signed headers;
//! inputs are (a) byte-level and framing-aware (wire-tree) mutations, stacked 1..4 deep, and
//! truncation at every byte, (b) structured adversarial protobufs assembled from the public
//! `celestia_proto` raw types (huge sibling lists, extreme indices, empty halves, mismatched
//! counts, out-of-enum values, ...). Every value that decodes is driven through its
//! verify/validate entry point against the honest DAH/header of the fixture.
//!
//! Oracle: `vcore::guard` around each lumina call; a panic is a violation with signature
//! `C16/<decoder>/panic/<file:line>`. An `Err` or an `Ok` are both fine — the property only
//! forbids panics.

#[path = "c16_gen.rs"]
#[macro_use]
mod c16_gen;

use bytes::BytesMut;
use c16_gen::*;
use celestia_proto::celestia::core::v1::da::DataAvailabilityHeader as RawDah;
use celestia_proto::celestia::core::v1::proof::{
    Proof as RawMerkleProof, RowProof as RawRowProof, ShareProof as RawShareProof,
};
use celestia_proto::header::pb::ExtendedHeader as RawExtendedHeader;
use celestia_proto::proof::pb::Proof as RawProof;
use celestia_proto::share::eds::byzantine::pb::BadEncoding as RawBefp;
use celestia_proto::shwap::{
    NamespaceData as RawNsData, Row as RawRow, RowNamespaceData as RawRnd, Sample as RawSample,
    Share as RawShare,
};
use celestia_types::blob::RawBlob;
use celestia_types::consts::appconsts::{AppVersion, SHARE_SIZE};
use celestia_types::eds::EdsId;
use celestia_types::fraud_proof::{BadEncodingFraudProof, FraudProof};
use celestia_types::namespace_data::{NamespaceData, NamespaceDataId};
use celestia_types::nmt::{NS_SIZE, Namespace, NamespaceProof, NamespacedHash, NamespacedHashExt};
use celestia_types::row::{Row, RowId};
use celestia_types::row_namespace_data::{RowNamespaceData, RowNamespaceDataId};
use celestia_types::sample::{Sample, SampleId};
use celestia_types::{
    AxisType, Blob, DataAvailabilityHeader, ExtendedHeader, MerkleProof, RowProof, Share,
    ShareProof, ValidateBasicWithAppVersion,
};
use cid::CidGeneric;
use prost::Message;
use tendermint_proto::Protobuf;
use vcore::{ChaCha8Rng, Ctx, Rng, SliceRandom, json, rand_bytes};


pub struct Env {
    fxs: Vec<Fixture>,
}

fn fx<'a>(e: &'a Env, p: &Params) -> &'a Fixture {
    &e.fxs[p.fx % e.fxs.len()]
}


// ---------------------------------------------------------------------------------------------
// Targets: (env, params, bytes) -> outcome | (stage, panic)
// ---------------------------------------------------------------------------------------------

fn t_header(e: &Env, p: &Params, b: &[u8]) -> Res {
    let f = fx(e, p);
    let framed = RawExtendedHeader::decode(b).is_ok();
    let h = match c16_stage!("ExtendedHeader::decode", ExtendedHeader::decode(b)) {
        Ok(h) => h,
        Err(err) => return Ok((framed, format!("err:{}", label_disp(&err)))),
    };
    let r2 = c16_stage!("ExtendedHeader::decode_and_validate", ExtendedHeader::decode_and_validate(b));
    let v = c16_stage!("ExtendedHeader::verify", f.header.verify(&h));
    let va = c16_stage!("ExtendedHeader::verify_adjacent", f.header.verify_adjacent(&h));
    let _ = c16_stage!("ExtendedHeader::accessors", (h.hash(), h.last_header_hash(), h.height(), h.square_width(), h.to_string()));
    Ok((
        framed,
        format!(
            "ok>validate:{}>adjacent:{}>verify:{}",
            if r2.is_ok() { "ok" } else { "err" },
            va.as_ref().map(|_| "ok".to_string()).unwrap_or_else(|e| label(e)),
            v.as_ref().map(|_| "ok".to_string()).unwrap_or_else(|e| label(e)),
        ),
    ))
}

fn t_sample(e: &Env, p: &Params, b: &[u8]) -> Res {
    let f = fx(e, p);
    let framed = RawSample::decode(b).is_ok();
    let Ok(id) = SampleId::new(p.row, p.col, f.height) else { return Ok((false, "bad-id".into())) };
    let s = match c16_stage!("Sample::decode", Sample::decode(id, b)) {
        Ok(s) => s,
        Err(err) => return Ok((framed, format!("err:{}", label(&err)))),
    };
    let v = c16_stage!("Sample::verify", s.verify(id, &f.dah));
    let _ = c16_stage!("Sample::encode", {
        let mut out = BytesMut::new();
        s.encode(&mut out);
        out.len()
    });
    Ok((framed, format!("ok>verify:{}", v.as_ref().map(|_| "ok".to_string()).unwrap_or_else(|e| label(e)))))
}

fn t_row(e: &Env, p: &Params, b: &[u8]) -> Res {
    let f = fx(e, p);
    let framed = RawRow::decode(b).is_ok();
    let Ok(id) = RowId::new(p.row, f.height) else { return Ok((false, "bad-id".into())) };
    let r = match c16_stage!("Row::decode", Row::decode(id, b)) {
        Ok(r) => r,
        Err(err) => return Ok((framed, format!("err:{}", label(&err)))),
    };
    let v = c16_stage!("Row::verify", r.verify(id, &f.dah));
    let _ = c16_stage!("Row::encode", {
        let mut out = BytesMut::new();
        r.encode(&mut out);
        out.len()
    });
    Ok((framed, format!("ok>verify:{}", v.as_ref().map(|_| "ok".to_string()).unwrap_or_else(|e| label(e)))))
}

fn t_rnd(e: &Env, p: &Params, b: &[u8]) -> Res {
    let f = fx(e, p);
    let framed = RawRnd::decode(b).is_ok();
    let Ok(id) = RowNamespaceDataId::new(p.ns, p.row, f.height) else { return Ok((false, "bad-id".into())) };
    let r = match c16_stage!("RowNamespaceData::decode", RowNamespaceData::decode(id, b)) {
        Ok(r) => r,
        Err(err) => return Ok((framed, format!("err:{}", label(&err)))),
    };
    let v = c16_stage!("RowNamespaceData::verify", r.verify(id, &f.dah));
    // the serde/try_from path used by the RPC client
    if let Ok(raw) = RawRnd::decode(b) {
        let _ = c16_stage!("RowNamespaceData::try_from", RowNamespaceData::try_from(raw).map(|x| x.verify(id, &f.dah)));
    }
    Ok((framed, format!("ok>verify:{}", v.as_ref().map(|_| "ok".to_string()).unwrap_or_else(|e| label(e)))))
}

fn t_nsdata(e: &Env, p: &Params, b: &[u8]) -> Res {
    let f = fx(e, p);
    let Ok(raw) = RawNsData::decode(b) else { return Ok((false, "framing".into())) };
    let Ok(id) = NamespaceDataId::new(p.ns, f.height) else { return Ok((false, "bad-id".into())) };
    let d = match c16_stage!("NamespaceData::from_raw", NamespaceData::from_raw(id, raw.namespace_data)) {
        Ok(d) => d,
        Err(err) => return Ok((true, format!("err:{}", label(&err)))),
    };
    let v = c16_stage!("NamespaceData::verify", d.verify(id, &f.dah));
    Ok((true, format!("ok>verify:{}", v.as_ref().map(|_| "ok".to_string()).unwrap_or_else(|e| label(e)))))
}

fn t_befp(e: &Env, p: &Params, b: &[u8]) -> Res {
    let f = fx(e, p);
    let framed = RawBefp::decode(b).is_ok();
    let proof = match c16_stage!("BadEncodingFraudProof::decode", BadEncodingFraudProof::decode_vec(b)) {
        Ok(x) => x,
        Err(err) => return Ok((framed, format!("err:{}", label(&err)))),
    };
    let header = match (&f.bad, p.aux & 1) {
        (Some(bad), 1) => &bad.header,
        _ => &f.header,
    };
    let v = c16_stage!("BadEncodingFraudProof::validate", proof.validate(header));
    let _ = c16_stage!("BadEncodingFraudProof::accessors", (proof.header_hash(), proof.height(), proof.clone().encode_vec().len()));
    Ok((framed, format!("ok>validate:{}", v.as_ref().map(|_| "ok".to_string()).unwrap_or_else(|e| label(e)))))
}

fn t_share_proof(e: &Env, p: &Params, b: &[u8]) -> Res {
    let f = fx(e, p);
    let framed = RawShareProof::decode(b).is_ok();
    let proof = match c16_stage!("ShareProof::decode", ShareProof::decode_vec(b)) {
        Ok(x) => x,
        Err(err) => return Ok((framed, format!("err:{}", label(&err)))),
    };
    let v = c16_stage!("ShareProof::verify", proof.verify(f.dah.hash()));
    Ok((framed, format!("ok>verify:{}", v.as_ref().map(|_| "ok".to_string()).unwrap_or_else(|e| label(e)))))
}

fn t_row_proof(e: &Env, p: &Params, b: &[u8]) -> Res {
    let f = fx(e, p);
    let framed = RawRowProof::decode(b).is_ok();
    let proof = match c16_stage!("RowProof::decode", RowProof::decode_vec(b)) {
        Ok(x) => x,
        Err(err) => return Ok((framed, format!("err:{}", label(&err)))),
    };
    let v = c16_stage!("RowProof::verify", proof.verify(f.dah.hash()));
    Ok((framed, format!("ok>verify:{}", v.as_ref().map(|_| "ok".to_string()).unwrap_or_else(|e| label(e)))))
}

fn t_ns_proof(e: &Env, p: &Params, b: &[u8]) -> Res {
    let f = fx(e, p);
    let framed = RawProof::decode(b).is_ok();
    let proof = match c16_stage!("NamespaceProof::decode", NamespaceProof::decode_vec(b)) {
        Ok(x) => x,
        Err(err) => return Ok((framed, format!("err:{}", label(&err)))),
    };
    let (r, c) = (p.row as usize % f.w, p.col as usize % f.w);
    let share = f.eds.share(r as u16, c as u16).unwrap();
    let root = if p.aux & 1 == 0 { f.dah.row_root(r as u16).unwrap() } else { f.dah.column_root(c as u16).unwrap() };
    // exactly the two entry points lumina uses (Sample / fraud proof / share proof; namespace data)
    let v1 = c16_stage!("NamespaceProof::verify_range", proof.verify_range(&root, &[share], *share.namespace()));
    let n = (p.aux >> 1) as usize % 3;
    let leaves: Vec<&Share> = std::iter::repeat(share).take(n).collect();
    let v2 = c16_stage!("NamespaceProof::verify_complete_namespace", proof.verify_complete_namespace(&root, &leaves, *p.ns));
    let _ = c16_stage!("NamespaceProof::accessors", (proof.leaf().is_some(), proof.max_ns_ignored(), RawProof::from(proof.clone()).nodes.len()));
    Ok((
        framed,
        format!(
            "ok>range:{}>complete:{}",
            v1.as_ref().map(|_| "ok".to_string()).unwrap_or_else(|e| label(e)),
            v2.as_ref().map(|_| "ok".to_string()).unwrap_or_else(|e| label(e))
        ),
    ))
}

fn t_merkle(e: &Env, p: &Params, b: &[u8]) -> Res {
    let f = fx(e, p);
    let framed = RawMerkleProof::decode(b).is_ok();
    let proof = match c16_stage!("MerkleProof::decode", MerkleProof::decode_vec(b)) {
        Ok(x) => x,
        Err(err) => return Ok((framed, format!("err:{}", label(&err)))),
    };
    let leaf = f.dah.row_root(p.row % f.w as u16).unwrap().to_array();
    let root = match f.dah.hash() {
        celestia_types::hash::Hash::Sha256(h) => h,
        _ => [0; 32],
    };
    let v = c16_stage!("MerkleProof::verify", proof.verify(leaf, root));
    Ok((framed, format!("ok>verify:{}", v.as_ref().map(|_| "ok".to_string()).unwrap_or_else(|e| label(e)))))
}

fn app_of(p: &Params) -> AppVersion {
    vgen::square::ALL_APP_VERSIONS[(p.aux % 7) as usize]
}

fn t_blob(_e: &Env, p: &Params, b: &[u8]) -> Res {
    let Ok(raw) = RawBlob::decode(b) else { return Ok((false, "framing".into())) };
    let app = app_of(p);
    let blob = match c16_stage!("Blob::from_raw", Blob::from_raw(raw, app)) {
        Ok(x) => x,
        Err(err) => return Ok((true, format!("err:{}", label(&err)))),
    };
    let v = c16_stage!("Blob::validate", blob.validate(app));
    let shares = c16_stage!("Blob::to_shares", blob.to_shares());
    let n = c16_stage!("Blob::shares_len", blob.shares_len());
    let rec = match &shares {
        Ok(s) => Some(c16_stage!("Blob::reconstruct", Blob::reconstruct(s.iter(), app))),
        Err(_) => None,
    };
    Ok((
        true,
        format!(
            "ok>validate:{}>shares:{}>reconstruct:{}",
            v.is_ok(),
            shares.as_ref().map(|s| (s.len() == n).to_string()).unwrap_or_else(|e| label(e)),
            rec.map(|r| r.map(|_| "ok".to_string()).unwrap_or_else(|e| label(&e))).unwrap_or_default()
        ),
    ))
}

/// Pathological-allocation guard (see report): `Blob::reconstruct` reserves
/// `sequence_length`-proportional memory before it has seen the shares.
const MAX_SEQ_LEN: u32 = 1 << 26;

fn t_blob_shares(_e: &Env, p: &Params, b: &[u8]) -> Res {
    if b.is_empty() || b.len() % SHARE_SIZE != 0 {
        return Ok((false, "framing".into()));
    }
    let app = app_of(p);
    let mut shares = Vec::new();
    for ch in b.chunks(SHARE_SIZE) {
        match c16_stage!("Share::from_raw", Share::from_raw(ch)) {
            Ok(s) => shares.push(s),
            Err(err) => return Ok((true, format!("share-err:{}", label(&err)))),
        }
    }
    if shares.iter().any(|s| s.sequence_length().is_some_and(|l| l > MAX_SEQ_LEN)) {
        return Ok((false, "skipped:huge-sequence-length".into()));
    }
    let one = c16_stage!("Blob::reconstruct", Blob::reconstruct(shares.iter(), app));
    let all = c16_stage!("Blob::reconstruct_all", Blob::reconstruct_all(shares.iter(), app));
    Ok((
        true,
        format!(
            "one:{}>all:{}",
            one.as_ref().map(|_| "ok".to_string()).unwrap_or_else(|e| label(e)),
            all.as_ref().map(|v| format!("ok{}", v.len().min(3))).unwrap_or_else(|e| label(e))
        ),
    ))
}

fn t_ids(_e: &Env, _p: &Params, b: &[u8]) -> Res {
    let framed = matches!(b.len(), 8 | 10 | 12 | 37 | 39);
    let a = c16_stage!("EdsId::decode", EdsId::decode(b));
    let r = c16_stage!("RowId::decode", RowId::decode(b));
    let s = c16_stage!("SampleId::decode", SampleId::decode(b));
    let rn = c16_stage!("RowNamespaceDataId::decode", RowNamespaceDataId::decode(b));
    let n = c16_stage!("NamespaceDataId::decode", NamespaceDataId::decode(b));
    // round trips of whatever decoded (encode + CID conversion)
    if let Ok(id) = &r {
        let _ = c16_stage!("RowId::to_cid", {
            let cid = CidGeneric::<10>::from(*id);
            RowId::try_from(cid).is_ok()
        });
    }
    if let Ok(id) = &s {
        let _ = c16_stage!("SampleId::to_cid", {
            let cid = CidGeneric::<12>::from(*id);
            SampleId::try_from(cid).is_ok()
        });
    }
    if let Ok(id) = &rn {
        let _ = c16_stage!("RowNamespaceDataId::to_cid", {
            let cid = CidGeneric::<39>::from(*id);
            RowNamespaceDataId::try_from(cid).is_ok()
        });
    }
    let which = [a.is_ok(), r.is_ok(), s.is_ok(), rn.is_ok(), n.is_ok()];
    let e = a.err().map(|e| label(&e)).or(r.err().map(|e| label(&e))).unwrap_or_default();
    Ok((framed, format!("{which:?}:{e}")))
}

fn t_cid(_e: &Env, _p: &Params, b: &[u8]) -> Res {
    let cid = match c16_stage!("Cid::read_bytes", CidGeneric::<64>::read_bytes(b)) {
        Ok(c) => c,
        Err(_) => return Ok((false, "framing".into())),
    };
    let r = c16_stage!("RowId::try_from(cid)", RowId::try_from(cid));
    let s = c16_stage!("SampleId::try_from(cid)", SampleId::try_from(&cid));
    let n = c16_stage!("RowNamespaceDataId::try_from(cid)", RowNamespaceDataId::try_from(cid));
    let lab = |x: Option<String>| x.unwrap_or_else(|| "ok".into());
    Ok((
        true,
        format!(
            "row:{}>sample:{}>rnd:{}",
            lab(r.err().map(|e| label(&e))),
            lab(s.err().map(|e| label(&e))),
            lab(n.err().map(|e| label(&e)))
        ),
    ))
}

fn t_dah(_e: &Env, p: &Params, b: &[u8]) -> Res {
    let framed = RawDah::decode(b).is_ok();
    let dah = match c16_stage!("DataAvailabilityHeader::decode", DataAvailabilityHeader::decode_vec(b)) {
        Ok(x) => x,
        Err(err) => return Ok((framed, format!("err:{}", label(&err)))),
    };
    let v = c16_stage!("DataAvailabilityHeader::validate_basic", dah.validate_basic(app_of(p)));
    let _ = c16_stage!("DataAvailabilityHeader::hash", dah.hash());
    let _ = c16_stage!("DataAvailabilityHeader::lookups", (dah.row_root(p.row), dah.column_root(p.col), dah.row_contains(p.row, p.ns).is_ok(), dah.column_contains(p.col, p.ns).is_ok()));
    if v.is_ok() {
        // documented to be valid only on validated DAHs
        let w = c16_stage!("DataAvailabilityHeader::square_width", dah.square_width());
        let _ = c16_stage!("DataAvailabilityHeader::row_proof", dah.row_proof(0..=(p.row % w.max(1))).map(|rp| rp.verify(dah.hash())));
    }
    Ok((framed, format!("ok>validate:{}", v.as_ref().map(|_| "ok".to_string()).unwrap_or_else(|e| label(e)))))
}

fn t_prims(_e: &Env, _p: &Params, b: &[u8]) -> Res {
    let s = c16_stage!("Share::from_raw", Share::from_raw(b));
    let sp = c16_stage!("Share::parity", Share::parity(b));
    let n = c16_stage!("Namespace::from_raw", Namespace::from_raw(b));
    let nh = c16_stage!("NamespacedHash::from_raw", NamespacedHash::from_raw(b));
    let rs = c16_stage!("Share::try_from(RawShare)", RawShare::decode(b).map(|r| Share::try_from(r).is_ok()));
    if let Ok(s) = &s {
        let _ = c16_stage!("Share::accessors", (s.namespace(), s.info_byte().map(|i| (i.version(), i.is_sequence_start())), s.sequence_length(), s.signer(), s.payload().map(|p| p.len()), s.validate(AppVersion::V2).is_ok()));
    }
    if let Ok(s) = &sp {
        let _ = c16_stage!("Share::accessors", (s.namespace(), s.sequence_length(), s.signer(), s.payload().is_none()));
    }
    if let Ok(h) = &nh {
        let _ = c16_stage!("NamespacedHash::validate_namespace_order", h.validate_namespace_order().is_ok());
    }
    let framed = matches!(b.len(), 29 | 90 | 512) || rs.is_ok();
    Ok((framed, format!("share:{}>ns:{}>hash:{}", s.is_ok(), n.as_ref().map(|_| "ok".to_string()).unwrap_or_else(|e| label(e)), nh.is_ok())))
}

// ---------------------------------------------------------------------------------------------
// Seeds and structured generators per target
// ---------------------------------------------------------------------------------------------

struct Target {
    name: &'static str,
    run: TargetFn<Env>,
    seeds: Vec<(Params, Vec<u8>)>,
    structured: fn(&mut ChaCha8Rng, &Env) -> (Params, Vec<u8>),
    weight: u32,
}

fn cid_bytes(codec: u64, mh: u64, digest: &[u8], declared_len: Option<u64>) -> Vec<u8> {
    let mut out = vec![1u8];
    wr_varint(&mut out, codec);
    wr_varint(&mut out, mh);
    wr_varint(&mut out, declared_len.unwrap_or(digest.len() as u64));
    out.extend_from_slice(digest);
    out
}

fn id_bytes(rng: &mut ChaCha8Rng, f: &Fixture, kind: usize) -> Vec<u8> {
    let h: u64 = *[1u64, 2, f.height, u64::MAX, 0, 1 << 63, i64::MAX as u64].choose(rng).unwrap();
    let mut v = h.to_be_bytes().to_vec();
    let idx: u16 = *[0u16, 1, f.w as u16, u16::MAX].choose(rng).unwrap();
    match kind {
        0 => {}
        1 => v.extend_from_slice(&idx.to_be_bytes()),
        2 => {
            v.extend_from_slice(&idx.to_be_bytes());
            v.extend_from_slice(&rng.r#gen::<u16>().to_be_bytes());
        }
        3 => {
            v.extend_from_slice(&idx.to_be_bytes());
            v.extend_from_slice(f.any_ns(rng).as_bytes());
        }
        _ => v.extend_from_slice(f.any_ns(rng).as_bytes()),
    }
    match rng.gen_range(0..8) {
        0 => {
            v.pop();
        }
        1 => v.push(0),
        2 => {
            // invalid namespace version / prefix
            if v.len() > 12 {
                let i = v.len() - NS_SIZE + *[0usize, 1, 17].choose(rng).unwrap();
                v[i] = rng.r#gen();
            }
        }
        _ => {}
    }
    v
}

fn build_targets(e: &Env, ctx: &Ctx) -> Vec<Target> {
    let mut rng = ctx.rng(1001, 0);
    let mut t: Vec<Target> = Vec::new();

    // ---- ExtendedHeader
    let mut seeds = Vec::new();
    for f in &e.fxs {
        seeds.push((Params::new(f.idx), enc_header(&f.header)));
        seeds.push((Params::new(f.idx), enc_header(&f.next_header)));
        seeds.push((Params::new(f.idx), enc_header(&f.far_header)));
        if let Some(b) = &f.bad {
            seeds.push((Params::new(f.idx), enc_header(&b.header)));
        }
    }
    t.push(Target {
        name: "ExtendedHeader",
        run: t_header,
        seeds,
        structured: |rng, e| {
            let p = Params::random(rng, &e.fxs);
            let b = adv_header(rng, &e.fxs[p.fx]);
            (p, b)
        },
        weight: 2,
    });

    // ---- Sample
    let mut seeds = Vec::new();
    for f in &e.fxs {
        for _ in 0..6 {
            let (r, c) = (rng.gen_range(0..f.w) as u16, rng.gen_range(0..f.w) as u16);
            let axis = if rng.gen_bool(0.5) { AxisType::Row } else { AxisType::Col };
            let s = Sample::new(r, c, axis, &f.eds).unwrap();
            let mut p = Params::new(f.idx);
            p.row = r;
            p.col = c;
            seeds.push((p, bm(|b| s.encode(b))));
        }
    }
    t.push(Target {
        name: "Sample",
        run: t_sample,
        seeds,
        structured: |rng, e| {
            let p = Params::random(rng, &e.fxs);
            let s = adv_sample(rng, &e.fxs[p.fx], &p);
            (p, enc(&s))
        },
        weight: 6,
    });

    // ---- Row
    let mut seeds = Vec::new();
    for f in &e.fxs {
        for _ in 0..3 {
            let r = rng.gen_range(0..f.w) as u16;
            let row = Row::new(r, &f.eds).unwrap();
            let mut p = Params::new(f.idx);
            p.row = r;
            seeds.push((p.clone(), bm(|b| row.encode(b))));
            // right-half variant
            let raw = RawRow {
                shares_half: (f.ods_w..f.w).map(|c| RawShare { data: f.share(r as usize, c).clone() }).collect(),
                half_side: 1,
            };
            seeds.push((p, enc(&raw)));
        }
    }
    t.push(Target {
        name: "Row",
        run: t_row,
        seeds,
        structured: |rng, e| {
            let p = Params::random(rng, &e.fxs);
            let r = adv_row(rng, &e.fxs[p.fx], &p);
            (p, enc(&r))
        },
        weight: 4,
    });

    // ---- RowNamespaceData / NamespaceData
    let mut seeds = Vec::new();
    let mut seeds_ns = Vec::new();
    for f in &e.fxs {
        for ns in f.namespaces.iter().chain(f.absent.iter()).chain([Namespace::PARITY_SHARE].iter()) {
            let rows = f.eds.get_namespace_data(*ns, &f.dah, f.height).unwrap_or_default();
            let mut raws = Vec::new();
            for (id, d) in rows {
                let mut p = Params::new(f.idx);
                p.row = id.row_index();
                p.ns = *ns;
                if seeds.len() < 400 {
                    seeds.push((p, bm(|b| d.encode(b))));
                }
                raws.push(RawRnd::from(d));
            }
            let mut p = Params::new(f.idx);
            p.ns = *ns;
            seeds_ns.push((p, enc(&RawNsData { namespace_data: raws })));
        }
    }
    t.push(Target {
        name: "RowNamespaceData",
        run: t_rnd,
        seeds,
        structured: |rng, e| {
            let p = Params::random(rng, &e.fxs);
            let d = adv_rnd(rng, &e.fxs[p.fx], &p);
            (p, enc(&d))
        },
        weight: 5,
    });
    t.push(Target {
        name: "NamespaceData",
        run: t_nsdata,
        seeds: seeds_ns,
        structured: |rng, e| {
            let p = Params::random(rng, &e.fxs);
            let rows = adv_nsdata(rng, &e.fxs[p.fx], &p, true);
            (p, enc(&RawNsData { namespace_data: rows }))
        },
        weight: 2,
    });

    // ---- BadEncodingFraudProof
    let mut seeds = Vec::new();
    for f in &e.fxs {
        for k in 0..3 {
            let axis = if k % 2 == 0 { AxisType::Row } else { AxisType::Col };
            let idx = rng.gen_range(0..f.ods_w);
            seeds.push((Params::new(f.idx), enc(&honest_befp(&mut rng, f, false, axis, idx))));
        }
        if let Some(b) = &f.bad {
            let mut p = Params::new(f.idx);
            p.aux = 1;
            seeds.push((p, enc(&honest_befp(&mut rng, f, true, b.axis, b.index as usize))));
        }
    }
    t.push(Target {
        name: "BadEncodingFraudProof",
        run: t_befp,
        seeds,
        structured: |rng, e| {
            let mut p = Params::random(rng, &e.fxs);
            let b = adv_befp(rng, &e.fxs[p.fx], &mut p);
            (p, enc(&b))
        },
        weight: 5,
    });

    // ---- ShareProof / RowProof / NamespaceProof / MerkleProof
    let mut seeds = Vec::new();
    for f in &e.fxs {
        for ns in &f.namespaces {
            if let Some(sp) = honest_share_proof(f, *ns) {
                seeds.push((Params::new(f.idx), enc(&sp)));
            }
        }
    }
    t.push(Target {
        name: "ShareProof",
        run: t_share_proof,
        seeds,
        structured: |rng, e| {
            let p = Params::random(rng, &e.fxs);
            let s = adv_share_proof(rng, &e.fxs[p.fx]);
            (p, enc(&s))
        },
        weight: 4,
    });
    let mut seeds = Vec::new();
    let mut seeds_m = Vec::new();
    for f in &e.fxs {
        for _ in 0..3 {
            let a = rng.gen_range(0..f.w as u16);
            let b = rng.gen_range(a..f.w as u16);
            let rp = honest_row_proof(f, a, b);
            let mut p = Params::new(f.idx);
            p.row = a;
            seeds_m.push((p, enc(&rp.proofs[0])));
            seeds.push((Params::new(f.idx), enc(&rp)));
        }
    }
    t.push(Target {
        name: "RowProof",
        run: t_row_proof,
        seeds,
        structured: |rng, e| {
            let p = Params::random(rng, &e.fxs);
            let s = adv_row_proof(rng, &e.fxs[p.fx]);
            (p, enc(&s))
        },
        weight: 3,
    });
    t.push(Target {
        name: "MerkleProof",
        run: t_merkle,
        seeds: seeds_m,
        structured: |rng, e| {
            let mut p = Params::random(rng, &e.fxs);
            let f = &e.fxs[p.fx];
            p.row %= f.w as u16;
            let base = honest_row_proof(f, p.row, p.row).proofs[0].clone();
            (p, enc(&adv_merkle_proof(rng, &base)))
        },
        weight: 2,
    });
    let mut seeds = Vec::new();
    for f in &e.fxs {
        for _ in 0..6 {
            let (r, c) = (rng.gen_range(0..f.w), rng.gen_range(0..f.w));
            let mut p = Params::new(f.idx);
            p.row = r as u16;
            p.col = c as u16;
            p.ns = f.eds.share(r as u16, c as u16).unwrap().namespace();
            p.aux = rng.gen_range(0..2) | 2; // one leaf for the complete-namespace call
            let pr = if p.aux & 1 == 0 { &f.row_proofs[r * f.w + c] } else { &f.col_proofs[r * f.w + c] };
            seeds.push((p, enc(pr)));
        }
        // absence proofs
        for ns in &f.absent {
            for (id, d) in f.eds.get_namespace_data(*ns, &f.dah, f.height).unwrap_or_default() {
                let mut p = Params::new(f.idx);
                p.row = id.row_index();
                p.ns = *ns;
                seeds.push((p, enc(&RawProof::from(d.proof))));
            }
        }
    }
    t.push(Target {
        name: "NamespaceProof",
        run: t_ns_proof,
        seeds,
        structured: |rng, e| {
            let mut p = Params::random(rng, &e.fxs);
            let f = &e.fxs[p.fx];
            let (r, c) = (p.row as usize % f.w, p.col as usize % f.w);
            if rng.gen_bool(0.6) {
                p.ns = f.eds.share(r as u16, c as u16).unwrap().namespace();
            }
            let base = if p.aux & 1 == 0 { &f.row_proofs[r * f.w + c] } else { &f.col_proofs[r * f.w + c] };
            let pr = adv_proof(rng, f, base);
            (p, enc(&pr))
        },
        weight: 6,
    });

    // ---- Blob (gRPC/RPC payload) and blob reconstruction from received shares
    let mut seeds = Vec::new();
    let mut seeds_sh = Vec::new();
    for k in 0..12u64 {
        let app = vgen::square::ALL_APP_VERSIONS[(k % 7) as usize];
        let ns = vgen::square::random_user_namespace(&mut rng, false);
        let len = *[1usize, 100, 478, 479, 960, 961, 3000].choose(&mut rng).unwrap();
        let blob = Blob::new(ns, rand_bytes(&mut rng, len), None, app).unwrap();
        let mut p = Params::new(0);
        p.aux = k;
        seeds.push((p.clone(), enc(&RawBlob::from(blob.clone()))));
        let bytes: Vec<u8> = blob.to_shares().unwrap().iter().flat_map(|s| s.to_vec()).collect();
        seeds_sh.push((p, bytes));
    }
    for f in &e.fxs {
        // whole ODS rows as received through namespace data
        let mut p = Params::new(f.idx);
        p.aux = f.app.as_u64() - 1;
        let bytes: Vec<u8> = (0..f.ods_w).flat_map(|c| f.share(0, c).clone()).collect();
        seeds_sh.push((p, bytes));
    }
    t.push(Target {
        name: "Blob",
        run: t_blob,
        seeds,
        structured: |rng, e| {
            let p = Params::random(rng, &e.fxs);
            let raw = RawBlob {
                namespace_id: match rng.gen_range(0..6) {
                    0 => rb(rng, &[0usize, 1, 10, 11, 27, 29]),
                    1 => vec![0xff; 28],
                    2 => vec![0; 28],
                    _ => e.fxs[p.fx].any_ns(rng).id().to_vec(),
                },
                data: {
                    let n = *[0usize, 1, 477, 478, 479, 959, 960, 961, 5000].choose(rng).unwrap();
                    rand_bytes(rng, n)
                },
                share_version: *[0u32, 0, 1, 1, 2, 127, 128, 255, 256, u32::MAX].choose(rng).unwrap(),
                namespace_version: *[0u32, 0, 0, 1, 255, 256, 0x100ff, u32::MAX].choose(rng).unwrap(),
                signer: rb(rng, &[0usize, 0, 20, 20, 19, 21, 32]),
            };
            (p, enc(&raw))
        },
        weight: 2,
    });
    t.push(Target {
        name: "BlobShares",
        run: t_blob_shares,
        seeds: seeds_sh,
        structured: |rng, e| {
            let p = Params::random(rng, &e.fxs);
            let f = &e.fxs[p.fx];
            let n = rng.gen_range(1..6);
            let mut out = Vec::new();
            for k in 0..n {
                let (r, c) = (rng.gen_range(0..f.ods_w), rng.gen_range(0..f.ods_w));
                let mut s = adv_share_data(rng, f, r, c);
                s.resize(SHARE_SIZE, 0);
                if k == 0 && rng.gen_bool(0.7) {
                    // user namespace, sequence start, hostile length / version
                    let ns = vgen::square::random_user_namespace(rng, true);
                    s[..NS_SIZE].copy_from_slice(ns.as_bytes());
                    s[NS_SIZE] = *[1u8, 1, 3, 5, 0xff].choose(rng).unwrap();
                    let len: u32 = *[0u32, 1, 478, 479, 960, 2000, 1 << 16, 1 << 20].choose(rng).unwrap();
                    s[NS_SIZE + 1..NS_SIZE + 5].copy_from_slice(&len.to_be_bytes());
                }
                out.extend(s);
            }
            (p, out)
        },
        weight: 2,
    });

    // ---- identifiers, CIDs, DAH, primitives
    let mut seeds = Vec::new();
    for f in &e.fxs {
        seeds.push((Params::new(f.idx), bm(|b| EdsId::new(f.height).unwrap().encode(b))));
        seeds.push((Params::new(f.idx), bm(|b| RowId::new(3, f.height).unwrap().encode(b))));
        seeds.push((Params::new(f.idx), bm(|b| SampleId::new(1, 2, f.height).unwrap().encode(b))));
        let ns = f.namespaces[0];
        seeds.push((Params::new(f.idx), bm(|b| RowNamespaceDataId::new(ns, 1, f.height).unwrap().encode(b))));
        seeds.push((Params::new(f.idx), bm(|b| NamespaceDataId::new(ns, f.height).unwrap().encode(b))));
    }
    t.push(Target {
        name: "Ids",
        run: t_ids,
        seeds,
        structured: |rng, e| {
            let p = Params::random(rng, &e.fxs);
            let k = rng.gen_range(0..5);
            let b = id_bytes(rng, &e.fxs[p.fx], k);
            (p, b)
        },
        weight: 1,
    });
    let mut seeds = Vec::new();
    for f in &e.fxs {
        seeds.push((Params::new(f.idx), CidGeneric::<10>::from(RowId::new(1, f.height).unwrap()).to_bytes()));
        seeds.push((Params::new(f.idx), CidGeneric::<12>::from(SampleId::new(1, 0, f.height).unwrap()).to_bytes()));
        seeds.push((
            Params::new(f.idx),
            CidGeneric::<39>::from(RowNamespaceDataId::new(f.namespaces[0], 0, f.height).unwrap()).to_bytes(),
        ));
    }
    t.push(Target {
        name: "Cid",
        run: t_cid,
        seeds,
        structured: |rng, e| {
            let p = Params::random(rng, &e.fxs);
            let f = &e.fxs[p.fx];
            let kind = rng.gen_range(1..4);
            let digest = id_bytes(rng, f, kind);
            let codecs = [0x7800u64, 0x7810, 0x7820, 0x55, 0x70, 0, u64::MAX >> 1];
            let codes = [0x7801u64, 0x7811, 0x7821, 0x12, 0, u64::MAX >> 1];
            let (codec, code) = if rng.gen_bool(0.6) {
                ([0x7800, 0x7810, 0x7820][kind - 1], [0x7801, 0x7811, 0x7821][kind - 1])
            } else {
                (*codecs.choose(rng).unwrap(), *codes.choose(rng).unwrap())
            };
            let declared = match rng.gen_range(0..6) {
                0 => Some(0),
                1 => Some(64),
                2 => Some(65),
                3 => Some(u64::MAX >> 1),
                _ => None,
            };
            (p, cid_bytes(codec, code, &digest, declared))
        },
        weight: 1,
    });
    let mut seeds = Vec::new();
    for f in &e.fxs {
        seeds.push((Params::new(f.idx), f.dah.clone().encode_vec()));
    }
    t.push(Target {
        name: "DataAvailabilityHeader",
        run: t_dah,
        seeds,
        structured: |rng, e| {
            let p = Params::random(rng, &e.fxs);
            let f = &e.fxs[p.fx];
            let n = *[0usize, 1, 2, 3, f.w, f.w + 1, 256, 257, 512, 513].choose(rng).unwrap();
            let m = if rng.gen_bool(0.7) { n } else { rng.gen_range(0..4) };
            let raw = RawDah {
                row_roots: (0..n).map(|_| if rng.gen_bool(0.9) { f.nodes.choose(rng).unwrap().clone() } else { adv_node(rng, f) }).collect(),
                column_roots: (0..m).map(|_| f.nodes.choose(rng).unwrap().clone()).collect(),
            };
            (p, enc(&raw))
        },
        weight: 1,
    });
    let mut seeds = Vec::new();
    for f in &e.fxs {
        seeds.push((Params::new(f.idx), f.share(0, 0).clone()));
        seeds.push((Params::new(f.idx), f.share(f.w - 1, f.w - 1).clone()));
        seeds.push((Params::new(f.idx), f.namespaces[0].as_bytes().to_vec()));
        seeds.push((Params::new(f.idx), f.nodes[0].clone()));
        seeds.push((Params::new(f.idx), enc(&RawShare { data: f.share(0, 0).clone() })));
    }
    t.push(Target {
        name: "Primitives",
        run: t_prims,
        seeds,
        structured: |rng, e| {
            let p = Params::random(rng, &e.fxs);
            let f = &e.fxs[p.fx];
            let b = match rng.gen_range(0..4) {
                0 => adv_share_data(rng, f, 0, 0),
                1 => adv_node(rng, f),
                2 => {
                    let mut ns = f.any_ns(rng).as_bytes().to_vec();
                    let i = rng.gen_range(0..ns.len());
                    ns[i] = rng.r#gen();
                    ns
                }
                _ => enc(&RawShare { data: adv_share_data(rng, f, 0, 0) }),
            };
            (p, b)
        },
        weight: 1,
    });
    t
}

pub fn run(ctx: &Ctx) {
    ctx.rule(
        "Inputs: honest encodings (vgen squares of ODS width 1..32, signed headers, honest and real-fraud BEFPs) \
         mutated (a) at byte level / at protobuf wire-tree level (field delete/repeat/retag/wire-type/edge varints), stacked \
         1..4, plus truncation at every byte, and (b) as structured adversarial raw protobufs (sibling lists up to 130 nodes, \
         u32/i32/i64-extreme and negative indices, empty/oversized/mismatched share halves, out-of-enum axis values, \
         rows 0..=65535, heights 0/u64::MAX, totals 0/i64::MAX, permuted or misplaced proven shares). Every decoded value \
         is driven through verify/validate against the fixture's honest DAH/header. Non-trivial = input that passed \
         protobuf framing (reached lumina code); distinct by (decoder, outcome label = Ok or error variant per stage).",
    );
    ctx.assume("a panic inside a dependency (nmt-rs, leopard-codec, tendermint) reached through a lumina decoder/validator on peer input counts as a panic of that decoder");
    ctx.assume("Blob::reconstruct inputs are capped at sequence_length <= 2^26 (larger values make lumina reserve gigabytes up front; reported, not generated)");
    ctx.extra("bin", json!("vt"));

    let n_fx = ctx.scale(6usize, 8usize);
    let env = Env { fxs: (0..n_fx).map(|i| build_fixture(ctx, i)).collect() };
    let mut targets = build_targets(&env, ctx);
    if let Ok(only) = std::env::var("C16_ONLY") {
        targets.retain(|t| only.split(',').any(|o| o == t.name)); // development aid
    }
    let names: Vec<&'static str> = targets.iter().map(|t| t.name).collect();
    let eng = Engine::new(ctx, "vt", &env);

    // replay of a recorded witness
    if ctx.replay.is_some() {
        if let Some((name, p, input)) = replay_case(ctx, "vt") {
            if let Some(t) = targets.iter().find(|t| t.name == name) {
                let mut l = Local::default();
                eng.exec(&mut l, t.name, t.run, &p, &input, "replay");
                eng.flush(l);
            }
        }
        return;
    }

    let shards = ctx.cores();

    // (0) honest seeds + truncation at every byte (sampled positions for large messages)
    let mut sweep: Vec<(usize, usize)> = Vec::new();
    for (ti, t) in targets.iter().enumerate() {
        for si in 0..t.seeds.len() {
            sweep.push((ti, si));
        }
    }
    let trunc_full = ctx.scale(1500usize, 20_000usize);
    let trunc_sampled = ctx.scale(48usize, 512usize);
    ctx.par(shards, |shard| {
        let mut l = Local::default();
        for (k, (ti, si)) in sweep.iter().enumerate() {
            if k % shards != shard {
                continue;
            }
            let t = &targets[*ti];
            let (p, seed) = &t.seeds[*si];
            eng.exec(&mut l, t.name, t.run, p, seed, "honest");
            let mut rng = ctx.rng(3, k as u64);
            if seed.len() <= trunc_full {
                for n in 0..seed.len() {
                    eng.exec(&mut l, t.name, t.run, p, &seed[..n], "truncate");
                }
            } else {
                for _ in 0..trunc_sampled {
                    let n = rng.gen_range(0..seed.len());
                    eng.exec(&mut l, t.name, t.run, p, &seed[..n], "truncate");
                }
            }
        }
        eng.flush(l);
    });

    // (1) random cases
    let mut wheel: Vec<usize> = Vec::new();
    for (i, t) in targets.iter().enumerate() {
        for _ in 0..t.weight {
            wheel.push(i);
        }
    }
    let cases = std::env::var("C16_CASES").ok().and_then(|s| s.parse().ok()).unwrap_or(ctx.scale(600_000u64, 20_000_000u64));
    ctx.par(shards, |shard| {
        let mut l = Local::default();
        for case in (shard as u64..cases).step_by(shards) {
            let mut rng = ctx.rng(2, case);
            let t = &targets[wheel[(case as usize / shards) % wheel.len()]];
            let t0 = std::time::Instant::now();
            match rng.gen_range(0..20) {
                0..=5 => {
                    // tournament: prefer the shorter of two seeds (big messages cost milliseconds each)
                    let (mut p, mut seed) = { let x = t.seeds.choose(&mut rng).unwrap(); (&x.0, &x.1) };
                    if rng.gen_bool(0.8) {
                        let y = t.seeds.choose(&mut rng).unwrap();
                        if y.1.len() < seed.len() {
                            p = &y.0;
                            seed = &y.1;
                        }
                    }
                    let mut b = seed.clone();
                    let what = mutate_stack(&mut rng, &mut b);
                    // coordinates we ask for are ours to choose: sometimes ask for another cell
                    let mut p = p.clone();
                    if rng.gen_bool(0.15) {
                        let q = Params::random(&mut rng, &env.fxs);
                        p.row = q.row;
                        p.col = q.col;
                    }
                    l.add_time("(generator: seed mutation)", t0);
                    eng.exec(&mut l, t.name, t.run, &p, &b, &format!("mutate:{what}"));
                }
                6..=15 => {
                    let (p, b) = (t.structured)(&mut rng, &env);
                    l.add_time("(generator: structured)", t0);
                    eng.exec(&mut l, t.name, t.run, &p, &b, "structured");
                }
                16..=17 => {
                    let (p, mut b) = (t.structured)(&mut rng, &env);
                    let what = mutate_stack(&mut rng, &mut b);
                    eng.exec(&mut l, t.name, t.run, &p, &b, &format!("structured+mutate:{what}"));
                }
                18 => {
                    // a message of another type / another fixture fed to this decoder
                    let o = targets.choose(&mut rng).unwrap();
                    let (_, b) = o.seeds.choose(&mut rng).unwrap();
                    let p = Params::random(&mut rng, &env.fxs);
                    eng.exec(&mut l, t.name, t.run, &p, b, "cross-type");
                }
                _ => {
                    let n = *[0usize, 1, 2, 8, 10, 12, 29, 37, 39, 90, 512, 600].choose(&mut rng).unwrap();
                    let b = rand_bytes(&mut rng, n);
                    let p = Params::random(&mut rng, &env.fxs);
                    eng.exec(&mut l, t.name, t.run, &p, &b, "random");
                }
            }
        }
        eng.flush(l);
    });

    eng.finish(&names);

    // coverage floors (values far below what an unchanged tree yields; see report)
    for n in &names {
        ctx.floor(&format!("{n}.framed"), ctx.scale(2_000, 50_000));
        ctx.floor(&format!("{n}.outcomes"), 3);
    }
    for n in ["Sample", "Row", "RowNamespaceData", "NamespaceData", "ShareProof", "RowProof", "MerkleProof", "BadEncodingFraudProof", "ExtendedHeader"] {
        ctx.floor(&format!("{n}.decoded_ok"), if n == "ExtendedHeader" { 300 } else { 2_000 });
        ctx.floor(&format!("{n}.verified_ok"), 100);
    }
    ctx.floor("distinct_decoder_outcome_pairs", 120);
    ctx.floor("family.structured", ctx.scale(200_000, 5_000_000));
    ctx.floor("family.truncate", 10_000);
}
