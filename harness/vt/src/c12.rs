//! C12 — blob commitments follow the share-commitment rules.
//!
//! Oracle: an independent implementation (`c11_model`): own sparse-share encoder, ADR-013
//! subtree width + merkle-mountain-range partition, NMT subtree roots and RFC-6962 merkle root
//! from `vcore::sha` (sha2 only). Compared with `Commitment::from_blob`, `Blob::new(..).commitment`
//! and `Commitment::from_shares`; `Blob::validate` must accept exactly when the stored commitment
//! equals the independent value for the blob's (possibly tampered) fields.

#[path = "c11_model.rs"]
mod c11_model;

use c11_model as model;
use celestia_types::consts::appconsts::AppVersion;
use celestia_types::nmt::Namespace;
use celestia_types::state::{AccAddress, AddressTrait};
use celestia_types::{Blob, Commitment};
use vcore::{ChaCha8Rng, Ctx, Rng, SliceRandom, guard, json, panic_site, rand_bytes};
use vgen::square::{ALL_APP_VERSIONS, random_user_namespace};

const SIGNER_APPS: [AppVersion; 5] = [
    AppVersion::V3,
    AppVersion::V4,
    AppVersion::V5,
    AppVersion::V6,
    AppVersion::V7,
];

fn ns_bytes(ns: &Namespace) -> [u8; model::NS] {
    ns.as_bytes().try_into().unwrap()
}

fn count_class(n: usize) -> &'static str {
    match n {
        0..=64 => "shares<=64(width=1)",
        65..=4096 => "shares=65..4096(width=2..64)",
        4097..=16384 => "shares=4097..16384(width=128..256)",
        _ => "shares>16384(min-square-size-binds)",
    }
}

/// Independent commitment for the fields of `b` (None when the field combination has no
/// defined encoding: share version other than 0/1, signer presence not matching the version).
fn independent(b: &Blob, app: AppVersion) -> Option<[u8; 32]> {
    let signer: Option<[u8; 20]> = b.signer.as_ref().map(|s| s.as_bytes().try_into().unwrap());
    match (b.share_version, &signer) {
        (0, None) | (1, Some(_)) => {}
        _ => return None,
    }
    Some(model::blob_commitment(
        &ns_bytes(&b.namespace),
        b.share_version,
        signer.as_ref(),
        &b.data,
        app.as_u64(),
    ))
}

fn detail(b: &Blob, app: AppVersion, n: usize) -> vcore::Value {
    json!({
        "shares": n,
        "data_len": b.data.len(),
        "share_version": b.share_version,
        "signer": b.signer.as_ref().map(|s| vcore::hex_full(s.as_bytes())),
        "namespace": vcore::hex_full(b.namespace.as_bytes()),
        "app_version": app.as_u64(),
        "stored_commitment": vcore::hex_full(b.commitment.hash()),
        "data_prefix": vcore::hex(&b.data),
    })
}

/// `validate` must accept exactly when the stored commitment is the independent one.
fn check_validate(ctx: &Ctx, b: &Blob, app: AppVersion, n: usize, family: &str) {
    let Some(want) = independent(b, app) else {
        // undefined encoding: nothing is demanded, only recorded
        match guard(|| b.validate(app)) {
            Err(p) => ctx.violation(&format!("C12/validate/panic/{}", panic_site(&p)), &p, detail(b, app, n)),
            Ok(Ok(())) => ctx.count(&format!("undefined_encoding_accepted/{family}")),
            Ok(Err(_)) => ctx.count(&format!("undefined_encoding_rejected/{family}")),
        }
        return;
    };
    let must_accept = *b.commitment.hash() == want;
    ctx.eval();
    match guard(|| b.validate(app)) {
        Err(p) => ctx.violation(&format!("C12/validate/panic/{}", panic_site(&p)), &p, detail(b, app, n)),
        Ok(r) => {
            let accepted = r.is_ok();
            if accepted && !must_accept {
                ctx.violation(
                    &format!("C12/validate/accepts-wrong-commitment/share-version-{}", b.share_version),
                    &format!("validate() accepted a blob whose stored commitment differs from the independently computed one (tamper family: {family})"),
                    json!({"blob": detail(b, app, n), "independent": vcore::hex_full(&want)}),
                );
            } else if !accepted && must_accept {
                ctx.violation(
                    &format!("C12/validate/rejects-correct-commitment/share-version-{}", b.share_version),
                    &format!("validate() rejected a blob carrying the independently computed commitment ({family}): {}", r.unwrap_err()),
                    json!({"blob": detail(b, app, n), "independent": vcore::hex_full(&want)}),
                );
            } else if accepted {
                ctx.count(&format!("validate_accept/{family}"));
                ctx.count("validate_accept");
            } else {
                ctx.count(&format!("validate_reject/{family}"));
                ctx.count("validate_reject");
            }
        }
    }
}

fn one_blob(ctx: &Ctx, rng: &mut ChaCha8Rng, n: usize, signer: bool, tampers: usize, light: bool) {
    let app = if signer {
        SIGNER_APPS[rng.gen_range(0..SIGNER_APPS.len())]
    } else {
        ALL_APP_VERSIONS[rng.gen_range(0..ALL_APP_VERSIONS.len())]
    };
    let (lo, hi) = model::len_range_for_shares(n, signer);
    let len = match rng.gen_range(0..4) {
        0 => lo,
        1 => hi,
        _ => rng.gen_range(lo..=hi),
    };
    let ns = match rng.gen_range(0..8) {
        0 => Namespace::new_v0(&[1, 0]).unwrap(),
        1 => Namespace::new_v0(&[0xff; 10]).unwrap(),
        _ => {
            let cluster = rng.gen_bool(0.3);
            random_user_namespace(rng, cluster)
        }
    };
    let data = rand_bytes(rng, len);
    let signer_bytes: Option<[u8; 20]> = signer.then(|| {
        let mut s = [0u8; 20];
        rng.fill(&mut s);
        s
    });
    let signer_addr = signer_bytes.map(AccAddress::from);
    let class = count_class(n);

    // independent value
    let shares = model::encode(&ns_bytes(&ns), signer as u8, signer_bytes.as_ref(), &data);
    assert_eq!(shares.len(), n, "harness: wrong length for share count");
    let threshold = model::subtree_root_threshold(app.as_u64());
    let want = model::commitment(&ns_bytes(&ns), &shares, threshold);
    let width = model::subtree_width(n as u64, threshold);
    let sizes = model::mmr_sizes(n as u64, width);
    let d = || {
        json!({"shares": n, "data_len": len, "share_version": signer as u8, "app_version": app.as_u64(),
               "namespace": vcore::hex_full(ns.as_bytes()),
               "signer": signer_bytes.map(|s| vcore::hex_full(&s)),
               "independent_commitment": vcore::hex_full(&want),
               "subtree_width": width, "mountain_range": sizes, "data_prefix": vcore::hex(&data)})
    };

    // 1. Commitment::from_blob
    ctx.eval();
    match guard(|| Commitment::from_blob(ns, &data, signer as u8, signer_addr.as_ref(), app)) {
        Err(p) => ctx.violation(&format!("C12/from_blob/panic/{}", panic_site(&p)), &p, d()),
        Ok(Err(e)) => ctx.violation(&format!("C12/from_blob/err/{class}"), &format!("{e}"), d()),
        Ok(Ok(c)) if *c.hash() == want => {
            ctx.count("from_blob_equal");
            ctx.count(&format!("from_blob_equal/{class}"));
        }
        Ok(Ok(c)) => {
            ctx.violation(
                &format!("C12/from_blob/differs-from-independent/{class}"),
                &format!("Commitment::from_blob = {} but independent ADR-013 computation = {}", vcore::hex_full(c.hash()), vcore::hex_full(&want)),
                d(),
            );
            // everything below (Blob::new, validate) is derived from the same computation:
            // one defect, one signature
            ctx.count("skipped_after_commitment_mismatch");
            return;
        }
    }

    // 2. Blob::new carries it, from_shares on lumina's own shares gives it, validate accepts
    let blob = match guard(|| Blob::new(ns, data.clone(), signer_addr, app)) {
        Ok(Ok(b)) => b,
        Ok(Err(e)) => {
            ctx.violation(&format!("C12/Blob::new/err/{class}"), &format!("{e}"), d());
            return;
        }
        Err(p) => {
            ctx.violation(&format!("C12/Blob::new/panic/{}", panic_site(&p)), &p, d());
            return;
        }
    };
    if *blob.commitment.hash() != want {
        ctx.violation(
            &format!("C12/Blob::new/commitment-differs-from-independent/{class}"),
            "Blob::new stored a commitment different from the independent value",
            d(),
        );
    }
    ctx.eval();
    if !light {
    match guard(|| blob.to_shares().and_then(|s| Commitment::from_shares(ns, &s, app))) {
        Err(p) => ctx.violation(&format!("C12/from_shares/panic/{}", panic_site(&p)), &p, d()),
        Ok(Err(e)) => ctx.violation(&format!("C12/from_shares/err/{class}"), &format!("{e}"), d()),
        Ok(Ok(c)) if *c.hash() == want => ctx.count("from_shares_equal"),
        Ok(Ok(_)) => ctx.violation(
            &format!("C12/from_shares/differs-from-independent/{class}"),
            "Commitment::from_shares over to_shares() differs from the independent value",
            d(),
        ),
    }
    }
    check_validate(ctx, &blob, app, n, "untampered");
    // validate_with_commitment
    if !light {
    match guard(|| blob.validate_with_commitment(&Commitment::new(want), app)) {
        Ok(Ok(())) => ctx.count("validate_with_commitment_accept"),
        Ok(Err(e)) => ctx.violation(
            "C12/validate_with_commitment/rejects-correct-commitment",
            &format!("{e}"),
            d(),
        ),
        Err(p) => ctx.violation(&format!("C12/validate_with_commitment/panic/{}", panic_site(&p)), &p, d()),
    }
    let mut other = want;
    other[rng.gen_range(0..32)] ^= 1 << rng.gen_range(0..8);
    match guard(|| blob.validate_with_commitment(&Commitment::new(other), app)) {
        Ok(Ok(())) => ctx.violation(
            "C12/validate_with_commitment/accepts-wrong-commitment",
            "validate_with_commitment accepted a commitment differing in one bit",
            d(),
        ),
        Ok(Err(_)) => ctx.count("validate_with_commitment_reject"),
        Err(p) => ctx.violation(&format!("C12/validate_with_commitment/panic/{}", panic_site(&p)), &p, d()),
    }
    }

    ctx.nontrivial(&(n, signer));
    ctx.count(&format!("blobs/{class}"));
    ctx.sample(|| {
        json!({"shares": n, "share_version": signer as u8, "app_version": app.as_u64(), "subtree_width": width,
               "mountain_range_trees": sizes.len(), "commitment": vcore::hex_full(&want)})
    });

    // 3. tampering
    let mut fams: Vec<u32> = (0..12).collect();
    fams.shuffle(rng);
    for fam in fams.into_iter().take(tampers) {
        let mut t = blob.clone();
        let name = match fam {
            0 => {
                let i = rng.gen_range(0..t.data.len());
                t.data[i] ^= 1 << rng.gen_range(0..8);
                "data-bitflip"
            }
            1 => {
                // within the same share count when possible: only the padding / sequence length change
                t.data.push(rng.r#gen());
                "data-append"
            }
            2 => {
                if t.data.len() < 2 {
                    continue;
                }
                t.data.pop();
                "data-truncate"
            }
            3 => {
                // swap two bytes in different shares (same multiset of bytes)
                let i = rng.gen_range(0..t.data.len());
                let j = rng.gen_range(0..t.data.len());
                if t.data[i] == t.data[j] {
                    continue;
                }
                t.data.swap(i, j);
                "data-swap"
            }
            4 => {
                let mut id = [0u8; 10];
                id.copy_from_slice(&t.namespace.id()[18..]);
                id[rng.gen_range(0..10)] ^= 1 << rng.gen_range(0..8);
                match Namespace::new_v0(&id) {
                    Ok(n2) if n2 != t.namespace && !n2.is_reserved() => t.namespace = n2,
                    _ => continue,
                }
                "namespace"
            }
            5 => {
                let Some(s) = t.signer.as_ref() else { continue };
                let mut raw: [u8; 20] = s.as_bytes().try_into().unwrap();
                raw[rng.gen_range(0..20)] ^= 1 << rng.gen_range(0..8);
                t.signer = Some(AccAddress::from(raw));
                "signer"
            }
            6 => {
                let mut h = *t.commitment.hash();
                h[rng.gen_range(0..32)] ^= 1 << rng.gen_range(0..8);
                t.commitment = Commitment::new(h);
                "commitment-bitflip"
            }
            7 => {
                // commitment of the same data in the other share version / another namespace
                let alt = if signer {
                    model::blob_commitment(&ns_bytes(&ns), 0, None, &data, app.as_u64())
                } else {
                    model::blob_commitment(&ns_bytes(&ns), 1, Some(&[7u8; 20]), &data, app.as_u64())
                };
                t.commitment = Commitment::new(alt);
                "commitment-of-other-share-version"
            }
            8 => {
                // tampered data with the matching (independently recomputed) commitment: must be accepted
                let i = rng.gen_range(0..t.data.len());
                t.data[i] = t.data[i].wrapping_add(1);
                let c = independent(&t, app).unwrap();
                t.commitment = Commitment::new(c);
                "data-changed-and-recommitted"
            }
            9 => {
                // the index is not committed to
                t.index = Some(rng.gen_range(0..1000));
                "index-set"
            }
            10 => {
                // a naive commitment: plain merkle root over the shares (no NMT, no mountain range)
                let plain: Vec<Vec<u8>> = shares.iter().map(|s| s.to_vec()).collect();
                t.commitment = Commitment::new(vcore::sha::merkle_root(&plain));
                "commitment-plain-merkle"
            }
            _ => {
                // share version / signer presence mismatch: no defined encoding
                if signer {
                    t.signer = None;
                } else {
                    t.share_version = 1;
                }
                "version-signer-mismatch"
            }
        };
        ctx.count(&format!("tamper/{name}"));
        check_validate(ctx, &t, app, n, name);
    }
}

fn count_pool(ctx: &Ctx) -> Vec<usize> {
    let mut v: Vec<usize> = Vec::new();
    let every_upto = ctx.scale(300usize, 1000usize);
    v.extend(1..=every_upto);
    // powers of two and the subtree-width switch points 64*2^k (+1)
    for k in 0..=12 {
        let p = 1usize << k;
        v.extend([p.saturating_sub(1).max(1), p, p + 1]);
        let t = 64usize << k;
        if t <= 8192 {
            v.extend([t - 1, t, t + 1, t + 2]);
        }
    }
    // multiples of the threshold
    let step = ctx.scale(10usize, 1usize);
    for k in (1..=78).step_by(step) {
        v.extend([64 * k - 1, 64 * k, 64 * k + 1]);
    }
    // perfect squares (min square size switch points)
    let sstep = ctx.scale(7usize, 1usize);
    for k in (2..=71).step_by(sstep) {
        v.extend([k * k - 1, k * k, k * k + 1]);
    }
    v.extend([4095, 4096, 4097, 4098, 4999, 5000]);
    v.retain(|n| *n >= 1 && *n <= 5000);
    // beyond the stated range: where min(subtree width, min square size) actually binds
    v.push(16385);
    if !ctx.quick() {
        v.extend([16384, 16386, 20000, 32768, 32769]);
    }
    v.sort();
    v.dedup();
    v
}

pub fn run(ctx: &Ctx) {
    ctx.rule(
        "Share counts: every count 1..=300 (thorough 1..=1000), 2^k and 64*2^k with +-1, multiples of 64 +-1, perfect \
         squares +-1, 4095..4098, 4999, 5000, plus 16385 (thorough also 16384, 16386, 20000, 32768, 32769) where the \
         min-square-size bound of ADR-013 binds; data length = min / max / random length for that count; both share \
         versions; random valid app version; random and boundary namespaces. Per blob up to 12 tamper families \
         (data bit flip / append / truncate / swap, namespace, signer, commitment bit flip, commitment of other share \
         version, plain-merkle commitment, data changed + recommitted, index set, version/signer mismatch). \
         Non-trivial = blob whose commitment was compared with the independent implementation; distinct by (share count, version).",
    );
    ctx.assume("c11_model (share layout, ADR-013 subtree width and mountain range) and vcore::sha (NMT with IgnoreMaxNamespace, RFC-6962) are the specification; SubtreeRootThreshold = 64 for app versions 1..7");
    ctx.assume("sha2 crate");

    let pool = count_pool(ctx);
    let extra_random = ctx.scale(40usize, 3600usize);
    let mut jobs: Vec<(usize, bool, u64)> = Vec::new();
    for n in &pool {
        for signer in [false, true] {
            jobs.push((*n, signer, 0));
        }
    }
    {
        let mut rng = ctx.rng(7, 0);
        for k in 0..extra_random {
            jobs.push((rng.gen_range(301..=5000), rng.gen_bool(0.5), 1 + k as u64));
        }
    }
    // big jobs first so that shards finish together
    jobs.sort_by(|a, b| b.0.cmp(&a.0));
    let shards = ctx.cores();
    ctx.par(shards, |shard| {
        for (i, (n, signer, k)) in jobs.iter().enumerate() {
            if i % shards != shard {
                continue;
            }
            let mut rng = ctx.rng(1, (*n as u64) << 20 | (*signer as u64) << 19 | k);
            let tampers = if *n <= 600 {
                12
            } else if *n <= 5000 {
                ctx.scale(1, 6)
            } else {
                ctx.scale(1, 2)
            };
            // quick tier: large blobs only get from_blob / Blob::new / validate (+1 tamper)
            let light = ctx.quick() && *n > 600;
            one_blob(ctx, &mut rng, *n, *signer, tampers, light);
        }
    });

    ctx.extra("share_counts_covered", json!(pool.len()));
    ctx.extra("max_share_count", json!(pool.last()));
    ctx.floor("from_blob_equal", ctx.scale(600, 6000));
    ctx.floor("from_blob_equal/shares<=64(width=1)", 100);
    ctx.floor("from_blob_equal/shares=65..4096(width=2..64)", 300);
    ctx.floor("from_blob_equal/shares=4097..16384(width=128..256)", 6);
    ctx.floor("from_blob_equal/shares>16384(min-square-size-binds)", 2);
    ctx.floor("validate_accept/untampered", ctx.scale(600, 6000));
    ctx.floor("validate_accept/data-changed-and-recommitted", 100);
    ctx.floor("validate_accept/index-set", 100);
    for f in ["data-bitflip", "data-append", "data-truncate", "data-swap", "namespace", "signer",
              "commitment-bitflip", "commitment-of-other-share-version", "commitment-plain-merkle"] {
        ctx.floor(&format!("validate_reject/{f}"), 100);
    }
}
