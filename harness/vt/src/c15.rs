//! C15 — Shwap identifiers and CIDs are bijective over valid ids.
//!
//! Oracle: the identifier layouts restated on raw bytes (`spec_decode`):
//!   EdsId = height(u64 BE, >= 1); RowId = EdsId || row(u16 BE); SampleId = RowId || col(u16 BE);
//!   RowNamespaceDataId = RowId || namespace(29); NamespaceDataId = EdsId || namespace(29);
//! a namespace is valid by the C14 rule. For ANY byte string `b` the real `decode(b)` must be Ok
//! exactly when the layout parses (right length, height != 0, valid namespace), must yield those
//! fields, and `encode(decode(b)) == b`. For ANY CID (codec, multihash code, digest) the real
//! `TryFrom<Cid>` must be Ok exactly when codec and code are the type's and the digest decodes.

use std::cell::{Cell, RefCell};
use std::collections::BTreeMap;

use bytes::BytesMut;
use celestia_types::eds::EdsId;
use celestia_types::namespace_data::NamespaceDataId;
use celestia_types::nmt::Namespace;
use celestia_types::row::{ROW_ID_CODEC, ROW_ID_MULTIHASH_CODE, RowId};
use celestia_types::row_namespace_data::{
    ROW_NAMESPACE_DATA_CODEC, ROW_NAMESPACE_DATA_ID_MULTIHASH_CODE, RowNamespaceDataId,
};
use celestia_types::sample::{SAMPLE_ID_CODEC, SAMPLE_ID_MULTIHASH_CODE, SampleId};
use cid::CidGeneric;
use multihash::Multihash;
use vcore::{Ctx, Rng, guard, hex_full, json, panic_site};

#[derive(Clone, Copy, Debug, PartialEq, Eq, Hash)]
enum Kind {
    Eds,
    Row,
    Sample,
    RowNs,
    Ns,
}

const KINDS: [Kind; 5] = [Kind::Eds, Kind::Row, Kind::Sample, Kind::RowNs, Kind::Ns];

impl Kind {
    fn name(self) -> &'static str {
        match self {
            Kind::Eds => "EdsId",
            Kind::Row => "RowId",
            Kind::Sample => "SampleId",
            Kind::RowNs => "RowNamespaceDataId",
            Kind::Ns => "NamespaceDataId",
        }
    }
    fn size(self) -> usize {
        match self {
            Kind::Eds => 8,
            Kind::Row => 10,
            Kind::Sample => 12,
            Kind::RowNs => 39,
            Kind::Ns => 37,
        }
    }
    /// (CID codec, multihash code) by the Shwap specification (CIP-19).
    fn cid_codes(self) -> Option<(u64, u64)> {
        match self {
            Kind::Row => Some((0x7800, 0x7801)),
            Kind::Sample => Some((0x7810, 0x7811)),
            Kind::RowNs => Some((0x7820, 0x7821)),
            _ => None,
        }
    }
}

/// Abstract identifier: the fields a kind does not have are zero / None.
#[derive(Clone, Copy, Debug, PartialEq, Eq, Hash)]
struct Fields {
    height: u64,
    row: u16,
    col: u16,
    ns: Option<[u8; 29]>,
}

fn ns_valid(raw: &[u8]) -> bool {
    raw.len() == 29
        && match raw[0] {
            0 => raw[1..19].iter().all(|b| *b == 0),
            255 => raw[1..28].iter().all(|b| *b == 0xff),
            _ => false,
        }
}

/// Why the layout does not parse (input class for signatures), or the fields.
fn spec_decode(kind: Kind, b: &[u8]) -> Result<Fields, &'static str> {
    if b.len() != kind.size() {
        return Err("wrong-length");
    }
    let height = u64::from_be_bytes(b[..8].try_into().unwrap());
    if height == 0 {
        return Err("zero-height");
    }
    let u16_at = |i: usize| u16::from_be_bytes([b[i], b[i + 1]]);
    let mut f = Fields { height, row: 0, col: 0, ns: None };
    let ns_at = |i: usize| -> Result<[u8; 29], &'static str> {
        let raw = &b[i..i + 29];
        if ns_valid(raw) { Ok(raw.try_into().unwrap()) } else { Err("invalid-namespace") }
    };
    match kind {
        Kind::Eds => {}
        Kind::Row => f.row = u16_at(8),
        Kind::Sample => {
            f.row = u16_at(8);
            f.col = u16_at(10);
        }
        Kind::RowNs => {
            f.row = u16_at(8);
            f.ns = Some(ns_at(10)?);
        }
        Kind::Ns => f.ns = Some(ns_at(8)?),
    }
    Ok(f)
}

fn spec_encode(kind: Kind, f: &Fields) -> Vec<u8> {
    let mut v = f.height.to_be_bytes().to_vec();
    match kind {
        Kind::Eds => {}
        Kind::Row => v.extend_from_slice(&f.row.to_be_bytes()),
        Kind::Sample => {
            v.extend_from_slice(&f.row.to_be_bytes());
            v.extend_from_slice(&f.col.to_be_bytes());
        }
        Kind::RowNs => {
            v.extend_from_slice(&f.row.to_be_bytes());
            v.extend_from_slice(&f.ns.unwrap());
        }
        Kind::Ns => v.extend_from_slice(&f.ns.unwrap()),
    }
    v
}

/// A real identifier of any kind.
#[derive(Clone, Copy, Debug, PartialEq)]
enum Id {
    Eds(EdsId),
    Row(RowId),
    Sample(SampleId),
    RowNs(RowNamespaceDataId),
    Ns(NamespaceDataId),
}

impl Id {
    fn new(kind: Kind, f: &Fields) -> Result<Id, String> {
        let ns = || Namespace::from_raw(&f.ns.expect("ns field")).map_err(|e| format!("namespace: {e}"));
        Ok(match kind {
            Kind::Eds => Id::Eds(EdsId::new(f.height).map_err(|e| e.to_string())?),
            Kind::Row => Id::Row(RowId::new(f.row, f.height).map_err(|e| e.to_string())?),
            Kind::Sample => Id::Sample(SampleId::new(f.row, f.col, f.height).map_err(|e| e.to_string())?),
            Kind::RowNs => Id::RowNs(RowNamespaceDataId::new(ns()?, f.row, f.height).map_err(|e| e.to_string())?),
            Kind::Ns => Id::Ns(NamespaceDataId::new(ns()?, f.height).map_err(|e| e.to_string())?),
        })
    }
    fn decode(kind: Kind, b: &[u8]) -> Result<Id, String> {
        Ok(match kind {
            Kind::Eds => Id::Eds(EdsId::decode(b).map_err(|e| e.to_string())?),
            Kind::Row => Id::Row(RowId::decode(b).map_err(|e| e.to_string())?),
            Kind::Sample => Id::Sample(SampleId::decode(b).map_err(|e| e.to_string())?),
            Kind::RowNs => Id::RowNs(RowNamespaceDataId::decode(b).map_err(|e| e.to_string())?),
            Kind::Ns => Id::Ns(NamespaceDataId::decode(b).map_err(|e| e.to_string())?),
        })
    }
    fn encode(&self) -> Vec<u8> {
        let mut b = BytesMut::new();
        match self {
            Id::Eds(i) => i.encode(&mut b),
            Id::Row(i) => i.encode(&mut b),
            Id::Sample(i) => i.encode(&mut b),
            Id::RowNs(i) => i.encode(&mut b),
            Id::Ns(i) => i.encode(&mut b),
        }
        b.to_vec()
    }
    /// Fields as reported by the public accessors.
    fn fields(&self) -> Fields {
        let nsb = |n: Namespace| -> Option<[u8; 29]> { Some(n.as_bytes().try_into().unwrap()) };
        match self {
            Id::Eds(i) => Fields { height: i.block_height(), row: 0, col: 0, ns: None },
            Id::Row(i) => Fields { height: i.block_height(), row: i.index(), col: 0, ns: None },
            Id::Sample(i) => Fields { height: i.block_height(), row: i.row_index(), col: i.column_index(), ns: None },
            Id::RowNs(i) => Fields { height: i.block_height(), row: i.row_index(), col: 0, ns: nsb(i.namespace()) },
            Id::Ns(i) => Fields { height: i.block_height(), row: 0, col: 0, ns: nsb(i.namespace()) },
        }
    }
    /// CID bytes (exact-size CidGeneric), for the kinds that have CIDs.
    fn cid_bytes(&self) -> Option<Vec<u8>> {
        match self {
            Id::Row(i) => Some(CidGeneric::<10>::from(*i).to_bytes()),
            Id::Sample(i) => Some(CidGeneric::<12>::from(*i).to_bytes()),
            Id::RowNs(i) => Some(CidGeneric::<39>::from(*i).to_bytes()),
            _ => None,
        }
    }
    fn from_cid(kind: Kind, cid: CidGeneric<64>) -> Result<Id, String> {
        Ok(match kind {
            Kind::Row => Id::Row(RowId::try_from(cid).map_err(|e| e.to_string())?),
            Kind::Sample => Id::Sample(SampleId::try_from(cid).map_err(|e| e.to_string())?),
            Kind::RowNs => Id::RowNs(RowNamespaceDataId::try_from(cid).map_err(|e| e.to_string())?),
            _ => unreachable!(),
        })
    }
}

struct Mon<'a> {
    ctx: &'a Ctx,
    counts: RefCell<BTreeMap<String, u64>>,
    evals: Cell<u64>,
}

impl Drop for Mon<'_> {
    fn drop(&mut self) {
        self.ctx.evals(self.evals.get());
        for (k, v) in self.counts.borrow().iter() {
            self.ctx.count_n(k, *v);
        }
    }
}

impl<'a> Mon<'a> {
    fn new(ctx: &'a Ctx) -> Self {
        Mon { ctx, counts: RefCell::new(BTreeMap::new()), evals: Cell::new(0) }
    }
    fn count(&self, name: &str) {
        *self.counts.borrow_mut().entry(name.to_string()).or_insert(0) += 1;
    }
    fn call<T>(&self, kind: Kind, op: &str, input: &dyn Fn() -> vcore::Value, f: impl FnOnce() -> T) -> Option<T> {
        self.evals.set(self.evals.get() + 1);
        match guard(f) {
            Ok(v) => Some(v),
            Err(p) => {
                self.ctx.violation(
                    &format!("C15/{}/{op}/panic/{}", kind.name(), panic_site(&p)),
                    &format!("{}::{op} panicked: {p}", kind.name()),
                    input(),
                );
                None
            }
        }
    }

    /// The real decoder against the layout, on arbitrary bytes.
    fn decode_any(&self, kind: Kind, b: &[u8], family: &str) {
        let inp = || json!({"type": kind.name(), "bytes": hex_full(b), "family": family});
        let want = spec_decode(kind, b);
        let Some(got) = self.call(kind, "decode", &inp, || Id::decode(kind, b)) else { return };
        match (&got, &want) {
            (Err(_), Err(class)) => self.count(&format!("decode.rejected.{class}")),
            (Ok(id), Ok(f)) => {
                let gf = id.fields();
                if &gf != f {
                    self.ctx.violation(
                        &format!("C15/{}/decode/wrong-fields", kind.name()),
                        &format!("decoded fields {gf:?}, layout gives {f:?}"),
                        inp(),
                    );
                }
                let re = id.encode();
                if re != b {
                    self.ctx.violation(
                        &format!("C15/{}/encode/not-inverse-of-decode", kind.name()),
                        &format!("encode(decode(b)) = {}", hex_full(&re)),
                        inp(),
                    );
                }
                self.count("decode.accepted");
            }
            (Ok(id), Err(class)) => self.ctx.violation(
                &format!("C15/{}/decode/accepts-{class}", kind.name()),
                &format!("decode accepted bytes that are not an identifier ({class}): got {:?}", id.fields()),
                inp(),
            ),
            (Err(e), Ok(f)) => self.ctx.violation(
                &format!("C15/{}/decode/rejects-valid", kind.name()),
                &format!("decode rejected the encoding of {f:?}: {e}"),
                inp(),
            ),
        }
    }

    /// The real CID conversion against the rule, for an arbitrary (codec, code, digest).
    fn cid_any(&self, kind: Kind, codec: u64, code: u64, digest: &[u8], family: &str) {
        let (want_codec, want_code) = kind.cid_codes().unwrap();
        let inp = || json!({"type": kind.name(), "codec": codec, "multihash_code": code, "digest": hex_full(digest), "family": family});
        let want: Result<Fields, &'static str> = if codec != want_codec {
            Err("wrong-codec")
        } else if code != want_code {
            Err("wrong-multihash-code")
        } else {
            spec_decode(kind, digest)
        };
        let Ok(mh) = Multihash::<64>::wrap(code, digest) else { return };
        let cid = CidGeneric::<64>::new_v1(codec, mh);
        // also through the wire form of the CID, as the node receives it
        let wire = cid.to_bytes();
        let Some(got) = self.call(kind, "try_from_cid", &inp, || {
            let parsed = CidGeneric::<64>::read_bytes(wire.as_slice()).map_err(|e| format!("cid parse: {e}"))?;
            if parsed != cid {
                return Err("cid wire form does not parse back".to_string());
            }
            let a = Id::from_cid(kind, parsed);
            let b = Id::from_cid(kind, cid);
            match (&a, &b) {
                (Ok(x), Ok(y)) if x == y => {}
                (Err(_), Err(_)) => {}
                _ => return Ok(Err(format!("same CID converted differently: {a:?} vs {b:?}"))),
            }
            Ok(Ok(a))
        }) else {
            return;
        };
        let got = match got {
            Err(e) => {
                self.ctx.inconclusive(&format!("cid crate could not re-read a CID it wrote: {e}"));
                return;
            }
            Ok(Err(e)) => {
                self.ctx.violation(&format!("C15/{}/try_from_cid/unstable", kind.name()), &e, inp());
                return;
            }
            Ok(Ok(r)) => r,
        };
        match (&got, &want) {
            (Err(_), Err(class)) => self.count(&format!("cid.rejected.{class}")),
            (Ok(id), Ok(f)) => {
                if &id.fields() != f {
                    self.ctx.violation(
                        &format!("C15/{}/try_from_cid/wrong-fields", kind.name()),
                        &format!("CID converted to {:?}, digest layout gives {f:?}", id.fields()),
                        inp(),
                    );
                }
                self.count("cid.accepted");
            }
            (Ok(id), Err(class)) => self.ctx.violation(
                &format!("C15/{}/try_from_cid/accepts-{class}", kind.name()),
                &format!("CID accepted although {class}: got {:?}", id.fields()),
                inp(),
            ),
            (Err(e), Ok(f)) => self.ctx.violation(
                &format!("C15/{}/try_from_cid/rejects-valid", kind.name()),
                &format!("CID of {f:?} rejected: {e}"),
                inp(),
            ),
        }
    }

    /// Everything about one valid identifier.
    fn valid_id(&self, kind: Kind, f: &Fields, rng: &mut impl Rng) {
        let inp = || json!({"type": kind.name(), "fields": format!("{f:?}")});
        let want = spec_encode(kind, f);
        let Some(made) = self.call(kind, "new", &inp, || Id::new(kind, f)) else { return };
        let id = match made {
            Ok(id) => id,
            Err(e) => {
                self.ctx.violation(
                    &format!("C15/{}/new/rejects-valid", kind.name()),
                    &format!("new rejected valid fields: {e}"),
                    inp(),
                );
                return;
            }
        };
        if &id.fields() != f {
            self.ctx.violation(
                &format!("C15/{}/new/wrong-fields", kind.name()),
                &format!("accessors give {:?}", id.fields()),
                inp(),
            );
        }
        let Some(enc) = self.call(kind, "encode", &inp, || id.encode()) else { return };
        if enc != want {
            self.ctx.violation(
                &format!("C15/{}/encode/layout", kind.name()),
                &format!("encoded {} but the Shwap layout is {}", hex_full(&enc), hex_full(&want)),
                inp(),
            );
        }
        // bytes -> id
        match self.call(kind, "decode", &inp, || Id::decode(kind, &enc)) {
            Some(Ok(back)) if back == id => self.count("round_trip.bytes"),
            Some(other) => self.ctx.violation(
                &format!("C15/{}/round-trip/bytes", kind.name()),
                &format!("decode(encode(id)) = {other:?}"),
                inp(),
            ),
            None => {}
        }
        // id -> CID -> id
        if let Some((codec, code)) = kind.cid_codes() {
            let Some(Some(cb)) = self.call(kind, "into_cid", &inp, || id.cid_bytes()) else { return };
            match CidGeneric::<64>::read_bytes(cb.as_slice()) {
                Ok(cid) => {
                    let ok_shape = cid.version() == cid::Version::V1
                        && cid.codec() == codec
                        && cid.hash().code() == code
                        && cid.hash().size() as usize == kind.size()
                        && cid.hash().digest() == want.as_slice();
                    if !ok_shape {
                        self.ctx.violation(
                            &format!("C15/{}/into_cid/shape", kind.name()),
                            &format!(
                                "CID v{:?} codec {:#x} mh {:#x} size {} digest {} (want v1 {codec:#x} {code:#x} {} {})",
                                cid.version(),
                                cid.codec(),
                                cid.hash().code(),
                                cid.hash().size(),
                                hex_full(cid.hash().digest()),
                                kind.size(),
                                hex_full(&want)
                            ),
                            inp(),
                        );
                    }
                    match self.call(kind, "try_from_cid", &inp, || Id::from_cid(kind, cid)) {
                        Some(Ok(back)) if back == id => self.count("round_trip.cid"),
                        Some(other) => self.ctx.violation(
                            &format!("C15/{}/round-trip/cid", kind.name()),
                            &format!("try_from(cid(id)) = {other:?}"),
                            inp(),
                        ),
                        None => {}
                    }
                    // the same CID must not convert to the other identifier types
                    for other in [Kind::Row, Kind::Sample, Kind::RowNs] {
                        if other != kind {
                            self.cid_any(other, cid.codec(), cid.hash().code(), cid.hash().digest(), "foreign-cid");
                        }
                    }
                }
                Err(e) => self.ctx.violation(
                    &format!("C15/{}/into_cid/unparsable", kind.name()),
                    &format!("CID bytes {} do not parse: {e}", hex_full(&cb)),
                    inp(),
                ),
            }
        }

        // ---- corruptions of the encoding -------------------------------------------------
        // every length around the right one
        for n in 0..=enc.len() + 3 {
            if n == enc.len() {
                continue;
            }
            let mut b = enc.clone();
            b.resize(n, 0xab);
            self.decode_any(kind, &b, "length");
        }
        // zero height, other fields intact
        let mut z = enc.clone();
        z[..8].fill(0);
        self.decode_any(kind, &z, "zero-height");
        // single-byte change at every position (stays an identifier unless it hits the namespace
        // rule or zeroes the height)
        for pos in 0..enc.len() {
            let mut b = enc.clone();
            b[pos] = match rng.gen_range(0..4) {
                0 => b[pos] ^ (1 << rng.gen_range(0..8)),
                1 => 0,
                2 => 0xff,
                _ => rng.r#gen(),
            };
            self.decode_any(kind, &b, "byte");
        }
        // namespace-specific: every version byte class and a bad prefix byte
        if f.ns.is_some() {
            let off = enc.len() - 29;
            for ver in [1u8, 2, 0x7f, 0x80, 0xfe, if enc[off] == 0 { 0xff } else { 0 }] {
                let mut b = enc.clone();
                b[off] = ver;
                self.decode_any(kind, &b, "ns-version");
            }
            let prefix_len = if enc[off] == 0 { 18 } else { 27 };
            let p = rng.gen_range(0..prefix_len);
            let mut b = enc.clone();
            b[off + 1 + p] ^= 1 << rng.gen_range(0..8);
            self.decode_any(kind, &b, "ns-prefix");
        }

        // ---- corruptions of the CID --------------------------------------------------------
        if let Some((codec, code)) = kind.cid_codes() {
            let others: [u64; 12] = [
                0x7800, 0x7801, 0x7810, 0x7811, 0x7820, 0x7821, 0x7700, 0x7701, 0x55, 0x70, 0x12, 0x00,
            ];
            for c in others {
                if c != codec {
                    self.cid_any(kind, c, code, &enc, "codec");
                }
                if c != code {
                    self.cid_any(kind, codec, c, &enc, "multihash-code");
                }
            }
            self.cid_any(kind, codec ^ (1 << rng.gen_range(0..16)), code, &enc, "codec");
            self.cid_any(kind, codec, code ^ (1 << rng.gen_range(0..16)), &enc, "multihash-code");
            self.cid_any(kind, rng.r#gen::<u64>() >> rng.gen_range(0..64), code, &enc, "codec");
            self.cid_any(kind, codec, rng.r#gen::<u64>() >> rng.gen_range(0..64), &enc, "multihash-code");
            // digest of a wrong length (including the other identifier sizes)
            for n in [0usize, 1, 8, 10, 12, 37, 39, 40, 64, enc.len() - 1, enc.len() + 1] {
                if n != enc.len() {
                    let mut d = enc.clone();
                    d.resize(n, 0x01);
                    self.cid_any(kind, codec, code, &d, "digest-length");
                }
            }
            self.cid_any(kind, codec, code, &z, "zero-height");
            if f.ns.is_some() {
                let off = enc.len() - 29;
                let mut d = enc.clone();
                d[off] = rng.gen_range(1..255);
                self.cid_any(kind, codec, code, &d, "ns-version");
                let mut d = enc.clone();
                d[off + 1 + rng.gen_range(0..18)] ^= 0x40;
                self.cid_any(kind, codec, code, &d, "ns-prefix");
            }
            // a changed digest that is still an identifier
            let mut d = enc.clone();
            let p = rng.gen_range(0..10);
            d[p] = d[p].wrapping_add(1);
            self.cid_any(kind, codec, code, &d, "other-id");
        }
    }
}

const HEIGHTS: [u64; 16] = [
    1,
    2,
    3,
    255,
    256,
    65_535,
    65_536,
    (1 << 32) - 1,
    1 << 32,
    (1 << 56) - 1,
    1 << 56,
    i64::MAX as u64,
    (i64::MAX as u64) + 1,
    u64::MAX - 1,
    u64::MAX,
    0x0100_0000_0000_0000,
];
const INDICES: [u16; 10] = [0, 1, 2, 255, 256, 0x7fff, 0x8000, 0xff00, u16::MAX - 1, u16::MAX];

fn boundary_namespaces() -> Vec<[u8; 29]> {
    let v0 = |s: &[u8]| {
        let mut b = [0u8; 29];
        b[29 - s.len()..].copy_from_slice(s);
        b
    };
    let v255 = |i: u8| {
        let mut b = [0xffu8; 29];
        b[28] = i;
        b
    };
    vec![
        v0(&[]),
        v0(&[1]),
        v0(&[4]),
        v0(&[0xff]),
        v0(&[1, 0]),
        v0(&[0xff; 10]),
        v0(&[1, 2, 3, 4, 5, 6, 7, 8, 9, 10]),
        v255(0),
        v255(0xfe),
        v255(0xff),
    ]
}

fn rand_height(rng: &mut impl Rng) -> u64 {
    match rng.gen_range(0..6) {
        0 => HEIGHTS[rng.gen_range(0..HEIGHTS.len())],
        1 => rng.gen_range(1..1000),
        2 => 1u64 << rng.gen_range(0..64),
        3 => (1u64 << rng.gen_range(1..64)) - 1,
        4 => u64::MAX - rng.gen_range(0..1000),
        _ => rng.r#gen::<u64>().max(1),
    }
}

fn rand_index(rng: &mut impl Rng) -> u16 {
    match rng.gen_range(0..4) {
        0 => INDICES[rng.gen_range(0..INDICES.len())],
        1 => rng.gen_range(0..512),
        _ => rng.r#gen(),
    }
}

fn rand_ns(rng: &mut impl Rng, pool: &[[u8; 29]]) -> [u8; 29] {
    match rng.gen_range(0..4) {
        0 => pool[rng.gen_range(0..pool.len())],
        1 => {
            let mut b = [0xffu8; 29];
            b[28] = rng.r#gen();
            b
        }
        _ => {
            let mut b = [0u8; 29];
            rng.fill(&mut b[19..]);
            b
        }
    }
}

pub fn run(ctx: &Ctx) {
    ctx.rule(
        "Identifiers of all five types over (a) the full product of 16 boundary heights {1,2,3,2^8-1,..,i64::MAX,\
         i64::MAX+1,u64::MAX-1,u64::MAX} x 10 boundary indices {0,1,..,0x7fff,0x8000,u16::MAX} (x10 for the column) x \
         10 boundary namespaces, and (b) random heights/indices/namespaces. For each: new -> accessors, encode vs \
         layout, decode(encode) == id, CID shape and CID round trip (RowId, SampleId, RowNamespaceDataId), CID fed to the \
         other types; corruptions: every length 0..len+3, zero height, one changed byte at every position, namespace \
         version/prefix corruption, 12 foreign + bit-flipped + random codecs and multihash codes, 10 wrong digest \
         lengths. (c) uniformly random byte strings of the right length. The oracle parses the layout itself and demands \
         identical accept/reject, identical fields and encode(decode(b)) == b. Non-trivial = identifier or corrupted \
         encoding whose outcome was compared; distinct by (type, bytes).",
    );
    ctx.assume("spec_decode/spec_encode in harness/vt/src/c15.rs restate the Shwap identifier layouts (CIP-19) and the namespace rule of C14");
    ctx.assume("multihash/cid crates build and parse CIDs faithfully (the monitor cross-checks wire re-parsing)");

    // constants are the specification's
    for (name, got, want) in [
        ("ROW_ID_CODEC", ROW_ID_CODEC, 0x7800u64),
        ("ROW_ID_MULTIHASH_CODE", ROW_ID_MULTIHASH_CODE, 0x7801),
        ("SAMPLE_ID_CODEC", SAMPLE_ID_CODEC, 0x7810),
        ("SAMPLE_ID_MULTIHASH_CODE", SAMPLE_ID_MULTIHASH_CODE, 0x7811),
        ("ROW_NAMESPACE_DATA_CODEC", ROW_NAMESPACE_DATA_CODEC, 0x7820),
        ("ROW_NAMESPACE_DATA_ID_MULTIHASH_CODE", ROW_NAMESPACE_DATA_ID_MULTIHASH_CODE, 0x7821),
    ] {
        ctx.eval();
        if got != want {
            ctx.violation(&format!("C15/constants/{name}"), &format!("{name} = {got:#x}, Shwap says {want:#x}"), json!({}));
        }
    }

    let nss = boundary_namespaces();
    // (a) boundary product
    let mut product: Vec<(Kind, Fields)> = Vec::new();
    for &height in &HEIGHTS {
        product.push((Kind::Eds, Fields { height, row: 0, col: 0, ns: None }));
        for ns in &nss {
            product.push((Kind::Ns, Fields { height, row: 0, col: 0, ns: Some(*ns) }));
        }
        for &row in &INDICES {
            product.push((Kind::Row, Fields { height, row, col: 0, ns: None }));
            for &col in &INDICES {
                product.push((Kind::Sample, Fields { height, row, col, ns: None }));
            }
            for ns in &nss {
                product.push((Kind::RowNs, Fields { height, row, col: 0, ns: Some(*ns) }));
            }
        }
    }
    ctx.extra("boundary_product_ids", json!(product.len()));
    let shards = ctx.cores();
    let product = &product;
    let nss = &nss;
    let n_random = ctx.scale(30_000u64, 2_000_000u64);
    let n_bytes = ctx.scale(300_000u64, 20_000_000u64);
    ctx.par(shards, |shard| {
        let mon = Mon::new(ctx);
        for (i, (kind, f)) in product.iter().enumerate() {
            if i % shards != shard {
                continue;
            }
            let mut rng = ctx.rng(1, i as u64);
            mon.valid_id(*kind, f, &mut rng);
            ctx.nontrivial(&(kind, f));
            mon.count(&format!("ids.{}", kind.name()));
        }
        // (b) random identifiers
        for case in (shard as u64..n_random).step_by(shards) {
            let mut rng = ctx.rng(2, case);
            let kind = KINDS[(case % 5) as usize];
            let has_ns = matches!(kind, Kind::RowNs | Kind::Ns);
            let f = Fields {
                height: rand_height(&mut rng),
                row: if matches!(kind, Kind::Eds | Kind::Ns) { 0 } else { rand_index(&mut rng) },
                col: if kind == Kind::Sample { rand_index(&mut rng) } else { 0 },
                ns: has_ns.then(|| rand_ns(&mut rng, nss)),
            };
            mon.valid_id(kind, &f, &mut rng);
            ctx.nontrivial(&(kind, &f));
            mon.count(&format!("ids.{}", kind.name()));
            ctx.sample(|| json!({"type": kind.name(), "fields": format!("{f:?}"), "encoding": hex_full(&spec_encode(kind, &f))}));
        }
        // zero height at construction
        for kind in KINDS {
            let f = Fields { height: 0, row: shard as u16, col: 7, ns: matches!(kind, Kind::RowNs | Kind::Ns).then(|| nss[shard % nss.len()]) };
            let inp = || json!({"type": kind.name(), "fields": format!("{f:?}")});
            if let Some(Ok(id)) = mon.call(kind, "new", &inp, || Id::new(kind, &f)) {
                ctx.violation(
                    &format!("C15/{}/new/accepts-zero-height", kind.name()),
                    &format!("new accepted height 0: {:?}", id.fields()),
                    inp(),
                );
            } else {
                mon.count("new.rejected.zero-height");
            }
        }
        // (c) arbitrary byte strings of the right length (mostly valid for the namespace-free
        // types, mostly invalid for the others) and near-valid namespace tails
        for case in (shard as u64..n_bytes).step_by(shards) {
            let mut rng = ctx.rng(3, case);
            let kind = KINDS[(case % 5) as usize];
            let mut b = vec![0u8; kind.size()];
            rng.fill(&mut b[..]);
            if rng.gen_bool(0.3) {
                // small height
                b[..7].fill(0);
                b[7] = rng.gen_range(0..3);
            }
            if matches!(kind, Kind::RowNs | Kind::Ns) && rng.gen_bool(0.8) {
                let off = kind.size() - 29;
                let mut ns = rand_ns(&mut rng, nss);
                if rng.gen_bool(0.4) {
                    let p = rng.gen_range(0..29);
                    ns[p] = rng.r#gen();
                }
                b[off..].copy_from_slice(&ns);
            }
            mon.decode_any(kind, &b, "random-bytes");
            ctx.nontrivial(&(kind, &b));
            if let Some((codec, code)) = kind.cid_codes() {
                mon.cid_any(kind, codec, code, &b, "random-digest");
            }
        }
    });

    ctx.floor("round_trip.bytes", 5_000);
    ctx.floor("round_trip.cid", 3_000);
    ctx.floor("decode.accepted", 10_000);
    ctx.floor("decode.rejected.wrong-length", 10_000);
    ctx.floor("decode.rejected.zero-height", 1_000);
    ctx.floor("decode.rejected.invalid-namespace", 5_000);
    ctx.floor("cid.accepted", 3_000);
    ctx.floor("cid.rejected.wrong-codec", 10_000);
    ctx.floor("cid.rejected.wrong-multihash-code", 10_000);
    ctx.floor("cid.rejected.wrong-length", 10_000);
    ctx.floor("cid.rejected.zero-height", 1_000);
    ctx.floor("cid.rejected.invalid-namespace", 1_000);
    ctx.floor("new.rejected.zero-height", 5);
    for k in KINDS {
        ctx.floor(&format!("ids.{}", k.name()), 500);
    }
}
