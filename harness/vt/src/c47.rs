//! C47 — Bech32 addresses round-trip and reject wrong kinds.
//!
//! Oracle: an own bech32 implementation (BIP-173 polymod, charset, hrp expansion, 5<->8 bit
//! conversion; no code shared with the `bech32` crate lumina uses). Every string handed to the
//! real `FromStr` is analysed independently; the real answer must be
//!   * Ok(the 20 payload bytes) when the string is the canonical lowercase bech32 encoding of a
//!     20-byte payload under the prefix of the requested kind (this is exactly what `Display`
//!     must produce),
//!   * Err when the string is malformed, its bech32 checksum does not verify, the prefix is not
//!     the one of the requested kind, or the payload is not 20 bytes,
//!   * free where the property text is silent (all-uppercase / mixed-case spellings, non-canonical
//!     padding) except that an accepted string must still denote the same bytes.

use std::cell::{Cell, RefCell};
use std::collections::BTreeMap;
use std::str::FromStr;

use celestia_types::state::{AccAddress, Address, AddressKind, AddressTrait, ConsAddress, Id, ValAddress};
use vcore::{Ctx, Rng, guard, hex_full, json, panic_site};

const CHARSET: &[u8; 32] = b"qpzry9x8gf2tvdw0s3jn54khce6mua7l";
const BECH32_CONST: u32 = 1;
const BECH32M_CONST: u32 = 0x2bc8_30a3;

/// Whether a payload of 33 symbols (20 bytes plus 5 spare bits, valid bech32 checksum) must be
/// rejected as a "wrong length". Off: the text does not say; the behaviour is only counted
/// (`silent.non-canonical-padding.*`).
const JUDGE_NONCANONICAL: bool = false;

const PREFIX: [&str; 3] = ["celestia", "celestiavaloper", "celestiavalcons"];
const KIND_NAME: [&str; 3] = ["AccAddress", "ValAddress", "ConsAddress"];

fn polymod(values: impl Iterator<Item = u8>) -> u32 {
    const GEN: [u32; 5] = [0x3b6a_57b2, 0x2650_8e6d, 0x1ea1_19fa, 0x3d42_33dd, 0x2a14_62b3];
    let mut chk: u32 = 1;
    for v in values {
        let top = chk >> 25;
        chk = ((chk & 0x01ff_ffff) << 5) ^ (v as u32);
        for (i, g) in GEN.iter().enumerate() {
            if (top >> i) & 1 == 1 {
                chk ^= g;
            }
        }
    }
    chk
}

fn hrp_expand(hrp: &str) -> Vec<u8> {
    let mut v: Vec<u8> = hrp.bytes().map(|b| b >> 5).collect();
    v.push(0);
    v.extend(hrp.bytes().map(|b| b & 31));
    v
}

/// 8-bit bytes to 5-bit groups with zero padding.
fn to5(data: &[u8]) -> Vec<u8> {
    let (mut acc, mut bits, mut out) = (0u32, 0u32, Vec::new());
    for b in data {
        acc = (acc << 8) | *b as u32;
        bits += 8;
        while bits >= 5 {
            bits -= 5;
            out.push(((acc >> bits) & 31) as u8);
        }
    }
    if bits > 0 {
        out.push(((acc << (5 - bits)) & 31) as u8);
    }
    out
}

/// 5-bit groups to bytes. Returns (bytes, canonical): canonical = the incomplete trailing group
/// has at most 4 bits and they are zero (BIP-173).
fn to8(data: &[u8]) -> (Vec<u8>, bool) {
    let (mut acc, mut bits, mut out) = (0u32, 0u32, Vec::new());
    for v in data {
        acc = ((acc << 5) | *v as u32) & 0xfff;
        bits += 5;
        if bits >= 8 {
            bits -= 8;
            out.push(((acc >> bits) & 0xff) as u8);
        }
    }
    let canonical = bits < 5 && (acc & ((1 << bits) - 1)) == 0;
    (out, canonical)
}

/// Own encoder: `hrp` + "1" + data symbols + 6 checksum symbols for the given checksum constant.
fn encode5(hrp: &str, data5: &[u8], constant: u32) -> String {
    let mut values = hrp_expand(hrp);
    values.extend_from_slice(data5);
    values.extend_from_slice(&[0; 6]);
    let pm = polymod(values.into_iter()) ^ constant;
    let mut s = String::from(hrp);
    s.push('1');
    for v in data5 {
        s.push(CHARSET[*v as usize] as char);
    }
    for i in 0..6 {
        s.push(CHARSET[((pm >> (5 * (5 - i))) & 31) as usize] as char);
    }
    s
}

fn encode(hrp: &str, payload: &[u8], constant: u32) -> String {
    encode5(hrp, &to5(payload), constant)
}

#[derive(Debug, Clone, Copy, PartialEq, Eq)]
enum Case {
    Lower,
    Upper,
    Mixed,
}

#[derive(Debug, Clone, Copy, PartialEq, Eq)]
enum Checksum {
    Bech32,
    Bech32m,
    Bad,
}

#[derive(Debug, Clone)]
struct Analysis {
    hrp_lower: String,
    case: Case,
    checksum: Checksum,
    payload: Vec<u8>,
    canonical_padding: bool,
}

/// Independent structural analysis of a candidate bech32 string. Err = malformed (class).
fn analyse(s: &str) -> Result<Analysis, &'static str> {
    if s.is_empty() {
        return Err("empty");
    }
    if !s.bytes().all(|b| (33..=126).contains(&b)) {
        return Err("charset");
    }
    let has_lower = s.bytes().any(|b| b.is_ascii_lowercase());
    let has_upper = s.bytes().any(|b| b.is_ascii_uppercase());
    let case = match (has_lower, has_upper) {
        (true, true) => Case::Mixed,
        (false, true) => Case::Upper,
        _ => Case::Lower,
    };
    let Some(pos) = s.rfind('1') else { return Err("no-separator") };
    let hrp_lower = s[..pos].to_ascii_lowercase();
    if hrp_lower.is_empty() {
        return Err("empty-hrp");
    }
    let data_part = s[pos + 1..].to_ascii_lowercase();
    if data_part.len() < 6 {
        return Err("short-data");
    }
    let mut data5 = Vec::with_capacity(data_part.len());
    for c in data_part.bytes() {
        match CHARSET.iter().position(|x| *x == c) {
            Some(v) => data5.push(v as u8),
            None => return Err("data-charset"),
        }
    }
    let pm = polymod(hrp_expand(&hrp_lower).into_iter().chain(data5.iter().copied()));
    let checksum = if pm == BECH32_CONST {
        Checksum::Bech32
    } else if pm == BECH32M_CONST {
        Checksum::Bech32m
    } else {
        Checksum::Bad
    };
    let (payload, canonical_padding) = to8(&data5[..data5.len() - 6]);
    Ok(Analysis { hrp_lower, case, checksum, payload, canonical_padding })
}

/// What the property demands of parsing `s` as an address whose admissible prefixes are `prefixes`.
#[derive(Debug, Clone, PartialEq, Eq)]
enum Demand {
    /// must be Ok with exactly these bytes (and, for `Address`, this kind index)
    Accept(Vec<u8>, usize),
    /// must be Err; the class names why
    Reject(&'static str),
    /// text is silent: Err is fine, Ok must denote these bytes / kind
    Free(Vec<u8>, usize, &'static str),
}

fn demand(s: &str, prefixes: &[usize]) -> Demand {
    let a = match analyse(s) {
        Ok(a) => a,
        Err(_) => return Demand::Reject("malformed"),
    };
    match a.checksum {
        Checksum::Bad => return Demand::Reject("bad-checksum"),
        Checksum::Bech32m => return Demand::Reject("bech32m-checksum"),
        Checksum::Bech32 => {}
    }
    let Some(kind) = prefixes.iter().copied().find(|k| PREFIX[*k] == a.hrp_lower) else {
        return Demand::Reject("other-prefix");
    };
    if a.payload.len() != 20 {
        return Demand::Reject("wrong-length");
    }
    if !a.canonical_padding {
        // 33 data symbols: 20 bytes + 5 spare bits. BIP-173 and the cosmos-sdk decoder refuse it
        // (an incomplete group must be < 5 bits and zero); lumina drops the spare symbol. The
        // property text speaks of "wrong lengths" without saying whether this is one.
        if JUDGE_NONCANONICAL {
            return Demand::Reject("non-canonical-padding");
        }
        return Demand::Free(a.payload, kind, "non-canonical-padding");
    }
    match a.case {
        Case::Lower => Demand::Accept(a.payload, kind),
        Case::Upper => Demand::Free(a.payload, kind, "all-uppercase"),
        Case::Mixed => Demand::Free(a.payload, kind, "mixed-case"),
    }
}

struct Mon<'a> {
    ctx: &'a Ctx,
    counts: RefCell<BTreeMap<String, u64>>,
    evals: Cell<u64>,
}

impl Drop for Mon<'_> {
    fn drop(&mut self) {
        self.ctx.evals(self.evals.get());
        for (k, v) in self.counts.borrow().iter() {
            self.ctx.count_n(k, *v);
        }
    }
}

impl<'a> Mon<'a> {
    fn new(ctx: &'a Ctx) -> Self {
        Mon { ctx, counts: RefCell::new(BTreeMap::new()), evals: Cell::new(0) }
    }
    fn count(&self, name: &str) {
        let mut c = self.counts.borrow_mut();
        match c.get_mut(name) {
            Some(v) => *v += 1,
            None => {
                c.insert(name.to_string(), 1);
            }
        }
    }

    /// Parse `s` as the typed address of kind `k` (0..3) or as the `Address` enum (k = 3); returns
    /// (bytes, kind index) on Ok.
    fn real_parse(&self, k: usize, s: &str, family: &str) -> Option<Result<(Vec<u8>, usize), String>> {
        self.evals.set(self.evals.get() + 1);
        let r = guard(|| match k {
            0 => AccAddress::from_str(s).map(|a| (a.as_bytes().to_vec(), 0)).map_err(|e| e.to_string()),
            1 => ValAddress::from_str(s).map(|a| (a.as_bytes().to_vec(), 1)).map_err(|e| e.to_string()),
            2 => ConsAddress::from_str(s).map(|a| (a.as_bytes().to_vec(), 2)).map_err(|e| e.to_string()),
            _ => Address::from_str(s)
                .map(|a| {
                    let kind = match a.kind() {
                        AddressKind::Account => 0,
                        AddressKind::Validator => 1,
                        AddressKind::Consensus => 2,
                    };
                    (a.as_bytes().to_vec(), kind)
                })
                .map_err(|e| e.to_string()),
        });
        match r {
            Ok(v) => Some(v),
            Err(p) => {
                self.ctx.violation(
                    &format!("C47/parse/panic/{}", panic_site(&p)),
                    &format!("FromStr panicked: {p}"),
                    json!({"string": s, "as": type_name(k), "family": family}),
                );
                None
            }
        }
    }

    /// Parse `s` as type `k` and compare with the demand.
    fn check(&self, k: usize, s: &str, family: &str) {
        let prefixes: &[usize] = match k {
            0 => &[0],
            1 => &[1],
            2 => &[2],
            _ => &[0, 1, 2],
        };
        let want = demand(s, prefixes);
        let Some(got) = self.real_parse(k, s, family) else { return };
        let detail = || json!({"string": s, "as": type_name(k), "family": family, "oracle": format!("{want:?}")});
        match (&got, &want) {
            (Ok((bytes, kind)), Demand::Accept(wb, wk)) | (Ok((bytes, kind)), Demand::Free(wb, wk, _)) => {
                if bytes != wb || kind != wk {
                    self.ctx.violation(
                        "C47/parse/wrong-id",
                        &format!("parsed to {} kind {kind}, the string encodes {} kind {wk}", hex_full(bytes), hex_full(wb)),
                        detail(),
                    );
                }
                if let Demand::Free(_, _, why) = &want {
                    self.count(&format!("silent.{why}.accepted"));
                } else {
                    self.count(&format!("{family}.accepted"));
                }
            }
            (Err(_), Demand::Free(_, _, why)) => self.count(&format!("silent.{why}.rejected")),
            (Err(e), Demand::Accept(..)) => self.ctx.violation(
                "C47/parse/rejects-valid",
                &format!("canonical bech32 address rejected: {e}"),
                detail(),
            ),
            (Err(_), Demand::Reject(class)) => {
                self.count(&format!("{family}.rejected"));
                self.count(&format!("rejected.{class}"));
            }
            (Ok((bytes, kind)), Demand::Reject(class)) => self.ctx.violation(
                &format!("C47/parse/accepts-{class}"),
                &format!("accepted ({class}) as {} kind {kind}", hex_full(bytes)),
                detail(),
            ),
        }
    }

    /// Check against all four target types.
    fn check_all(&self, s: &str, family: &str) {
        for k in 0..4 {
            self.check(k, s, family);
        }
    }

    fn address(&self, kind: usize, id: [u8; 20], rng: &mut impl Rng, full: bool) {
        let inp = || json!({"kind": KIND_NAME[kind], "id": hex_full(&id)});
        self.evals.set(self.evals.get() + 1);
        let shown = guard(|| match kind {
            0 => (AccAddress::new(Id::new(id)).to_string(), Address::from(AccAddress::new(Id::new(id))).to_string()),
            1 => (ValAddress::new(Id::new(id)).to_string(), Address::from(ValAddress::new(Id::new(id))).to_string()),
            _ => (ConsAddress::new(Id::new(id)).to_string(), Address::from(ConsAddress::new(Id::new(id))).to_string()),
        });
        let (s, s_enum) = match shown {
            Ok(x) => x,
            Err(p) => {
                self.ctx.violation(&format!("C47/display/panic/{}", panic_site(&p)), &format!("Display panicked: {p}"), inp());
                return;
            }
        };
        let want = encode(PREFIX[kind], &id, BECH32_CONST);
        if s != want || s_enum != want {
            self.ctx.violation(
                "C47/display/not-bech32-with-own-prefix",
                &format!("Display gives {s} (enum: {s_enum}), bech32({}, id) is {want}", PREFIX[kind]),
                inp(),
            );
        }
        // round trip through every target type (the wrong kinds must refuse it)
        self.check_all(&s, "display");
        self.count("round_trip.display_parse");
        // trait accessors
        let acc_ok = match kind {
            0 => {
                let a = AccAddress::new(Id::new(id));
                a.kind() == AddressKind::Account && a.prefix() == PREFIX[0] && a.as_bytes() == id
            }
            1 => {
                let a = ValAddress::new(Id::new(id));
                a.kind() == AddressKind::Validator && a.prefix() == PREFIX[1] && a.as_bytes() == id
            }
            _ => {
                let a = ConsAddress::new(Id::new(id));
                a.kind() == AddressKind::Consensus && a.prefix() == PREFIX[2] && a.as_bytes() == id
            }
        };
        if !acc_ok {
            self.ctx.violation("C47/accessors/mismatch", "kind()/prefix()/as_bytes() disagree with construction", inp());
        }
        // serde (JSON string) round trip of the typed address and of the enum
        self.evals.set(self.evals.get() + 1);
        let serde_ok = guard(|| -> Result<(), String> {
            macro_rules! rt {
                ($t:ty, $v:expr) => {{
                    let v: $t = $v;
                    let js = serde_json::to_string(&v).map_err(|e| e.to_string())?;
                    if js != format!("\"{want}\"") {
                        return Err(format!("JSON form {js} is not the bech32 string"));
                    }
                    let back: $t = serde_json::from_str(&js).map_err(|e| e.to_string())?;
                    if back != v {
                        return Err(format!("{js} decodes to {back:?}"));
                    }
                    let e: Address = serde_json::from_str(&js).map_err(|e| e.to_string())?;
                    if e != Address::from(v) {
                        return Err(format!("{js} decodes to enum {e:?}"));
                    }
                    let js2 = serde_json::to_string(&e).map_err(|e| e.to_string())?;
                    if js2 != js {
                        return Err(format!("enum serializes to {js2}"));
                    }
                }};
            }
            match kind {
                0 => rt!(AccAddress, AccAddress::new(Id::new(id))),
                1 => rt!(ValAddress, ValAddress::new(Id::new(id))),
                _ => rt!(ConsAddress, ConsAddress::new(Id::new(id))),
            }
            // the other typed kinds refuse the JSON form
            let js = format!("\"{want}\"");
            let wrong = match kind {
                0 => serde_json::from_str::<ValAddress>(&js).is_ok() || serde_json::from_str::<ConsAddress>(&js).is_ok(),
                1 => serde_json::from_str::<AccAddress>(&js).is_ok() || serde_json::from_str::<ConsAddress>(&js).is_ok(),
                _ => serde_json::from_str::<AccAddress>(&js).is_ok() || serde_json::from_str::<ValAddress>(&js).is_ok(),
            };
            if wrong {
                return Err("JSON form accepted by an address type of another kind".into());
            }
            Ok(())
        });
        match serde_ok {
            Ok(Ok(())) => self.count("round_trip.serde"),
            Ok(Err(e)) => self.ctx.violation("C47/serde/mismatch", &e, inp()),
            Err(p) => self.ctx.violation(&format!("C47/serde/panic/{}", panic_site(&p)), &p, inp()),
        }

        let bytes = s.as_bytes();
        let n = bytes.len();
        let sep = PREFIX[kind].len();

        // ---- every single-character substitution by a bech32 alphabet symbol, every position ----
        if full {
            let mut m = bytes.to_vec();
            for pos in 0..n {
                let orig = m[pos];
                for &c in CHARSET.iter() {
                    if c == orig {
                        continue;
                    }
                    m[pos] = c;
                    let t = std::str::from_utf8(&m).unwrap();
                    // typed parse of the own kind and the enum (the other kinds are covered by
                    // the sampled families below)
                    self.check(kind, t, "substitution");
                    self.check(3, t, "substitution");
                }
                // symbols outside the alphabet: the separator, excluded letters, punctuation, digit 1
                for &c in b"1bio _-" {
                    if c == orig {
                        continue;
                    }
                    m[pos] = c;
                    let t = std::str::from_utf8(&m).unwrap();
                    self.check(kind, t, "substitution-foreign");
                    self.check(3, t, "substitution-foreign");
                }
                m[pos] = orig;
            }
            self.count("addresses_fully_substituted");
        } else {
            for _ in 0..40 {
                let mut m = bytes.to_vec();
                let pos = rng.gen_range(0..n);
                let mut c = CHARSET[rng.gen_range(0..32)];
                if c == m[pos] {
                    c = CHARSET[(CHARSET.iter().position(|x| *x == c).unwrap() + 1) % 32];
                }
                m[pos] = c;
                self.check_all(std::str::from_utf8(&m).unwrap(), "substitution");
            }
        }

        // ---- case ----
        self.check_all(&s.to_ascii_uppercase(), "case-upper");
        let (hrp, rest) = s.split_at(sep);
        self.check_all(&format!("{}{}", hrp.to_ascii_uppercase(), rest), "case-mixed");
        self.check_all(&format!("{}{}", hrp, rest.to_ascii_uppercase()), "case-mixed");
        for pos in 0..n {
            if bytes[pos].is_ascii_lowercase() && (full || rng.gen_bool(0.1)) {
                let mut m = bytes.to_vec();
                m[pos] = m[pos].to_ascii_uppercase();
                let t = std::str::from_utf8(&m).unwrap();
                self.check(kind, t, "case-flip");
                self.check(3, t, "case-flip");
            }
        }

        // ---- truncations, deletions, insertions ----
        for cut in 0..n {
            if full || cut + 8 >= n || cut <= sep + 1 || rng.gen_bool(0.1) {
                self.check_all(&s[..cut], "truncation");
            }
        }
        for start in 1..n.min(sep + 3) {
            self.check_all(&s[start..], "truncation-front");
        }
        for _ in 0..6 {
            let pos = rng.gen_range(0..n);
            let mut m = bytes.to_vec();
            m.remove(pos);
            self.check_all(std::str::from_utf8(&m).unwrap(), "deletion");
            let mut m = bytes.to_vec();
            m.insert(pos, CHARSET[rng.gen_range(0..32)]);
            self.check_all(std::str::from_utf8(&m).unwrap(), "insertion");
            // adjacent transposition
            if pos + 1 < n && bytes[pos] != bytes[pos + 1] {
                let mut m = bytes.to_vec();
                m.swap(pos, pos + 1);
                self.check_all(std::str::from_utf8(&m).unwrap(), "transposition");
            }
        }
        self.check_all(&format!(" {s}"), "whitespace");
        self.check_all(&format!("{s} "), "whitespace");
        self.check_all(&format!("{s}\n"), "whitespace");

        // ---- 2..4 substitutions (bech32 detects up to 4 errors) ----
        for k in 2..=4usize {
            for _ in 0..4 {
                let mut m = bytes.to_vec();
                for _ in 0..k {
                    let pos = rng.gen_range(sep + 1..n);
                    m[pos] = CHARSET[rng.gen_range(0..32)];
                }
                if m != bytes {
                    self.check_all(std::str::from_utf8(&m).unwrap(), "multi-substitution");
                }
            }
        }

        // ---- other prefixes, valid bech32 checksum over the same payload ----
        for hrp in [
            "cosmos", "celesti", "celestiaa", "celestiaval", "celestiavaloperr", "celestiavalcon", "celestiapub",
            "celestiavaloperpub", "celestiavalconspub", "celestia1", "c", "tia", "celestjavaloper",
        ] {
            self.check_all(&encode(hrp, &id, BECH32_CONST), "other-prefix");
        }
        for hrp in ["CELESTIA", "Celestia", "celestiaValoper"] {
            // encoded over the lowercase hrp, spelled with capitals
            let e = encode(&hrp.to_ascii_lowercase(), &id, BECH32_CONST);
            let l = hrp.len();
            self.check_all(&format!("{hrp}{}", &e[l..]), "case-mixed");
        }

        // ---- wrong payload length, valid bech32 checksum, right prefix ----
        for len in [0usize, 1, 10, 19, 21, 24, 32, 33, 40, 64] {
            let mut p = vec![0u8; len];
            rng.fill(&mut p[..]);
            let l = len.min(20);
            p[..l].copy_from_slice(&id[..l]);
            self.check_all(&encode(PREFIX[kind], &p, BECH32_CONST), "wrong-length");
        }
        // one 5-bit symbol fewer (19 bytes + 3 bits) with a valid checksum
        let d5 = to5(&id);
        self.check_all(&encode5(PREFIX[kind], &d5[..31], BECH32_CONST), "wrong-length");
        // one extra 5-bit symbol (20 bytes + 5 spare bits): not a canonical encoding of any byte
        // string; the property text does not say what happens -> only observed
        let mut d33 = d5.clone();
        d33.push(rng.gen_range(0..32));
        self.check_all(&encode5(PREFIX[kind], &d33, BECH32_CONST), "extra-symbol");

        // ---- checksum variants over the right prefix and payload ----
        self.check_all(&encode(PREFIX[kind], &id, BECH32M_CONST), "checksum-bech32m");
        self.check_all(&encode(PREFIX[kind], &id, 0), "checksum-other-constant");
        self.check_all(&encode(PREFIX[kind], &id, rng.r#gen::<u32>() & 0x3fff_ffff | 2), "checksum-other-constant");
        self.check_all(&format!("{}qqqqqq", &s[..n - 6]), "checksum-zeroed");
        self.check_all(&s[..n - 6], "checksum-stripped");
        // checksum computed over another prefix, glued to this one
        let foreign = encode(PREFIX[(kind + 1) % 3], &id, BECH32_CONST);
        let tail = &foreign[PREFIX[(kind + 1) % 3].len()..];
        self.check_all(&format!("{}{}", PREFIX[kind], tail), "checksum-of-other-prefix");
    }
}

fn type_name(k: usize) -> &'static str {
    match k {
        0 => "AccAddress",
        1 => "ValAddress",
        2 => "ConsAddress",
        _ => "Address",
    }
}

fn self_test(ctx: &Ctx) -> bool {
    // BIP-173 test vectors and lumina-independent known strings validate the oracle itself
    let ok = analyse("A12UEL5L").is_ok_and(|a| a.checksum == Checksum::Bech32 && a.case == Case::Upper)
        && analyse("abcdef1qpzry9x8gf2tvdw0s3jn54khce6mua7lmqqqxw").is_ok_and(|a| a.checksum == Checksum::Bech32)
        && analyse("a1lqfn3a").is_ok_and(|a| a.checksum == Checksum::Bech32m)
        && analyse("split1checkupstagehandshakeupstreamerranterredcaperred2y9e3w").is_ok_and(|a| a.checksum == Checksum::Bech32)
        && analyse("split1checkupstagehandshakeupstreamerranterredcaperred2y9e2w").is_ok_and(|a| a.checksum == Checksum::Bad)
        && encode("cosmos", &[0u8; 20], BECH32_CONST) == "cosmos1qqqqqqqqqqqqqqqqqqqqqqqqqqqqqqqqnrql8a"
        && to8(&to5(&[1, 2, 3, 4, 5, 6, 7, 8, 9, 10, 11, 12, 13, 14, 15, 16, 17, 18, 19, 20])).0.len() == 20;
    if !ok {
        ctx.inconclusive("own bech32 implementation fails its self-test (BIP-173 vectors)");
    }
    ok
}

pub fn run(ctx: &Ctx) {
    ctx.rule(
        "20-byte ids (boundary patterns + random) x 3 kinds. Per address: Display == own bech32(prefix of the kind, id); \
         parse as its own type and as `Address` gives the id back, the two other typed kinds refuse it; serde JSON round \
         trip. For the 'fully substituted' addresses EVERY position x EVERY other bech32 alphabet symbol (31) plus 7 \
         foreign symbols is parsed (own type + enum) and must be refused; all case flips, all truncations. For every \
         address: sampled substitutions, 2..4-symbol errors, deletions/insertions/transpositions/whitespace, 16 other \
         prefixes with valid checksums, 12 wrong payload lengths with valid checksums, bech32m / zero / random checksum \
         constants, zeroed / stripped / foreign-prefix checksums. Each string is analysed by an independent bech32 \
         implementation that decides accept / reject / silent. Non-trivial = address whose families were all driven; \
         distinct by (kind, id).",
    );
    ctx.assume("own BIP-173 implementation in harness/vt/src/c47.rs (self-tested against BIP-173/BIP-350 vectors at start)");
    ctx.assume("the kinds' prefixes are the Celestia ones: celestia / celestiavaloper / celestiavalcons");
    ctx.assume("'bech32' in the property means the BIP-173 checksum constant 1; a bech32m (BIP-350) checksum is a bad bech32 checksum");
    ctx.assume("all-uppercase and mixed-case spellings and a 33-symbol payload (non-canonical padding) are not covered by the text: observed, not judged");
    if !self_test(ctx) {
        return;
    }
    for k in 0..3 {
        let kind = [AddressKind::Account, AddressKind::Validator, AddressKind::Consensus][k];
        ctx.eval();
        if kind.prefix() != PREFIX[k] {
            ctx.violation(
                "C47/prefix-table",
                &format!("{:?}.prefix() = {} (Celestia: {})", kind, kind.prefix(), PREFIX[k]),
                json!({}),
            );
        }
    }

    let n_full = ctx.scale(150u64, 6_000u64);
    let n_light = ctx.scale(6_000u64, 300_000u64);
    let shards = ctx.cores();
    ctx.par(shards, |shard| {
        let mon = Mon::new(ctx);
        for case in (shard as u64..n_full + n_light).step_by(shards) {
            let mut rng = ctx.rng(1, case);
            let full = case < n_full;
            let kind = (case % 3) as usize;
            let mut id = [0u8; 20];
            match (case / 3) % 8 {
                0 if full => id = [0u8; 20],
                1 if full => id = [0xff; 20],
                2 if full => {
                    for (i, b) in id.iter_mut().enumerate() {
                        *b = i as u8 + 1;
                    }
                }
                3 => {
                    let i = rng.gen_range(0..20);
                    id[i] = 1 << rng.gen_range(0..8);
                }
                _ => rng.fill(&mut id),
            }
            mon.address(kind, id, &mut rng, full);
            ctx.nontrivial(&(kind, id));
            mon.count(&format!("addresses.{}", KIND_NAME[kind]));
            ctx.sample(|| json!({"kind": KIND_NAME[kind], "id": hex_full(&id), "bech32": encode(PREFIX[kind], &id, BECH32_CONST), "fully_substituted": full}));
        }
    });
    ctx.extra(
        "exhaustive_per_address",
        json!(format!("for each of the first {n_full} addresses: all positions x all 31 other alphabet symbols (+7 foreign symbols), all single case flips, all truncations")),
    );

    ctx.floor("round_trip.display_parse", 1_000);
    ctx.floor("round_trip.serde", 1_000);
    ctx.floor("display.accepted", 2_000); // own type + enum
    ctx.floor("display.rejected", 2_000); // the two other kinds
    ctx.floor("addresses_fully_substituted", 100);
    ctx.floor("substitution.rejected", 100_000);
    ctx.floor("rejected.bad-checksum", 100_000);
    ctx.floor("rejected.malformed", 10_000);
    ctx.floor("rejected.other-prefix", 10_000);
    ctx.floor("rejected.wrong-length", 10_000);
    for k in KIND_NAME {
        ctx.floor(&format!("addresses.{k}"), 300);
    }
}
