//! C07 — bad-encoding fraud proofs are sound and complete.
//!
//! Workload: honest extended squares (EDS width 4..32) and squares corrupted *after* extension
//! whose header commits to the corruption (roots recomputed over the corrupted shares). Proofs
//! are built through the public raw protobuf (`share.eds.byzantine.pb.BadEncoding`), encoded,
//! decoded with the real `BadEncodingFraudProof::decode` and given to the real
//! `BadEncodingFraudProof::validate(header)`.
//!
//! Ground truth, known by construction and cross-checked with `leopard_codec::encode`:
//! which rows / columns of the committed square are Reed-Solomon codewords.
//!
//! Oracle (property text):
//!  * soundness — a proof for an axis that *is* a codeword consistent with its root must not
//!    validate, whatever it carries (honest shares at their positions, subsets, permuted /
//!    duplicated / substituted shares each with a genuinely valid NMT proof, malformed proofs);
//!  * completeness — for an axis that is *not* a codeword, a proof carrying at least half of the
//!    axis's shares, each proven at its own position, must validate;
//!  * neither may panic.

use std::collections::HashMap;
use std::time::Duration;

use celestia_proto::proof::pb::Proof as RawProof;
use celestia_proto::share::eds::byzantine::pb::{BadEncoding as RawBefp, Share as RawShare};
use celestia_types::consts::appconsts::{AppVersion, SHARE_SIZE};
use celestia_types::fraud_proof::BadEncodingFraudProof;
use celestia_types::nmt::{NS_SIZE, NamespaceProof, NamespacedHashExt, Nmt};
use celestia_types::{AxisType, DataAvailabilityHeader, ExtendedDataSquare, ExtendedHeader, FraudProof};
use prost::Message;
use tendermint_proto::Protobuf;
use vcore::sha::PARITY_NS;
use vcore::{ChaCha8Rng, Ctx, Rng, SeedableRng, SliceRandom, Value, guard, hex_full, json, panic_site, rand_bytes};
use vgen::chain::ChainGen;
use vgen::square::{gen_ods, random_app_version};

const ROW: u8 = 0;
const COL: u8 = 1;
/// First byte of a share after namespace, info byte and sequence length.
const PAYLOAD_OFFSET: usize = NS_SIZE + 1 + 4;

/// A share carried in a proof slot: the cell of the square it was taken from and the tree
/// (row tree of its row / column tree of its column) its NMT proof was made in.
#[derive(Clone, Copy, Debug, PartialEq, Eq, Hash)]
struct Slot {
    row: usize,
    col: usize,
    proof_axis: u8,
}

struct Square {
    k: usize,
    w: usize,
    app: AppVersion,
    cells: Vec<Vec<u8>>,
    eds: ExtendedDataSquare,
    header: ExtendedHeader,
    /// `bad[ROW][i]` / `bad[COL][i]`: the axis is not a codeword (ground truth).
    bad: [Vec<bool>; 2],
    /// cells changed after extension
    modified: Vec<(usize, usize)>,
    family: &'static str,
    nmts: HashMap<(u8, usize), Nmt>,
    proofs: HashMap<(usize, usize, u8), RawProof>,
}

fn axis_cells(cells: &[Vec<u8>], w: usize, axis: u8, idx: usize) -> Vec<Vec<u8>> {
    (0..w)
        .map(|i| if axis == ROW { cells[idx * w + i].clone() } else { cells[i * w + idx].clone() })
        .collect()
}

/// Ground truth by the definition of the code: parity half == encoding of the data half.
fn is_codeword(shares: &[Vec<u8>], k: usize) -> bool {
    let mut v = shares.to_vec();
    leopard_codec::encode(&mut v, k).expect("encode of well-formed shards");
    v == shares
}

impl Square {
    fn build(rng: &mut ChaCha8Rng, cells: Vec<Vec<u8>>, k: usize, app: AppVersion, height: u64, modified: Vec<(usize, usize)>, family: &'static str) -> Option<Square> {
        let w = 2 * k;
        let eds = ExtendedDataSquare::new(cells.clone(), "Leopard".to_string(), app).ok()?;
        let dah = DataAvailabilityHeader::from_eds(&eds);
        let time = tendermint::Time::from_unix_timestamp(1_750_000_000, 0).unwrap();
        let sub = ChaCha8Rng::from_seed(rng.r#gen());
        let mut chain = ChainGen::new(sub, "c07-chain", app.as_u64(), &[10], height, time, Duration::from_secs(6));
        let header = chain.next_with(Some(dah), None, &[]);
        let mut bad = [vec![false; w], vec![false; w]];
        for i in 0..w {
            bad[ROW as usize][i] = !is_codeword(&axis_cells(&cells, w, ROW, i), k);
            bad[COL as usize][i] = !is_codeword(&axis_cells(&cells, w, COL, i), k);
        }
        Some(Square { k, w, app, cells, eds, header, bad, modified, family, nmts: HashMap::new(), proofs: HashMap::new() })
    }

    fn cell(&self, r: usize, c: usize) -> &Vec<u8> {
        &self.cells[r * self.w + c]
    }

    /// Namespace a cell is committed under.
    fn ns(&self, r: usize, c: usize) -> [u8; NS_SIZE] {
        if r < self.k && c < self.k { self.cell(r, c)[..NS_SIZE].try_into().unwrap() } else { PARITY_NS }
    }

    fn proof(&mut self, s: Slot) -> RawProof {
        if let Some(p) = self.proofs.get(&(s.row, s.col, s.proof_axis)) {
            return p.clone();
        }
        let (tree_idx, leaf) = if s.proof_axis == ROW { (s.row, s.col) } else { (s.col, s.row) };
        let eds = &self.eds;
        let nmt = self.nmts.entry((s.proof_axis, tree_idx)).or_insert_with(|| {
            let a = if s.proof_axis == ROW { AxisType::Row } else { AxisType::Col };
            eds.axis_nmt(a, tree_idx as u16).expect("axis nmt")
        });
        let (_, proof) = nmt.get_index_with_proof(leaf);
        let raw = RawProof {
            start: leaf as i64,
            end: leaf as i64 + 1,
            nodes: proof.siblings().iter().map(|h| h.to_vec()).collect(),
            leaf_hash: Vec::new(),
            is_max_namespace_ignored: true,
        };
        debug_assert_eq!(proof.range, (leaf as u32)..(leaf as u32 + 1));
        self.proofs.insert((s.row, s.col, s.proof_axis), raw.clone());
        raw
    }

    fn raw_share(&mut self, s: Slot) -> RawShare {
        let mut data = self.ns(s.row, s.col).to_vec();
        data.extend_from_slice(self.cell(s.row, s.col));
        RawShare { data, proof: Some(self.proof(s)), proof_axis: s.proof_axis as i32 }
    }

    fn raw_befp(&mut self, axis: u8, index: u32, slots: &[Option<Slot>]) -> RawBefp {
        RawBefp {
            header_hash: self.header.hash().as_bytes().to_vec(),
            height: self.header.height(),
            shares: slots.iter().map(|s| s.map(|s| self.raw_share(s)).unwrap_or_default()).collect(),
            index,
            axis: axis as i32,
        }
    }
}

fn own(axis: u8, idx: usize, i: usize) -> (usize, usize) {
    if axis == ROW { (idx, i) } else { (i, idx) }
}

fn own_slots(axis: u8, idx: usize, w: usize, present: &[bool], mix: u8, rng: &mut ChaCha8Rng) -> Vec<Option<Slot>> {
    (0..w)
        .map(|i| {
            if !present[i] {
                return None;
            }
            let (row, col) = own(axis, idx, i);
            let proof_axis = match mix {
                0 => axis,
                1 => 1 - axis,
                _ => rng.gen_range(0..2),
            };
            Some(Slot { row, col, proof_axis })
        })
        .collect()
}

/// Would `validate` find the inner NMT proof of this slot valid? (root chosen as in the spec of the
/// message: same-axis proofs are under the root of the disputed axis, cross proofs under the root
/// of the crossing axis at the slot's position).
fn inner_valid_by_construction(axis: u8, idx: usize, i: usize, s: Slot) -> bool {
    match (axis, s.proof_axis) {
        (ROW, ROW) => s.row == idx,
        (ROW, _) => s.col == i,
        (_, ROW) => s.row == i,
        _ => s.col == idx,
    }
}

#[derive(Debug)]
enum Outcome {
    Accepted,
    Rejected(String),
    Panic(String),
}

fn run_proof(header: &ExtendedHeader, bytes: &[u8]) -> Outcome {
    match guard(|| -> Result<(), String> {
        let befp = BadEncodingFraudProof::decode_vec(bytes).map_err(|e| format!("decode: {e}"))?;
        befp.validate(header).map_err(|e| e.to_string())
    }) {
        Ok(Ok(())) => Outcome::Accepted,
        Ok(Err(e)) => Outcome::Rejected(e),
        Err(p) => Outcome::Panic(p),
    }
}

#[derive(Clone, Debug)]
struct Class {
    /// the disputed axis is not a codeword
    bad_axis: bool,
    parity_axis: bool,
    /// "own-position" | "position-forged" | "malformed"
    proof_class: &'static str,
    family: String,
}

/// The oracle. Returns the signature of the violation, if any.
/// Message of the unconditional panic in nmt-rs 0.2.5 `hash_nodes` (reached from
/// `NamespaceProof::verify_range` when proof nodes / leaf are not in namespace order).
const NMT_ORDER_PANIC: &str = "left max namespace must be <= right min namespace";

fn judge(c: &Class, o: &Outcome) -> Option<String> {
    let half = if c.parity_axis { "parity-axis" } else { "ods-axis" };
    if let Outcome::Panic(p) = o {
        if p.contains(NMT_ORDER_PANIC) {
            // one defect of the dependency, whatever proof class carried the disordered nodes
            return Some("C07/validate/panic/nmt-rs-hash_nodes-namespace-order".into());
        }
    }
    match (c.proof_class, c.bad_axis, o) {
        // soundness: nothing validates against a codeword axis
        ("position-forged", false, Outcome::Accepted) => Some("C07/validate/position-unbound/accepted".into()),
        ("position-forged", false, Outcome::Panic(p)) => Some(format!("C07/validate/position-unbound/panic/{}", panic_site(p))),
        ("malformed", false, Outcome::Accepted) => Some(format!("C07/validate/malformed/{}/accepted", c.family)),
        ("malformed", false, Outcome::Panic(p)) => Some(format!("C07/validate/malformed/{}/panic/{}", c.family, panic_site(p))),
        ("own-position", false, Outcome::Accepted) => Some(format!("C07/validate/own-position/{half}/honest/accepted")),
        ("own-position", false, Outcome::Panic(p)) => Some(format!("C07/validate/own-position/{half}/honest/panic/{}", panic_site(p))),
        // completeness: >= half of a non-codeword axis, each share at its own position
        ("own-position", true, Outcome::Rejected(_)) => Some(format!("C07/validate/own-position/{half}/bad/rejected")),
        ("own-position", true, Outcome::Panic(p)) => Some(format!("C07/validate/own-position/{half}/bad/panic/{}", panic_site(p))),
        _ => None,
    }
}

struct Mon<'a> {
    ctx: &'a Ctx,
    case: u64,
}

impl Mon<'_> {
    #[allow(clippy::too_many_arguments)]
    fn check(&self, sq: &mut Square, axis: u8, idx: usize, raw: RawBefp, class: Class, slots_descr: Value) {
        let ctx = self.ctx;
        let bytes = raw.encode_to_vec();
        let out = run_proof(&sq.header, &bytes);
        ctx.eval();
        let oname = match &out {
            Outcome::Accepted => "accepted",
            Outcome::Rejected(_) => "rejected",
            Outcome::Panic(_) => "panic",
        };
        let truth = if class.bad_axis { "bad" } else { "honest" };
        ctx.count(&format!("{}_{}_{}", class.proof_class, truth, oname));
        ctx.count(&format!("family_{}_{}", class.family, oname));
        if sq.modified.is_empty() {
            ctx.count("proofs_on_honest_squares");
        } else {
            ctx.count("proofs_on_corrupted_squares");
        }
        if class.proof_class != "malformed" {
            ctx.nontrivial(&(vcore::hash64(&bytes), class.bad_axis));
        }
        let describe = || {
            json!({
                "case": self.case, "eds_width": sq.w, "app_version": sq.app.as_u64(),
                "square": if sq.modified.is_empty() { "honest".to_string() } else { format!("corrupted:{}", sq.family) },
                "modified_cells": sq.modified.iter().take(40).collect::<Vec<_>>(),
                "axis": if axis == ROW { "row" } else { "col" }, "index": idx,
                "axis_is_codeword": !class.bad_axis,
                "proof_class": class.proof_class, "family": class.family,
                "slots": slots_descr,
                "outcome": format!("{out:?}"),
            })
        };
        if let Some(sig) = judge(&class, &out) {
            let mut d = describe();
            d["header"] = serde_json::to_value(&sq.header).unwrap_or(Value::Null);
            d["proof_hex"] = json!(hex_full(&bytes));
            d["class"] = json!({"bad_axis": class.bad_axis, "parity_axis": class.parity_axis,
                                "proof_class": class.proof_class, "family": class.family});
            let msg = match (&out, class.bad_axis) {
                (Outcome::Accepted, false) => format!(
                    "fraud proof ({} / {}) VALIDATED against a header whose {} {idx} is a correct codeword (EDS width {})",
                    class.proof_class, class.family, if axis == ROW { "row" } else { "column" }, sq.w),
                (Outcome::Rejected(e), true) => format!(
                    "fraud proof with >= half of the shares at their own positions REJECTED although {} {idx} is not a codeword (square {}): {e}",
                    if axis == ROW { "row" } else { "column" }, sq.family),
                (Outcome::Panic(p), _) => format!(
                    "validate panicked ({} / {}, axis {} a codeword): {p}",
                    class.proof_class, class.family, if class.bad_axis { "not" } else { "is" }),
                _ => String::new(),
            };
            ctx.violation(&sig, &msg, d);
        } else {
            ctx.sample(describe);
        }
    }
}

fn slots_json(slots: &[Option<Slot>]) -> Value {
    json!(slots
        .iter()
        .map(|s| match s {
            None => Value::Null,
            Some(s) => json!([s.row, s.col, if s.proof_axis == ROW { "R" } else { "C" }]),
        })
        .collect::<Vec<_>>())
}

fn random_subset(rng: &mut ChaCha8Rng, w: usize, n: usize) -> Vec<bool> {
    let mut pos: Vec<usize> = (0..w).collect();
    pos.shuffle(rng);
    let mut v = vec![false; w];
    for p in pos.into_iter().take(n) {
        v[p] = true;
    }
    v
}

/// Own-position proofs (full and subsets of at least half) for one axis.
fn own_position_proofs(mon: &Mon, rng: &mut ChaCha8Rng, sq: &mut Square, axis: u8, idx: usize, rich: bool) {
    let (w, k) = (sq.w, sq.k);
    let bad_axis = sq.bad[axis as usize][idx];
    let parity_axis = idx >= k;
    let mut plans: Vec<(String, Vec<bool>, u8)> = Vec::new();
    for mix in 0..3u8 {
        plans.push((format!("full/mix{mix}"), vec![true; w], mix));
    }
    plans.push(("exact-half-random".into(), random_subset(rng, w, k), 2));
    plans.push(("data-half-only".into(), (0..w).map(|i| i < k).collect(), rng.gen_range(0..3)));
    plans.push(("parity-half-only".into(), (0..w).map(|i| i >= k).collect(), rng.gen_range(0..3)));
    let n = rng.gen_range(k..=w);
    plans.push(("random-subset".into(), random_subset(rng, w, n), 2));
    if rich {
        plans.push(("exact-half-random".into(), random_subset(rng, w, k), 0));
        plans.push(("one-missing".into(), random_subset(rng, w, w - 1), 2));
        // positions of the axis that were modified
        let on_axis: Vec<usize> = sq
            .modified
            .iter()
            .filter(|(r, c)| if axis == ROW { *r == idx } else { *c == idx })
            .map(|(r, c)| if axis == ROW { *c } else { *r })
            .collect();
        if !on_axis.is_empty() {
            // as few modified shares as possible
            let mut untouched: Vec<usize> = (0..w).filter(|i| !on_axis.contains(i)).collect();
            untouched.shuffle(rng);
            let mut present = vec![false; w];
            let mut n = 0;
            for i in untouched.into_iter().chain(on_axis.iter().copied()) {
                if n >= k {
                    break;
                }
                present[i] = true;
                n += 1;
            }
            plans.push(("avoid-modified".into(), present, 2));
            // all modified shares + random others up to at least half
            let mut present = vec![false; w];
            for i in &on_axis {
                present[*i] = true;
            }
            let mut others: Vec<usize> = (0..w).filter(|i| !on_axis.contains(i)).collect();
            others.shuffle(rng);
            let mut n = on_axis.len();
            for i in others {
                if n >= k {
                    break;
                }
                present[i] = true;
                n += 1;
            }
            plans.push(("include-modified".into(), present, 2));
        }
    }
    for (family, present, mix) in plans {
        debug_assert!(present.iter().filter(|p| **p).count() >= k);
        let slots = own_slots(axis, idx, w, &present, mix, rng);
        let raw = sq.raw_befp(axis, idx as u32, &slots);
        let class = Class { bad_axis, parity_axis, proof_class: "own-position", family: format!("own/{family}") };
        mon.check(sq, axis, idx, raw, class, slots_json(&slots));
    }
}

/// Forged proofs over an axis that is a codeword: every carried share has a genuinely valid NMT
/// proof (for the position it was taken from) under the root `validate` checks it against.
fn forged_proofs(mon: &Mon, rng: &mut ChaCha8Rng, sq: &mut Square, axis: u8, idx: usize) {
    let (w, k) = (sq.w, sq.k);
    debug_assert!(!sq.bad[axis as usize][idx]);
    let parity_axis = idx >= k;
    let full: Vec<Option<Slot>> = own_slots(axis, idx, w, &vec![true; w], 0, rng);
    let bytes_at = |sq: &Square, i: usize| {
        let (r, c) = own(axis, idx, i);
        sq.cell(r, c).clone()
    };
    // two positions of the axis holding different bytes
    let mut pair = None;
    for _ in 0..32 {
        let i = rng.gen_range(0..w);
        let j = rng.gen_range(0..w);
        if i != j && bytes_at(sq, i) != bytes_at(sq, j) {
            pair = Some((i, j));
            break;
        }
    }
    let mut forged: Vec<(&'static str, Vec<Option<Slot>>)> = Vec::new();
    if let Some((i, j)) = pair {
        let mut s = full.clone();
        s.swap(i, j);
        forged.push(("swap2", s));
        let mut s = full.clone();
        s[i] = full[j];
        forged.push(("duplicate", s));
        // swap inside a subset so that the rest has to be reconstructed
        let mut present = random_subset(rng, w, k);
        present[i] = true;
        present[j] = true;
        let mut s: Vec<Option<Slot>> = full.iter().enumerate().map(|(n, x)| if present[n] { *x } else { None }).collect();
        s.swap(i, j);
        forged.push(("swap2-subset", s));
    }
    let mut s = full.clone();
    s.rotate_left(1);
    forged.push(("rotate", s));
    let mut s = full.clone();
    s.reverse();
    forged.push(("reverse", s));
    // a share of another axis at the same slot, proven on the crossing axis
    let other = (idx + rng.gen_range(1..w)) % w;
    let i = rng.gen_range(0..w);
    let mut s = full.clone();
    let (r, c) = own(axis, other, i);
    s[i] = Some(Slot { row: r, col: c, proof_axis: 1 - axis });
    forged.push(("cross-substitute", s));
    // the whole of another (correct) axis, every share proven on its crossing axis
    let s: Vec<Option<Slot>> = (0..w)
        .map(|i| {
            let (r, c) = own(axis, other, i);
            Some(Slot { row: r, col: c, proof_axis: 1 - axis })
        })
        .collect();
    forged.push(("other-axis", s));

    for (family, slots) in forged {
        // by construction every inner proof is valid; does the carried data differ from the axis?
        let all_valid = slots.iter().enumerate().all(|(i, s)| s.is_none_or(|s| inner_valid_by_construction(axis, idx, i, s)));
        assert!(all_valid, "forged family {family} must only carry valid inner proofs");
        let differs = slots.iter().enumerate().any(|(i, s)| s.is_some_and(|s| *sq.cell(s.row, s.col) != bytes_at(sq, i)));
        if !differs {
            mon.ctx.count("forged_noop_skipped");
            continue;
        }
        let raw = sq.raw_befp(axis, idx as u32, &slots);
        // sanity of the generator: the inner proofs verify with the NMT library
        if mon.case % 8 == 0 {
            for (i, sh) in raw.shares.iter().enumerate() {
                let Some(p) = &sh.proof else { continue };
                let s = slots[i].unwrap();
                let root = match (axis, s.proof_axis) {
                    (ROW, ROW) => sq.header.dah.row_root(idx as u16),
                    (ROW, _) => sq.header.dah.column_root(i as u16),
                    (_, ROW) => sq.header.dah.row_root(i as u16),
                    _ => sq.header.dah.column_root(idx as u16),
                }
                .unwrap();
                let np = NamespaceProof::try_from(p.clone()).expect("proof");
                let ns = celestia_types::nmt::Namespace::from_raw(&sh.data[..NS_SIZE]).expect("ns");
                np.verify_range(&root, &[&sh.data[NS_SIZE..]], *ns).expect("forged proofs must carry valid inner proofs");
                mon.ctx.count("forged_inner_proofs_verified");
            }
        }
        mon.ctx.count("forged_all_inner_valid");
        let class = Class { bad_axis: false, parity_axis, proof_class: "position-forged", family: format!("forged/{family}") };
        mon.check(sq, axis, idx, raw, class, slots_json(&slots));
    }
}

/// Proofs that are wrong for reasons other than positions; none may validate on a codeword axis.
fn malformed_proofs(mon: &Mon, rng: &mut ChaCha8Rng, sq: &mut Square, other: &mut Square, axis: u8, idx: usize) {
    let (w, k) = (sq.w, sq.k);
    let parity_axis = idx >= k;
    let class = |f: &str| Class { bad_axis: false, parity_axis, proof_class: "malformed", family: f.to_string() };
    let full = own_slots(axis, idx, w, &vec![true; w], 2, rng);

    if k >= 1 {
        let n = rng.gen_range(0..k);
        let present = random_subset(rng, w, n);
        let slots = own_slots(axis, idx, w, &present, 2, rng);
        let raw = sq.raw_befp(axis, idx as u32, &slots);
        mon.check(sq, axis, idx, raw, class("too-few-shares"), slots_json(&slots));
    }
    {
        let mut raw = sq.raw_befp(axis, idx as u32, &full);
        raw.height = if rng.gen_bool(0.5) { raw.height + 1 } else { raw.height.saturating_sub(1).max(1) };
        if raw.height != sq.header.height() {
            mon.check(sq, axis, idx, raw, class("wrong-height"), slots_json(&full));
        }
    }
    {
        let index = *[w as u32, w as u32 + idx as u32, 65_535, 65_536, u32::MAX].choose(rng).unwrap();
        let raw = sq.raw_befp(axis, index, &full);
        mon.check(sq, axis, idx, raw, class("index-out-of-range"), json!({"index": index}));
    }
    {
        let mut slots = full.clone();
        if rng.gen_bool(0.5) {
            slots.pop();
        } else {
            slots.push(full[rng.gen_range(0..w)]);
        }
        let raw = sq.raw_befp(axis, idx as u32, &slots);
        mon.check(sq, axis, idx, raw, class("shares-len"), slots_json(&slots));
    }
    if axis_cells(&other.cells, w, axis, idx) != axis_cells(&sq.cells, w, axis, idx) {
        // shares and proofs of another block whose axis differs (an identical axis of another
        // block would simply be an own-position proof)
        let mut raw = other.raw_befp(axis, idx as u32, &full);
        raw.header_hash = sq.header.hash().as_bytes().to_vec();
        raw.height = sq.header.height();
        mon.check(sq, axis, idx, raw, class("foreign-block"), slots_json(&full));
    }
    {
        // one share altered, proof kept
        let mut raw = sq.raw_befp(axis, idx as u32, &full);
        let i = rng.gen_range(0..w);
        let at = rng.gen_range(NS_SIZE..NS_SIZE + SHARE_SIZE);
        raw.shares[i].data[at] ^= 1 << rng.gen_range(0..8);
        mon.check(sq, axis, idx, raw, class("altered-share"), json!({"slot": i, "byte": at}));
    }
    {
        // one bit of one proof node flipped (hash or namespace-range part), share kept
        let mut raw = sq.raw_befp(axis, idx as u32, &full);
        let i = rng.gen_range(0..w);
        if let Some(p) = raw.shares[i].proof.as_mut() {
            if !p.nodes.is_empty() {
                let n = rng.gen_range(0..p.nodes.len());
                let at = rng.gen_range(0..p.nodes[n].len());
                p.nodes[n][at] ^= 1 << rng.gen_range(0..8);
                mon.check(sq, axis, idx, raw, class("altered-proof-node"), json!({"slot": i, "node": n, "byte": at}));
            }
        }
    }
    {
        // axis type flipped: the shares of row i offered as column i
        let raw = {
            let mut r = sq.raw_befp(axis, idx as u32, &full);
            r.axis = (1 - axis) as i32;
            r
        };
        // the disputed axis is now the crossing one; it is a codeword too only if ground truth says so
        if !sq.bad[(1 - axis) as usize][idx] {
            mon.check(sq, 1 - axis, idx, raw, class("axis-flipped"), slots_json(&full));
        }
    }
}

/// Corrupt a copy of an honest square after extension. Returns the cells, the modified
/// coordinates, the family and the target axis.
fn corrupt(rng: &mut ChaCha8Rng, honest: &Square) -> (Vec<Vec<u8>>, Vec<(usize, usize)>, &'static str, u8, usize) {
    let (w, k) = (honest.w, honest.k);
    let mut cells = honest.cells.clone();
    let axis: u8 = rng.gen_range(0..2);
    let parity_axis = rng.gen_bool(0.4);
    let idx = if parity_axis { rng.gen_range(k..w) } else { rng.gen_range(0..k) };
    let at = |i: usize| own(axis, idx, i);
    let mut modified = Vec::new();
    let families: &[&'static str] = if parity_axis {
        &["parity-share-random", "payload-k+1", "parity-half-random", "parity-ns-bitflip", "whole-axis-random", "first-half-random"]
    } else {
        &["parity-share-random", "payload-k+1", "ods-payload-byte", "ods-share-duplicate", "parity-half-random", "parity-ns-bitflip", "payload-all"]
    };
    let family = *families.choose(rng).unwrap();
    let mut set = |cells: &mut Vec<Vec<u8>>, (r, c): (usize, usize), v: Vec<u8>| {
        if cells[r * w + c] != v {
            cells[r * w + c] = v;
            modified.push((r, c));
        }
    };
    match family {
        "parity-share-random" => {
            let i = if parity_axis { rng.gen_range(0..w) } else { rng.gen_range(k..w) };
            set(&mut cells, at(i), rand_bytes(rng, SHARE_SIZE));
        }
        "payload-k+1" | "payload-all" => {
            let n = if family == "payload-all" { w } else { k + 1 };
            for i in (0..w).collect::<Vec<_>>().choose_multiple(rng, n).copied().collect::<Vec<_>>() {
                let (r, c) = at(i);
                let mut v = cells[r * w + c].clone();
                let tail = rand_bytes(rng, SHARE_SIZE - PAYLOAD_OFFSET);
                v[PAYLOAD_OFFSET..].copy_from_slice(&tail);
                set(&mut cells, (r, c), v);
            }
        }
        "ods-payload-byte" => {
            let (r, c) = at(rng.gen_range(0..k));
            let mut v = cells[r * w + c].clone();
            let p = rng.gen_range(PAYLOAD_OFFSET..SHARE_SIZE);
            v[p] ^= 1 << rng.gen_range(0..8);
            set(&mut cells, (r, c), v);
        }
        "ods-share-duplicate" => {
            // overwrite an ODS share with its predecessor on the axis (namespace order is kept
            // along the axis; the crossing order is checked by `ExtendedDataSquare::new`)
            let i = rng.gen_range(1..k);
            let (pr, pc) = at(i - 1);
            let v = cells[pr * w + pc].clone();
            set(&mut cells, at(i), v);
        }
        "parity-half-random" => {
            for i in k..w {
                set(&mut cells, at(i), rand_bytes(rng, SHARE_SIZE));
            }
        }
        "parity-ns-bitflip" => {
            let i = if parity_axis { rng.gen_range(0..w) } else { rng.gen_range(k..w) };
            let (r, c) = at(i);
            let mut v = cells[r * w + c].clone();
            v[rng.gen_range(0..NS_SIZE)] ^= 1 << rng.gen_range(0..8);
            set(&mut cells, (r, c), v);
        }
        "whole-axis-random" => {
            for i in 0..w {
                set(&mut cells, at(i), rand_bytes(rng, SHARE_SIZE));
            }
        }
        "first-half-random" => {
            for i in 0..k {
                set(&mut cells, at(i), rand_bytes(rng, SHARE_SIZE));
            }
        }
        _ => unreachable!(),
    }
    (cells, modified, family, axis, idx)
}

fn pick_axes(rng: &mut ChaCha8Rng, w: usize, k: usize, all_upto: usize, n: usize) -> Vec<(u8, usize)> {
    if w <= all_upto {
        return (0..2u8).flat_map(|a| (0..w).map(move |i| (a, i))).collect();
    }
    let mut v = Vec::new();
    for a in 0..2u8 {
        // both halves of both axis types, plus the boundary indices
        v.push((a, rng.gen_range(0..k)));
        v.push((a, rng.gen_range(k..w)));
        v.push((a, *[0, k - 1, k, w - 1].choose(rng).unwrap()));
    }
    while v.len() < n {
        v.push((rng.gen_range(0..2), rng.gen_range(0..w)));
    }
    v.sort();
    v.dedup();
    v
}

fn one_case(ctx: &Ctx, case: u64, k: usize) {
    let mut rng = ctx.rng(1, case);
    let rng = &mut rng;
    let mon = Mon { ctx, case };
    let app = random_app_version(rng);
    let w = 2 * k;
    let height = rng.gen_range(1..1_000_000u64);

    let honest_cells = |rng: &mut ChaCha8Rng| -> Vec<Vec<u8>> {
        let (ods, _) = gen_ods(rng, k, app);
        let eds = ExtendedDataSquare::from_ods(ods, app).expect("valid ods");
        eds.data_square().iter().map(|s| s.to_vec()).collect()
    };
    let cells = honest_cells(rng);
    let Some(mut honest) = Square::build(rng, cells, k, app, height, Vec::new(), "honest") else {
        ctx.inconclusive("harness: honest square rejected by ExtendedDataSquare::new");
        return;
    };
    if honest.bad.iter().any(|v| v.iter().any(|b| *b)) {
        ctx.inconclusive("harness: an axis of an honestly extended square is not a codeword by leopard_codec::encode");
        return;
    }
    ctx.count("honest_squares");
    ctx.count(&format!("honest_squares_w{w}"));
    let cells2 = honest_cells(rng);
    let mut other = Square::build(rng, cells2, k, app, height, Vec::new(), "honest").expect("honest");

    // ---- honest block: nothing may validate
    for (axis, idx) in pick_axes(rng, w, k, 8, 10) {
        own_position_proofs(&mon, rng, &mut honest, axis, idx, false);
        forged_proofs(&mon, rng, &mut honest, axis, idx);
        malformed_proofs(&mon, rng, &mut honest, &mut other, axis, idx);
    }

    // ---- corrupted block whose header commits to the corruption
    for _ in 0..2 {
        let (cells, modified, family, t_axis, t_idx) = corrupt(rng, &honest);
        if modified.is_empty() {
            ctx.count("corruption_noop");
            continue;
        }
        let Some(mut bad) = Square::build(rng, cells, k, app, height, modified.clone(), family) else {
            ctx.count("corrupted_square_not_constructible");
            continue;
        };
        // ground truth by construction == ground truth by re-encoding
        let mut want = [vec![false; w], vec![false; w]];
        for (r, c) in &modified {
            want[ROW as usize][*r] = true;
            want[COL as usize][*c] = true;
        }
        if want != bad.bad {
            ctx.inconclusive(&format!("harness: codeword ground truth by construction and by re-encoding disagree (family {family})"));
            return;
        }
        ctx.count("corrupted_squares");
        ctx.count(&format!("corrupted_{family}"));
        ctx.count(if t_idx >= k { "corrupted_target_parity_axis" } else { "corrupted_target_ods_axis" });

        // the target axis, some crossing axes that became non-codewords, some untouched axes
        let mut axes = vec![(t_axis, t_idx)];
        let mut crossing: Vec<(u8, usize)> = (0..w).filter(|i| bad.bad[(1 - t_axis) as usize][*i]).map(|i| (1 - t_axis, i)).collect();
        crossing.shuffle(rng);
        // prefer one crossing axis from each half
        if let Some(x) = crossing.iter().find(|(_, i)| *i < k) {
            axes.push(*x);
        }
        if let Some(x) = crossing.iter().find(|(_, i)| *i >= k) {
            axes.push(*x);
        }
        for (axis, idx) in axes {
            debug_assert!(bad.bad[axis as usize][idx]);
            own_position_proofs(&mon, rng, &mut bad, axis, idx, true);
        }
        let mut good: Vec<(u8, usize)> = (0..2u8).flat_map(|a| (0..w).map(move |i| (a, i))).filter(|(a, i)| !bad.bad[*a as usize][*i]).collect();
        good.shuffle(rng);
        for (axis, idx) in good.into_iter().take(3) {
            own_position_proofs(&mon, rng, &mut bad, axis, idx, false);
            forged_proofs(&mon, rng, &mut bad, axis, idx);
        }
    }
}

fn replay(ctx: &Ctx, doc: &Value) -> bool {
    let d = &doc["detail"];
    let (Some(hx), Some(cl)) = (d["proof_hex"].as_str(), d.get("class")) else {
        return false;
    };
    let Ok(header) = serde_json::from_value::<ExtendedHeader>(d["header"].clone()) else {
        return false;
    };
    let bytes: Vec<u8> = (0..hx.len() / 2).map(|i| u8::from_str_radix(&hx[2 * i..2 * i + 2], 16).unwrap_or(0)).collect();
    let class = Class {
        bad_axis: cl["bad_axis"].as_bool().unwrap_or(false),
        parity_axis: cl["parity_axis"].as_bool().unwrap_or(false),
        proof_class: match cl["proof_class"].as_str() {
            Some("own-position") => "own-position",
            Some("position-forged") => "position-forged",
            _ => "malformed",
        },
        family: cl["family"].as_str().unwrap_or("").to_string(),
    };
    let out = run_proof(&header, &bytes);
    ctx.eval();
    ctx.count("replayed");
    ctx.rule("replay of one recorded (header, fraud proof) pair against the real validate()");
    if let Some(sig) = judge(&class, &out) {
        ctx.violation(&sig, &format!("replayed proof still contradicts the oracle: {out:?}"), d.clone());
    }
    true
}

pub fn run(ctx: &Ctx) {
    if let Some(doc) = &ctx.replay {
        if replay(ctx, doc) {
            return;
        }
    }
    ctx.rule(
        "Honest EDS (width 4,8,16,32; realistic namespace layout; app V1..V7) and copies corrupted after \
         extension in one axis (9 families: random parity share, k+1 / all payloads trashed, one ODS payload bit, \
         duplicated ODS share, random parity half, bit flip in the first 29 bytes of a parity share, whole / \
         first half of a parity axis random) with row/column roots recomputed so that the header commits to \
         the corruption. Per axis (all axes for width <= 8, >= 6 sampled incl. both halves otherwise): proofs \
         with every share at its own position (full, exact half, data half, parity half, random >= half, \
         avoiding / including the modified shares; proof axes same / crossing / mixed), forged proofs \
         (swap, duplicate, rotate, reverse, crossing substitute, whole other axis) and malformed proofs. \
         Non-trivial = own-position or forged proof that passed framing, distinct by (proof bytes, truth); \
         every forged proof carries only inner NMT proofs that are valid by construction (1/8 re-verified \
         with the NMT library) and carries data different from the disputed axis.",
    );
    ctx.assume("leopard_codec::encode (dependency) defines 'is a Reed-Solomon codeword'; agreement with ground truth by construction is checked for every square");
    ctx.assume("ExtendedDataSquare::new / axis_nmt / DataAvailabilityHeader::from_eds are used as the generator of committed (possibly corrupted) squares and of NMT proofs");

    // (ods width, quick, thorough)
    let plan: [(usize, u64, u64); 4] = [(2, 60, 1500), (4, 60, 1500), (8, 50, 1200), (16, 30, 800)];
    let mut jobs: Vec<(usize, u64)> = Vec::new();
    for (k, q, t) in plan {
        for i in 0..ctx.scale(q, t) {
            jobs.push((k, i));
        }
    }
    jobs.sort_by_key(|(k, i)| (*i, std::cmp::Reverse(*k)));
    let shards = ctx.cores();
    ctx.par(shards, |shard| {
        for (n, (k, i)) in jobs.iter().enumerate() {
            if n % shards == shard {
                one_case(ctx, (*k as u64) << 32 | *i, *k);
            }
        }
    });

    // coverage floors: both truths, both outcomes, every class of proof
    ctx.floor("honest_squares", 150);
    ctx.floor("corrupted_squares", 150);
    ctx.floor("corrupted_target_parity_axis", 30);
    ctx.floor("corrupted_target_ods_axis", 30);
    ctx.floor("forged_all_inner_valid", 2_000);
    ctx.floor("forged_inner_proofs_verified", 1_000);
    ctx.floor("proofs_on_honest_squares", 10_000);
    ctx.floor("proofs_on_corrupted_squares", 3_000);
    ctx.floor("own-position_honest_rejected", 1_000);
    ctx.floor("own-position_bad_accepted", 500);
    ctx.floor("malformed_honest_rejected", 2_000);
}
