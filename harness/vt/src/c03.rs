//! C03 — Commit verification enforces the voting-power thresholds.
//!
//! Drives the real `ValidatorSetExt::verify_commit_light` (> 2/3 of the set) and
//! `verify_commit_light_trusting` with `DEFAULT_TRUST_LEVEL` (> 1/3 of the trusted set). The trait is
//! not exported by `celestia-types`, so both are reached through the only public callers:
//! `ExtendedHeader::validate()` on an otherwise consistent header (light) and
//! `ExtendedHeader::verify()` on a non-adjacent, otherwise acceptable pair (trusting). Every commit
//! entry is built by the monitor: the bytes to sign come from an independent
//! `CanonicalVote` encoder (`c03_vote.rs`), so the monitor knows by construction which ed25519
//! key genuinely signed the vote for *this* block (chain id, height, round, block id, the entry's
//! timestamp) and which entries are forged / signed by another key / for another block.
//!
//! Oracle (restating the property text, u128 arithmetic):
//!  * soundness, always:   accepted  =>  3·V > 2·T (light)  resp.  3·V > T (trusting), where T is
//!    the sum of the powers of the set and V the sum of the powers of the set members whose key
//!    genuinely signed the block-commit vote in at least one `Commit`-flag entry (each member once);
//!  * completeness, only on the well-formed sub-population named by the text (height argument =
//!    commit height, one entry per validator, every `Commit`-flag entry carries a genuinely valid
//!    signature of the validator it names, no duplicated member in the set):
//!    accepted  <=>  strict inequality.

#[path = "c03_vote.rs"]
mod c03_vote;

use celestia_types::hash::{Hash, HashExt};
use celestia_types::{ExtendedHeader, ValidatorSet};
use tendermint::block::header::{Header, Version};
use tendermint::block::{Commit, CommitSig, parts};
use tendermint::{Signature, Time, chain};
use vcore::{ChaCha8Rng, Ctx, Rng, SliceRandom, guard, json, panic_site};
use vgen::chain::{BLOCK_PROTOCOL, Val, empty_dah, random_block_id, random_hash};

/// How one commit entry is produced.
#[derive(Clone, Copy, Debug, PartialEq, Eq, Hash)]
enum Kind {
    /// `Commit` flag, genuinely signed by the named validator for this block.
    Valid,
    /// `Nil` flag (signed nil-ish vote; never counts).
    Nil,
    Absent,
    /// `Commit` flag, signature by a key nobody in any set owns.
    Forged,
    /// `Commit` flag, names validator X but signed (correct bytes) by set member `usize`.
    WrongKey(usize),
    /// `Commit` flag, the named validator signed a vote for another block id.
    OtherBlock,
    OtherHeight,
    OtherRound,
    OtherChain,
    /// Valid signature with one bit flipped afterwards.
    BitFlip,
    /// Valid signature, entry timestamp changed afterwards.
    TsChanged,
    /// `Commit` flag without signature.
    NoSig,
}

impl Kind {
    fn class(self) -> &'static str {
        match self {
            Kind::Valid | Kind::Nil | Kind::Absent => "wellformed",
            Kind::Forged => "forged",
            Kind::WrongKey(_) => "wrong-key",
            Kind::OtherBlock => "other-block",
            Kind::OtherHeight => "other-height",
            Kind::OtherRound => "other-round",
            Kind::OtherChain => "other-chain",
            Kind::BitFlip => "bitflip",
            Kind::TsChanged => "timestamp",
            Kind::NoSig => "no-signature",
        }
    }
    fn hostile(self) -> bool {
        !matches!(self, Kind::Valid | Kind::Nil | Kind::Absent)
    }
}

struct Params {
    chain_id: chain::Id,
    height: u64,
    round: u16,
    block_id: tendermint::block::Id,
    base_time: Time,
}

fn params(rng: &mut ChaCha8Rng) -> Params {
    let chain_id: chain::Id = format!("c03-{}", rng.gen_range(0..1000u32)).try_into().unwrap();
    Params {
        chain_id,
        height: match rng.gen_range(0..4) {
            0 => 3,
            1 => rng.gen_range(3..100),
            2 => rng.gen_range(100..10_000_000),
            _ => (i64::MAX as u64) - rng.gen_range(1..5),
        },
        round: *[0u16, 0, 0, 1, 2, 7].choose(rng).unwrap(),
        block_id: random_block_id(rng),
        base_time: Time::from_unix_timestamp(1_700_000_000 + rng.gen_range(0..10_000_000i64), rng.gen_range(0..1_000_000_000))
            .unwrap(),
    }
}

fn sig(bytes: [u8; 64]) -> Option<Signature> {
    Signature::new(bytes).unwrap()
}

/// Build one entry naming `named` (address), produced according to `kind`.
/// `members` are the validators whose keys `WrongKey(j)` refers to.
fn entry(rng: &mut ChaCha8Rng, p: &Params, named: &Val, kind: Kind, idx: usize, members: &[Val]) -> CommitSig {
    let ts = p.base_time.checked_add(std::time::Duration::from_millis(17 * idx as u64)).unwrap();
    let chain = p.chain_id.as_str();
    let good = c03_vote::canonical_vote_bytes(chain, p.height, p.round as u32, &p.block_id, ts);
    let address = named.address();
    let mk = |signature: Option<Signature>, timestamp: Time| CommitSig::BlockIdFlagCommit {
        validator_address: address,
        timestamp,
        signature,
    };
    match kind {
        Kind::Absent => CommitSig::BlockIdFlagAbsent,
        Kind::Nil => CommitSig::BlockIdFlagNil {
            validator_address: address,
            timestamp: ts,
            signature: sig(named.key.sign(b"nil vote").to_bytes()),
        },
        Kind::Valid => mk(sig(named.key.sign(&good).to_bytes()), ts),
        Kind::Forged => mk(sig(Val::new(rng, 1).key.sign(&good).to_bytes()), ts),
        Kind::WrongKey(j) => mk(sig(members[j].key.sign(&good).to_bytes()), ts),
        Kind::OtherBlock => {
            let other = random_block_id(rng);
            let b = c03_vote::canonical_vote_bytes(chain, p.height, p.round as u32, &other, ts);
            mk(sig(named.key.sign(&b).to_bytes()), ts)
        }
        Kind::OtherHeight => {
            let h = if p.height > 1 && rng.r#gen() { p.height - 1 } else { p.height + 1 };
            let b = c03_vote::canonical_vote_bytes(chain, h, p.round as u32, &p.block_id, ts);
            mk(sig(named.key.sign(&b).to_bytes()), ts)
        }
        Kind::OtherRound => {
            let b = c03_vote::canonical_vote_bytes(chain, p.height, p.round as u32 + 1, &p.block_id, ts);
            mk(sig(named.key.sign(&b).to_bytes()), ts)
        }
        Kind::OtherChain => {
            let b = c03_vote::canonical_vote_bytes(&format!("{chain}x"), p.height, p.round as u32, &p.block_id, ts);
            mk(sig(named.key.sign(&b).to_bytes()), ts)
        }
        Kind::BitFlip => {
            let mut s = named.key.sign(&good).to_bytes();
            s[rng.gen_range(0..64)] ^= 1 << rng.gen_range(0..8);
            mk(sig(s), ts)
        }
        Kind::TsChanged => {
            let other = ts.checked_add(std::time::Duration::from_nanos(*[1u64, 1_000_000_000, 86_400_000_000_000].choose(rng).unwrap())).unwrap();
            mk(sig(named.key.sign(&good).to_bytes()), other)
        }
        Kind::NoSig => mk(None, ts),
    }
}

/// A header that is consistent in everything `validate()` looks at except the commit signatures,
/// which the caller fills in afterwards (signing over `commit.block_id` as returned here).
fn stub_header(rng: &mut ChaCha8Rng, p: &Params, height: u64, time: Time, set: ValidatorSet) -> ExtendedHeader {
    let dah = empty_dah();
    let h: tendermint::block::Height = height.try_into().unwrap();
    let proposer_address = set.validators()[0].address;
    let mut header = ExtendedHeader {
        header: Header {
            version: Version {
                block: BLOCK_PROTOCOL,
                app: rng.gen_range(1..=7),
            },
            chain_id: p.chain_id.clone(),
            height: h,
            time,
            last_block_id: Some(random_block_id(rng)),
            last_commit_hash: Some(Hash::default_sha256()),
            data_hash: Some(dah.hash()),
            validators_hash: set.hash(),
            next_validators_hash: set.hash(),
            consensus_hash: random_hash(rng),
            app_hash: Hash::default_sha256().as_bytes().to_vec().try_into().unwrap(),
            last_results_hash: Some(Hash::default_sha256()),
            evidence_hash: Some(Hash::default_sha256()),
            proposer_address,
        },
        commit: Commit {
            height: h,
            round: p.round.into(),
            block_id: tendermint::block::Id {
                hash: Hash::None,
                part_set_header: parts::Header::new(1, random_hash(rng)).unwrap(),
            },
            signatures: vec![],
        },
        validator_set: set,
        dah,
    };
    header.commit.block_id.hash = header.header.hash();
    header
}

/// Power pools of DESIGN §5 C03.
fn powers(rng: &mut ChaCha8Rng, n: usize) -> Vec<u64> {
    let max_total = (i64::MAX / 8) as u64;
    match rng.gen_range(0..8) {
        0 => vec![1; n],
        1 => vec![rng.gen_range(1..1000); n],
        2 => (0..n).map(|_| rng.gen_range(1..4)).collect(),
        3 => (0..n).map(|_| rng.gen_range(1..12)).collect(),
        4 => {
            // one whale around 1/3 or 2/3 of the total
            let mut v: Vec<u64> = (0..n).map(|_| rng.gen_range(1..20)).collect();
            let rest: u64 = v[1..].iter().sum::<u64>().max(1);
            let target = if rng.r#gen() { rest / 2 } else { rest * 2 };
            v[0] = (target as i64 + rng.gen_range(-2..=2)).max(1) as u64;
            v
        }
        5 => {
            // near the maximum total voting power (overflow probes)
            let base = max_total / n as u64;
            (0..n).map(|_| base - rng.gen_range(0..3)).collect()
        }
        6 => {
            // total divisible by three, many exact splits
            let mut v: Vec<u64> = (0..n).map(|_| rng.gen_range(1..6)).collect();
            let s: u64 = v.iter().sum();
            v[0] += (3 - s % 3) % 3;
            v
        }
        _ => (0..n).map(|_| rng.gen_range(1..1_000_000_000)).collect(),
    }
}

/// Validators in the order of `ValidatorSet::new` (duplicates allowed) with the set.
fn make_set(vals: &[Val]) -> (ValidatorSet, Vec<Val>) {
    let infos: Vec<_> = vals.iter().map(|v| v.info()).collect();
    let set = ValidatorSet::new(infos.clone(), infos.first().cloned());
    // map back: position i of the set -> a Val with that address and that power
    let mut pool: Vec<Option<&Val>> = vals.iter().map(Some).collect();
    let ordered = set
        .validators()
        .iter()
        .map(|info| {
            let k = pool
                .iter()
                .position(|v| v.is_some_and(|v| v.address() == info.address && v.power == info.power()))
                .expect("member");
            pool[k].take().unwrap().clone()
        })
        .collect();
    (set, ordered)
}

fn margin_bucket(lhs: u128, rhs: u128) -> &'static str {
    // lhs = 3V, rhs = 2T or T
    if lhs == rhs {
        "eq"
    } else if lhs > rhs {
        if lhs - rhs <= 3 { "above_by_le3" } else { "above" }
    } else if rhs - lhs <= 3 {
        "below_by_le3"
    } else {
        "below"
    }
}

struct Case {
    path: &'static str,
    set_powers: Vec<u64>,
    kinds: Vec<String>,
    labels: Vec<String>,
    v: u128,
    /// power of the distinct set members named by any Commit-flag entry, valid or not
    v_all: u128,
    t: u128,
    wellformed: bool,
    class: String,
}

impl Case {
    fn detail(&self, ctx: &Ctx, stream: u64, case: u64, accepted: &str) -> vcore::Value {
        json!({
            "path": self.path, "stream": stream, "case": case, "seed": ctx.seed,
            "set_powers_in_set_order": self.set_powers,
            "entry_kinds": self.kinds, "entry_names": self.labels,
            "genuine_signing_power_V": self.v.to_string(), "total_power_T": self.t.to_string(),
            "power_named_by_any_commit_entry": self.v_all.to_string(),
            "wellformed": self.wellformed, "class": self.class, "result": accepted,
        })
    }
}

fn judge(ctx: &Ctx, c: &Case, res: Result<Result<(), String>, String>, stream: u64, case: u64) {
    let path = c.path;
    ctx.eval();
    let (lhs, rhs) = if path == "light" { (3 * c.v, 2 * c.t) } else { (3 * c.v, c.t) };
    let enough = lhs > rhs;
    let bucket = margin_bucket(lhs, rhs);
    let mut err = String::new();
    let accepted = match res {
        Err(p) => {
            ctx.count(&format!("{path}.panic"));
            ctx.violation(
                &format!("C03/{path}/panic/{}", panic_site(&p)),
                &format!("commit verification panicked: {p}"),
                c.detail(ctx, stream, case, "panic"),
            );
            return;
        }
        Ok(Ok(())) => true,
        Ok(Err(e)) => {
            err = e;
            false
        }
    };
    let pop = if c.wellformed { "wf" } else { "hostile" };
    ctx.count(&format!("{path}.{pop}.{}", if accepted { "accepted" } else { "rejected" }));
    ctx.count(&format!("{path}.{pop}.margin_{bucket}.{}", if accepted { "accepted" } else { "rejected" }));
    if !c.wellformed {
        ctx.count(&format!("{path}.class.{}.{}", c.class, if accepted { "accepted" } else { "rejected" }));
    }
    ctx.nontrivial(&(path, c.set_powers.len(), bucket, &c.class, accepted));
    if accepted && !enough {
        // Why is the acceptance unjustified? If even counting every Commit-flag entry once (valid
        // or not) stays below the threshold, the threshold arithmetic (or double counting) is at
        // fault; otherwise an invalid entry of the commit must have been counted.
        let all_lhs = 3 * c.v_all;
        let why = if c.class == "dup-in-set" || c.class == "len-mismatch" {
            c.class.clone()
        } else if all_lhs <= rhs {
            if c.class == "duplicate-address" { "double-counted-address".to_string() } else { "threshold".to_string() }
        } else if c.class == "duplicate-address" {
            "counted-invalid-entry".to_string()
        } else {
            format!("counted-{}", c.class)
        };
        ctx.violation(
            &format!("C03/{path}/accepts-insufficient-power/{why}"),
            &format!(
                "{path} verification accepted a commit although genuinely signing power V={} of T={} does not exceed the threshold (input class {})",
                c.v, c.t, c.class
            ),
            c.detail(ctx, stream, case, "accepted"),
        );
    }
    if c.wellformed && !accepted && enough {
        ctx.violation(
            &format!("C03/{path}/rejects-sufficient-power/wellformed"),
            &format!(
                "{path} verification rejected ({err}) a well-formed commit whose signing power V={} of T={} exceeds the threshold",
                c.v, c.t
            ),
            c.detail(ctx, stream, case, "rejected"),
        );
    }
    ctx.sample(|| c.detail(ctx, stream, case, if accepted { "accepted" } else { "rejected" }));
}

fn hostile_kind(rng: &mut ChaCha8Rng, n_members: usize) -> Kind {
    match rng.gen_range(0..9) {
        0 => Kind::Forged,
        1 => Kind::WrongKey(rng.gen_range(0..n_members)),
        2 => Kind::OtherBlock,
        3 => Kind::OtherHeight,
        4 => Kind::OtherRound,
        5 => Kind::OtherChain,
        6 => Kind::BitFlip,
        7 => Kind::TsChanged,
        _ => Kind::NoSig,
    }
}

/// Sum of the powers of the set members (set order `members`) whose key genuinely signed the
/// correct vote in some Commit-flag entry. `entries[k] = (named validator, kind)`.
fn genuine_power(members: &[Val], entries: &[(Val, Kind)]) -> u128 {
    let mut signed: Vec<tendermint::account::Id> = Vec::new();
    for (named, kind) in entries {
        match kind {
            Kind::Valid => signed.push(named.address()),
            Kind::WrongKey(j) => signed.push(members[*j].address()),
            _ => {}
        }
    }
    members
        .iter()
        .filter(|m| signed.contains(&m.address()))
        .map(|m| m.power as u128)
        .sum()
}

/// Power of the distinct set members named by a Commit-flag entry, whatever its signature.
fn named_power(members: &[Val], entries: &[(Val, Kind)]) -> u128 {
    members
        .iter()
        .filter(|m| {
            entries
                .iter()
                .any(|(named, k)| !matches!(k, Kind::Nil | Kind::Absent) && named.address() == m.address())
        })
        .map(|m| m.power as u128)
        .sum()
}

fn first_hostile_class(entries: &[(Val, Kind)]) -> Option<&'static str> {
    entries.iter().find(|(_, k)| k.hostile()).map(|(_, k)| k.class())
}

// ------------------------------------------------------------------------------------------
// light path
// ------------------------------------------------------------------------------------------

fn light_case(ctx: &Ctx, rng: &mut ChaCha8Rng, stream: u64, case: u64, n: usize, mask: Option<u32>) {
    let p = params(rng);
    let pw = powers(rng, n);
    let mut vals: Vec<Val> = pw.iter().map(|p| Val::new(rng, *p)).collect();
    // rarely: a duplicated member in the set (same key twice)
    let dup_in_set = mask.is_none() && n >= 2 && rng.gen_range(0..25) == 0;
    if dup_in_set {
        let k = rng.gen_range(1..n);
        vals[k].key = vals[0].key.clone();
    }
    let (set, members) = make_set(&vals);
    let t: u128 = members.iter().map(|m| m.power as u128).sum();

    // what kind of population
    let mode = if mask.is_some() { 0 } else { rng.gen_range(0..10) };
    let mut entries: Vec<(Val, Kind)> = Vec::with_capacity(n);
    match (mask, mode) {
        (Some(m), _) => {
            let nilmask: u32 = rng.r#gen();
            for i in 0..n {
                let k = if m & (1 << i) != 0 {
                    Kind::Valid
                } else if nilmask & (1 << i) != 0 {
                    Kind::Nil
                } else {
                    Kind::Absent
                };
                entries.push((members[i].clone(), k));
            }
        }
        (None, 0..=4) => {
            // well-formed: signers = a random prefix of a random permutation, so that the signed
            // power sweeps through the threshold; the rest nil/absent.
            let mut order: Vec<usize> = (0..n).collect();
            order.shuffle(rng);
            let take = rng.gen_range(0..=n);
            for i in 0..n {
                let pos = order.iter().position(|x| *x == i).unwrap();
                let k = if pos < take {
                    Kind::Valid
                } else if rng.gen_range(0..3) == 0 {
                    Kind::Nil
                } else {
                    Kind::Absent
                };
                entries.push((members[i].clone(), k));
            }
        }
        _ => {
            // hostile: mostly valid/absent, 1..3 hostile entries
            for i in 0..n {
                let k = match rng.gen_range(0..10) {
                    0..=5 => Kind::Valid,
                    6 => Kind::Nil,
                    _ => Kind::Absent,
                };
                entries.push((members[i].clone(), k));
            }
            for _ in 0..rng.gen_range(1..=3.min(n)) {
                let i = rng.gen_range(0..n);
                entries[i].1 = hostile_kind(rng, n);
            }
        }
    }

    // structural perturbation (only in the hostile mode): number of entries != number of validators
    let mut structural: Option<&'static str> = None;
    if mask.is_none() && mode >= 8 {
        match rng.gen_range(0..4) {
            1 if n >= 2 => {
                entries.pop();
                structural = Some("len-mismatch");
            }
            2 => {
                let extra = entries[rng.gen_range(0..entries.len())].clone();
                entries.push(extra);
                structural = Some("len-mismatch");
            }
            _ => {}
        }
    }

    let mut p = p;
    let mut hdr = stub_header(rng, &p, p.height, p.base_time, set);
    p.block_id = hdr.commit.block_id;
    hdr.commit.signatures = entries
        .iter()
        .enumerate()
        .map(|(i, (named, k))| entry(rng, &p, named, *k, i, &members))
        .collect();
    let v = genuine_power(&members, &entries);
    let hostile = first_hostile_class(&entries);
    let class = structural
        .or(if dup_in_set { Some("dup-in-set") } else { None })
        .or(hostile)
        .unwrap_or("wellformed");
    let wellformed = structural.is_none() && !dup_in_set && hostile.is_none();
    let case_desc = Case {
        path: "light",
        set_powers: members.iter().map(|m| m.power).collect(),
        kinds: entries.iter().map(|(_, k)| format!("{k:?}")).collect(),
        labels: entries
            .iter()
            .map(|(v, _)| members.iter().position(|m| m.address() == v.address()).map(|i| format!("member{i}")).unwrap_or("outsider".into()))
            .collect(),
        v,
        v_all: named_power(&members, &entries),
        t,
        wellformed,
        class: class.to_string(),
    };
    let res = guard(|| hdr.validate().map_err(|e| e.to_string()));
    judge(ctx, &case_desc, res, stream, case);
}

// ------------------------------------------------------------------------------------------
// trusting path
// ------------------------------------------------------------------------------------------

fn trusting_case(ctx: &Ctx, rng: &mut ChaCha8Rng, stream: u64, case: u64, n: usize, mask: Option<u32>) {
    let p = params(rng);
    let pw = powers(rng, n);
    let mut vals: Vec<Val> = pw.iter().map(|p| Val::new(rng, *p)).collect();
    let dup_in_set = mask.is_none() && n >= 2 && rng.gen_range(0..25) == 0;
    if dup_in_set {
        let k = rng.gen_range(1..n);
        vals[k].key = vals[0].key.clone();
    }
    let (set, members) = make_set(&vals);
    let t: u128 = members.iter().map(|m| m.power as u128).sum();
    let n_out = rng.gen_range(0..=3usize);
    let outsiders: Vec<Val> = (0..n_out)
        .map(|_| {
            let pw = rng.gen_range(1..1_000_000);
            Val::new(rng, pw)
        })
        .collect();

    let mode = if mask.is_some() { 0 } else { rng.gen_range(0..10) };
    // entries in the order of the (unknown, untrusted) new set: a shuffle of members + outsiders
    let mut entries: Vec<(Val, Kind)> = Vec::new();
    match (mask, mode) {
        (Some(m), _) => {
            let nilmask: u32 = rng.r#gen();
            for i in 0..n {
                let k = if m & (1 << i) != 0 {
                    Kind::Valid
                } else if nilmask & (1 << i) != 0 {
                    Kind::Nil
                } else {
                    Kind::Absent
                };
                entries.push((members[i].clone(), k));
            }
            for o in &outsiders {
                entries.push((o.clone(), Kind::Valid));
            }
            entries.shuffle(rng);
        }
        (None, 0..=3) => {
            let mut order: Vec<usize> = (0..n).collect();
            order.shuffle(rng);
            let take = rng.gen_range(0..=n);
            for (pos, i) in order.iter().enumerate() {
                // members that left the validator set simply have no entry
                if pos >= take && rng.gen_range(0..3) == 0 {
                    continue;
                }
                let k = if pos < take {
                    Kind::Valid
                } else if rng.r#gen() {
                    Kind::Nil
                } else {
                    Kind::Absent
                };
                entries.push((members[*i].clone(), k));
            }
            for o in &outsiders {
                entries.push((o.clone(), if rng.gen_range(0..4) == 0 { Kind::Absent } else { Kind::Valid }));
            }
            entries.shuffle(rng);
        }
        (None, 4..=6) => {
            // duplicated validator address: one member listed several times with valid signatures,
            // few other signers, so that double counting would cross 1/3
            let a = rng.gen_range(0..n);
            let copies = rng.gen_range(2..=4);
            for _ in 0..copies {
                entries.push((members[a].clone(), Kind::Valid));
            }
            for i in 0..n {
                if i != a && rng.gen_range(0..4) == 0 {
                    entries.push((members[i].clone(), Kind::Valid));
                } else if i != a && rng.r#gen() {
                    entries.push((members[i].clone(), Kind::Absent));
                }
            }
            for o in &outsiders {
                entries.push((o.clone(), Kind::Valid));
            }
            if rng.r#gen() {
                entries.shuffle(rng);
            }
        }
        _ => {
            for i in 0..n {
                let k = match rng.gen_range(0..10) {
                    0..=4 => Kind::Valid,
                    5 => Kind::Nil,
                    _ => Kind::Absent,
                };
                entries.push((members[i].clone(), k));
            }
            for o in &outsiders {
                entries.push((o.clone(), Kind::Valid));
            }
            for _ in 0..rng.gen_range(1..=3) {
                let i = rng.gen_range(0..entries.len());
                entries[i].1 = hostile_kind(rng, n);
            }
            entries.shuffle(rng);
        }
    }
    if entries.is_empty() {
        entries.push((members[0].clone(), Kind::Absent));
    }

    // trusted header (carries the trusted set) and a non-adjacent, later, same-chain untrusted
    // header whose own validator set is irrelevant for `verify`
    let mut p = p;
    let gap = rng.gen_range(2..=p.height - 1).min(1000);
    let trusted_time = p.base_time.checked_sub(std::time::Duration::from_secs(12 * gap)).unwrap();
    let trusted = stub_header(rng, &p, p.height - gap, trusted_time, set);
    let other_set = make_set(&[Val::new(rng, 1)]).0;
    let mut untrusted = stub_header(rng, &p, p.height, p.base_time, other_set);
    p.block_id = untrusted.commit.block_id;
    untrusted.commit.signatures = entries
        .iter()
        .enumerate()
        .map(|(i, (named, k))| entry(rng, &p, named, *k, i, &members))
        .collect();
    let v = genuine_power(&members, &entries);

    // duplicates among non-absent entries naming the same address
    let mut seen = Vec::new();
    let mut dup_addr = false;
    for (named, k) in &entries {
        if *k == Kind::Absent {
            continue;
        }
        if seen.contains(&named.address()) {
            dup_addr = true;
        }
        seen.push(named.address());
    }
    let hostile = first_hostile_class(&entries);
    let class = if dup_addr {
        "duplicate-address"
    } else if dup_in_set {
        "dup-in-set"
    } else {
        hostile.unwrap_or("wellformed")
    };
    let wellformed = !dup_addr && !dup_in_set && hostile.is_none();
    if dup_addr {
        // would counting every entry cross the threshold although counting once does not?
        let naive: u128 = entries
            .iter()
            .filter(|(_, k)| *k == Kind::Valid)
            .filter_map(|(named, _)| members.iter().find(|m| m.address() == named.address()))
            .map(|m| m.power as u128)
            .sum();
        if 3 * naive > t && 3 * v <= t {
            ctx.count("trusting.dup_would_cross_if_double_counted");
        }
    }
    let case_desc = Case {
        path: "trusting",
        set_powers: members.iter().map(|m| m.power).collect(),
        kinds: entries.iter().map(|(_, k)| format!("{k:?}")).collect(),
        labels: entries
            .iter()
            .map(|(v, _)| members.iter().position(|m| m.address() == v.address()).map(|i| format!("member{i}")).unwrap_or("outsider".into()))
            .collect(),
        v,
        v_all: named_power(&members, &entries),
        t,
        wellformed,
        class: class.to_string(),
    };
    let res = guard(|| trusted.verify(&untrusted).map_err(|e| e.to_string()));
    judge(ctx, &case_desc, res, stream, case);
}

pub fn run(ctx: &Ctx) {
    ctx.rule(
        "Each evaluation = one run of the real verify_commit_light (through ExtendedHeader::validate on an otherwise consistent header) \
         or verify_commit_light_trusting(1/3) (through ExtendedHeader::verify on a non-adjacent otherwise acceptable pair) on a commit \
         built by the monitor for a set of 1..10 ed25519 validators (powers: all-1, equal, tiny, one whale near 1/3 or 2/3, \
         total divisible by 3, near MAX_TOTAL_VOTING_POWER, large random). Entries: genuinely signed Commit, Nil, Absent, and \
         hostile ones (forged key, other member's key, signature for another block id/height/round/chain, bit-flipped, \
         timestamp changed after signing, missing signature), duplicated addresses (trusting), duplicated member in the set, \
         length mismatch (light). Sign bytes come from an independent CanonicalVote encoder. \
         Non-trivial = distinct (path, set size, margin bucket of 3V vs threshold, input class, outcome).",
    );
    ctx.assume("ed25519 (ed25519-consensus) and tendermint-rs signature verification are trusted; the independent CanonicalVote encoder is checked against a pinned real-chain vector at start-up");
    ctx.assume("T is the sum of the members' powers (= Set::total_voting_power as computed by tendermint's Set::new)");
    ctx.assume("for a set containing the same validator twice (not producible by an honest chain) the oracle leniently credits both entries");

    if !c03_vote::self_test() {
        ctx.inconclusive("harness: independent CanonicalVote encoder failed its known-answer test");
        return;
    }

    let shards = ctx.cores();
    // random population
    let per_shard = ctx.scale(700u64, 5000);
    ctx.par(shards, |shard| {
        for k in 0..per_shard {
            let case = shard as u64 * 1_000_000 + k;
            let mut rng = ctx.rng(1, case);
            let n = rng.gen_range(1..=10usize);
            light_case(ctx, &mut rng, 1, case, n, None);
            let mut rng = ctx.rng(2, case);
            let n = rng.gen_range(1..=10usize);
            trusting_case(ctx, &mut rng, 2, case, n, None);
        }
    });

    // every signer subset of a few sets (quick: n <= 6, thorough: n <= 10)
    let sets_per_n = ctx.scale(2u64, 6);
    let max_n = ctx.scale(6usize, 10);
    let mut jobs: Vec<(usize, u64)> = Vec::new();
    for n in 1..=max_n {
        for s in 0..sets_per_n {
            jobs.push((n, s));
        }
    }
    let next = std::sync::atomic::AtomicUsize::new(0);
    ctx.par(shards, |_| {
        loop {
            let j = next.fetch_add(1, std::sync::atomic::Ordering::Relaxed);
            let Some(&(n, s)) = jobs.get(j) else { break };
            for mask in 0..(1u32 << n) {
                let case = ((n as u64) << 40) | (s << 32) | mask as u64;
                // same set for every mask of (n, s): the set is drawn first from a per-(n,s) stream
                let mut rng = SubsetRng::new(ctx, 3, n, s, mask);
                light_case(ctx, &mut rng.0, 3, case, n, Some(mask));
                let mut rng = SubsetRng::new(ctx, 4, n, s, mask);
                trusting_case(ctx, &mut rng.0, 4, case, n, Some(mask));
                ctx.count("subset_enumeration_cases");
            }
        }
    });
    ctx.extra("exhaustive_slice", json!(format!("every signer subset (Commit vs Nil/Absent) of {sets_per_n} sets per size 1..={max_n}, both paths")));

    // coverage floors: both outcomes on the well-formed population, exact-boundary rejections,
    // hostile classes observed, double-count opportunities observed
    for path in ["light", "trusting"] {
        ctx.floor(&format!("{path}.wf.accepted"), 200);
        ctx.floor(&format!("{path}.wf.rejected"), 200);
        ctx.floor(&format!("{path}.wf.margin_eq.rejected"), 20);
        ctx.floor(&format!("{path}.wf.margin_above_by_le3.accepted"), 20);
        ctx.floor(&format!("{path}.wf.margin_below_by_le3.rejected"), 20);
        ctx.floor(&format!("{path}.hostile.rejected"), 200);
        for class in ["forged", "wrong-key", "other-block", "other-height", "other-round", "other-chain", "bitflip", "timestamp", "no-signature"] {
            ctx.floor(&format!("{path}.class.{class}.rejected"), 10);
        }
    }
    ctx.floor("trusting.class.duplicate-address.rejected", 100);
    ctx.floor("trusting.dup_would_cross_if_double_counted", 30);
    ctx.floor("light.class.len-mismatch.rejected", 10);
}

/// The per-(n, s) set must be identical for all masks, so the rng handed to the case generator is
/// seeded by (n, s) only; the mask-dependent randomness (nil mask, shuffles) is irrelevant for the
/// oracle.
struct SubsetRng(ChaCha8Rng);
impl SubsetRng {
    fn new(ctx: &Ctx, stream: u64, n: usize, s: u64, _mask: u32) -> Self {
        SubsetRng(ctx.rng(stream, ((n as u64) << 32) | s))
    }
}
