//! C14 — Namespaces are validated, ordered and round-trip.
//!
//! Oracle: the rule restated on raw bytes (`spec_valid`): a namespace is 29 bytes, either
//! `0x00 || 0x00*18 || suffix(10)` or `0xff || 0xff*27 || id(1)`. Every constructor of the real
//! `Namespace` is driven with (version, id) pairs enumerated over all 256 versions x id lengths
//! 0..=40 x base patterns x a corrupted byte at every position, and its Ok/Err answer and result
//! bytes are compared with the rule. Ordering is compared with an own byte-wise lexicographic
//! comparison, `is_reserved` with the two spec bounds written out as literals, and the byte /
//! serde(JSON) / version-0 shorthand forms are round-tripped.

use celestia_types::nmt::{NS_ID_SIZE, NS_ID_V0_SIZE, NS_SIZE, Namespace};
use std::cell::{Cell, RefCell};
use std::collections::BTreeMap;

use vcore::{Ctx, Rng, guard, hex_full, json, panic_site};

/// Maximal primary reserved namespace, literally (celestia-app `MaxPrimaryReservedNamespace`).
const MAX_PRIMARY: [u8; 29] = {
    let mut b = [0u8; 29];
    b[28] = 0xff;
    b
};
/// Minimal secondary reserved namespace, literally (celestia-app `MinSecondaryReservedNamespace`).
const MIN_SECONDARY: [u8; 29] = {
    let mut b = [0xffu8; 29];
    b[28] = 0x00;
    b
};

/// The rule of the property on raw bytes.
fn spec_valid(raw: &[u8]) -> bool {
    if raw.len() != 29 {
        return false;
    }
    match raw[0] {
        0 => raw[1..19].iter().all(|b| *b == 0),
        255 => raw[1..28].iter().all(|b| *b == 0xff),
        _ => false,
    }
}

/// Own lexicographic comparison (does not use slice `Ord`).
fn lex(a: &[u8], b: &[u8]) -> std::cmp::Ordering {
    use std::cmp::Ordering::*;
    let n = a.len().min(b.len());
    for i in 0..n {
        if a[i] < b[i] {
            return Less;
        }
        if a[i] > b[i] {
            return Greater;
        }
    }
    if a.len() < b.len() {
        Less
    } else if a.len() > b.len() {
        Greater
    } else {
        Equal
    }
}

fn spec_reserved(raw: &[u8]) -> bool {
    lex(raw, &MAX_PRIMARY) != std::cmp::Ordering::Greater || lex(raw, &MIN_SECONDARY) != std::cmp::Ordering::Less
}

/// What `Namespace::new(version, id)` must produce: `Some(bytes)` when the pair denotes a
/// namespace (full 28-byte id obeying the prefix rule, or the documented version-0 shorthand of
/// at most 10 bytes, left-padded with zeros), `None` otherwise.
fn spec_new(version: u8, id: &[u8]) -> Option<[u8; 29]> {
    let mut out = [0u8; 29];
    out[0] = version;
    if id.len() == 28 {
        out[1..].copy_from_slice(id);
        return spec_valid(&out).then_some(out);
    }
    if version == 0 && id.len() <= 10 {
        out[29 - id.len()..].copy_from_slice(id);
        return Some(out);
    }
    None
}

/// Why a (version, id) pair is not a namespace; used as the input class of a signature.
fn invalid_class(version: u8, id: &[u8]) -> &'static str {
    if version != 0 && version != 255 {
        "version"
    } else if id.len() != 28 {
        "id-length"
    } else if version == 0 {
        "v0-prefix"
    } else {
        "v255-prefix"
    }
}

const B64: &[u8; 64] = b"ABCDEFGHIJKLMNOPQRSTUVWXYZabcdefghijklmnopqrstuvwxyz0123456789+/";

/// Own standard base64 (with padding), to feed the serde form with chosen raw bytes.
fn b64(data: &[u8]) -> String {
    let mut s = String::new();
    for c in data.chunks(3) {
        let n = (c[0] as u32) << 16 | (*c.get(1).unwrap_or(&0) as u32) << 8 | *c.get(2).unwrap_or(&0) as u32;
        s.push(B64[(n >> 18) as usize & 63] as char);
        s.push(B64[(n >> 12) as usize & 63] as char);
        s.push(if c.len() > 1 { B64[(n >> 6) as usize & 63] as char } else { '=' });
        s.push(if c.len() > 2 { B64[n as usize & 63] as char } else { '=' });
    }
    s
}

/// Per-thread monitor: counters are accumulated locally and flushed into the context on drop
/// (millions of calls per second would otherwise serialise on the context's mutex).
struct Mon<'a> {
    ctx: &'a Ctx,
    counts: RefCell<BTreeMap<String, u64>>,
    evals: Cell<u64>,
}

impl Drop for Mon<'_> {
    fn drop(&mut self) {
        self.ctx.evals(self.evals.get());
        for (k, v) in self.counts.borrow().iter() {
            self.ctx.count_n(k, *v);
        }
    }
}

impl<'a> Mon<'a> {
    fn new(ctx: &'a Ctx) -> Self {
        Mon { ctx, counts: RefCell::new(BTreeMap::new()), evals: Cell::new(0) }
    }

    fn count(&self, name: &str) {
        let mut c = self.counts.borrow_mut();
        match c.get_mut(name) {
            Some(v) => *v += 1,
            None => {
                c.insert(name.to_string(), 1);
            }
        }
    }

    fn call<T>(&self, op: &str, input: &dyn Fn() -> vcore::Value, f: impl FnOnce() -> T) -> Option<T> {
        self.evals.set(self.evals.get() + 1);
        match guard(f) {
            Ok(v) => Some(v),
            Err(p) => {
                self.ctx.violation(
                    &format!("C14/{op}/panic/{}", panic_site(&p)),
                    &format!("{op} panicked: {p}"),
                    input(),
                );
                None
            }
        }
    }

    /// Compare one constructor result with the expected bytes.
    fn check_ctor(&self, op: &str, version: u8, id: &[u8], got: Option<Vec<u8>>, want: Option<[u8; 29]>) {
        let detail = || json!({"op": op, "version": version, "id": hex_full(id), "id_len": id.len()});
        match (&got, &want) {
            (None, None) => self.count(&format!("{op}.rejected")),
            (Some(g), Some(w)) if g.as_slice() == w.as_slice() => self.count(&format!("{op}.accepted")),
            (Some(g), Some(w)) => self.ctx.violation(
                &format!("C14/{op}/wrong-bytes"),
                &format!("{op} built {} but the namespace denoted by the input is {}", hex_full(g), hex_full(w)),
                detail(),
            ),
            (Some(g), None) => {
                let kind = if spec_valid(g) { "accepts-non-namespace-input" } else { "constructs-invalid-namespace" };
                self.ctx.violation(
                    &format!("C14/{op}/{kind}/{}", invalid_class(version, id)),
                    &format!("{op} accepted an input that is not a namespace by the rule; built {}", hex_full(g)),
                    detail(),
                )
            }
            (None, Some(w)) => {
                let class = if id.len() == 28 { if version == 0 { "v0-full" } else { "v255" } } else { "v0-shorthand" };
                self.ctx.violation(
                    &format!("C14/{op}/rejects-valid/{class}"),
                    &format!("{op} rejected the valid namespace {}", hex_full(w)),
                    detail(),
                )
            }
        }
    }

    /// Drive every constructor with one (version, id) pair.
    fn constructors(&self, version: u8, id: &[u8]) {
        let inp = || json!({"version": version, "id": hex_full(id)});
        let want = spec_new(version, id);

        if let Some(r) = self.call("new", &inp, || Namespace::new(version, id).ok().map(|n| n.as_bytes().to_vec())) {
            self.check_ctor("new", version, id, r, want);
        }

        // raw form: version byte followed by the id; only 29 bytes obeying the rule are a namespace
        let mut raw = Vec::with_capacity(1 + id.len());
        raw.push(version);
        raw.extend_from_slice(id);
        let want_raw: Option<[u8; 29]> = spec_valid(&raw).then(|| raw.as_slice().try_into().unwrap());
        if let Some(r) = self.call("from_raw", &inp, || Namespace::from_raw(&raw).ok().map(|n| n.as_bytes().to_vec())) {
            self.check_ctor("from_raw", version, id, r, want_raw);
        }

        if version == 0 {
            if let Some(r) = self.call("new_v0", &inp, || Namespace::new_v0(id).ok().map(|n| n.as_bytes().to_vec())) {
                self.check_ctor("new_v0", 0, id, r, want);
            }
        }
        if version == 255 {
            if let Some(r) = self.call("new_v255", &inp, || Namespace::new_v255(id).ok().map(|n| n.as_bytes().to_vec())) {
                self.check_ctor("new_v255", 255, id, r, want);
            }
        }

        // serde form carrying these raw bytes (JSON string of base64): same rule
        if raw.len() >= 26 && raw.len() <= 32 || version == 0 || version == 255 {
            let js = format!("\"{}\"", b64(&raw));
            if let Some(r) = self.call("serde_de", &inp, || {
                serde_json::from_str::<Namespace>(&js).ok().map(|n| n.as_bytes().to_vec())
            }) {
                self.check_ctor("serde_de", version, id, r, want_raw);
            }
        }
    }

    /// Byte / serde / shorthand / accessor round trips of a valid namespace given by its bytes.
    fn round_trips(&self, raw: &[u8; 29]) {
        let inp = || json!({"namespace": hex_full(raw)});
        let Some(Some(ns)) = self.call("from_raw", &inp, || Namespace::from_raw(raw).ok()) else {
            self.ctx.violation(
                &format!("C14/from_raw/rejects-valid/{}", if raw[0] == 0 { "v0-full" } else { "v255" }),
                "from_raw rejected a valid namespace",
                inp(),
            );
            return;
        };
        let bad = |what: &str, msg: String| self.ctx.violation(&format!("C14/round-trip/{what}"), &msg, inp());

        if ns.as_bytes() != raw {
            bad("as_bytes", format!("as_bytes gives {}", hex_full(ns.as_bytes())));
        }
        if ns.version() != raw[0] || ns.id() != &raw[1..] {
            bad("version-id", format!("version()={} id()={}", ns.version(), hex_full(ns.id())));
        }
        // new(version, id) of the parts
        match self.call("new", &inp, || Namespace::new(ns.version(), ns.id()).ok()) {
            Some(Some(n2)) if n2 == ns && n2.as_bytes() == raw => {}
            Some(other) => bad("new(version,id)", format!("got {:?}", other.map(|n| hex_full(n.as_bytes())))),
            None => {}
        }
        // serde JSON
        match self.call("serde", &inp, || {
            let s = serde_json::to_string(&ns).map_err(|e| e.to_string())?;
            let back: Namespace = serde_json::from_str(&s).map_err(|e| format!("{e} (json {s})"))?;
            Ok::<_, String>((s, back))
        }) {
            Some(Ok((s, back))) => {
                if back != ns || back.as_bytes() != raw {
                    bad("serde", format!("json {s} decodes to {}", hex_full(back.as_bytes())));
                }
                if s == format!("\"{}\"", b64(raw)) {
                    self.count("serde_form_is_base64_of_bytes");
                }
                // serde_json::Value path (owned strings instead of borrowed)
                if let Some(r) = self.call("serde_value", &inp, || {
                    serde_json::to_value(&ns).ok().and_then(|v| serde_json::from_value::<Namespace>(v).ok())
                }) {
                    if r != Some(ns) {
                        bad("serde-value", format!("got {:?}", r.map(|n| hex_full(n.as_bytes()))));
                    }
                }
            }
            Some(Err(e)) => bad("serde", format!("serde round trip failed: {e}")),
            None => {}
        }
        self.count("round_trip.bytes_serde");

        // version-0 shorthand
        if raw[0] == 0 {
            match self.call("id_v0", &inp, || ns.id_v0().map(|s| s.to_vec())) {
                Some(Some(suffix)) => {
                    if suffix.as_slice() != &raw[19..] {
                        bad("id_v0", format!("id_v0 gives {}", hex_full(&suffix)));
                    }
                    match self.call("new_v0", &inp, || Namespace::new_v0(&suffix).ok()) {
                        Some(Some(n2)) if n2 == ns => {}
                        Some(o) => bad("new_v0(id_v0)", format!("got {:?}", o.map(|n| hex_full(n.as_bytes())))),
                        None => {}
                    }
                    // the shortest shorthand denoting the same namespace (leading zeros stripped)
                    let lead = suffix.iter().take_while(|b| **b == 0).count();
                    let short = &suffix[lead..];
                    match self.call("new_v0", &inp, || Namespace::new_v0(short).ok()) {
                        Some(Some(n2)) if n2 == ns => {}
                        Some(o) => bad("new_v0(short)", format!("shorthand {} gives {:?}", hex_full(short), o.map(|n| hex_full(n.as_bytes())))),
                        None => {}
                    }
                    let arr: [u8; NS_ID_V0_SIZE] = suffix.as_slice().try_into().unwrap();
                    if Namespace::const_v0(arr) != ns {
                        bad("const_v0", "const_v0(id_v0) differs".into());
                    }
                    self.count("round_trip.v0_shorthand");
                }
                Some(None) => bad("id_v0", "id_v0 is None for a version-0 namespace".into()),
                None => {}
            }
        } else {
            if Namespace::const_v255(raw[28]) != ns {
                bad("const_v255", "const_v255(last byte) differs".into());
            }
            if ns.id_v0().is_some() {
                self.count("note.id_v0_some_for_v255");
            }
            self.count("round_trip.v255");
        }

        // reserved classification
        if let Some(r) = self.call("is_reserved", &inp, || ns.is_reserved()) {
            let want = spec_reserved(raw);
            if r != want {
                let class = if raw == &MAX_PRIMARY {
                    "at-max-primary"
                } else if raw == &MIN_SECONDARY {
                    "at-min-secondary"
                } else if raw[0] == 0 {
                    "v0"
                } else {
                    "v255"
                };
                self.ctx.violation(
                    &format!("C14/is_reserved/mismatch/{class}"),
                    &format!("is_reserved() = {r}, bounds give {want}"),
                    inp(),
                );
            }
            self.count(if want { "reserved.true" } else { "reserved.false" });
        }
    }

    fn order(&self, a: &[u8; 29], b: &[u8; 29]) {
        let inp = || json!({"a": hex_full(a), "b": hex_full(b)});
        let (Ok(na), Ok(nb)) = (Namespace::from_raw(a), Namespace::from_raw(b)) else {
            return; // reported by round_trips
        };
        let want = lex(a, b);
        if let Some((c, pc, lt, le, eq)) = self.call("cmp", &inp, || (na.cmp(&nb), na.partial_cmp(&nb), na < nb, na <= nb, na == nb)) {
            use std::cmp::Ordering::*;
            if c != want || pc != Some(want) || lt != (want == Less) || le != (want != Greater) || eq != (want == Equal) {
                self.ctx.violation(
                    "C14/ord/not-lexicographic",
                    &format!("cmp={c:?} partial_cmp={pc:?} <:{lt} <=:{le} ==:{eq}; byte order gives {want:?}"),
                    inp(),
                );
            }
            self.count(match want {
                Less => "ord.less",
                Greater => "ord.greater",
                Equal => "ord.equal",
            });
        }
    }
}

fn v0(suffix: &[u8]) -> [u8; 29] {
    let mut b = [0u8; 29];
    b[29 - suffix.len()..].copy_from_slice(suffix);
    b
}

fn v255(id: u8) -> [u8; 29] {
    let mut b = [0xffu8; 29];
    b[28] = id;
    b
}

fn random_valid(rng: &mut impl Rng) -> [u8; 29] {
    match rng.gen_range(0..8) {
        0 => v255(rng.r#gen()),
        1 => v0(&[rng.r#gen()]),
        2 => v0(&[rng.gen_range(0..3), rng.r#gen()]),
        3 => {
            // sparse suffix
            let mut s = [0u8; 10];
            let i = rng.gen_range(0..10);
            s[i] = rng.r#gen();
            v0(&s)
        }
        4 => {
            let mut s = [0xffu8; 10];
            let i = rng.gen_range(0..10);
            s[i] = rng.r#gen();
            v0(&s)
        }
        _ => {
            let mut s = [0u8; 10];
            rng.fill(&mut s);
            v0(&s)
        }
    }
}

pub fn run(ctx: &Ctx) {
    ctx.rule(
        "(a) EXHAUSTIVE slice: every version 0..=255 x every id length 0..=40 x 4 base patterns (all-zero, all-0xff, \
         v0-shaped, v255-shaped; truncated/extended to the length) x {no corruption, each byte position x 5 \
         replacement values (all 256 values for 28-byte ids of versions 0, 1, 254, 255)}: Namespace::new, from_raw(version||id), new_v0 (version 0), new_v255 (version 255) and the \
         serde form of version||id must accept exactly what the raw-byte rule accepts and build exactly those bytes. \
         (b) valid namespaces (all 256 v255 ids, all one-byte and boundary v0 suffixes, random): byte/serde/shorthand \
         round trips, is_reserved vs literal bounds. (c) ordering on all pairs of a 3x256+ lattice and random/clustered \
         pairs vs own lexicographic comparison. Non-trivial = a constructor call whose answer was compared with the \
         rule (distinct by (version class, length, pattern, position)), a round-tripped namespace, a compared pair.",
    );
    ctx.assume("spec_valid / spec_new / lex / spec_reserved in harness/vt/src/c14.rs restate the property on raw bytes");
    ctx.assume("the two reserved bounds are the Celestia constants 0x00*28||0xff and 0xff*28||0x00 (checked against the crate's constants)");
    ctx.assume("an id whose length is neither 28 nor (version 0) <= 10 does not denote a namespace (documented contract of new/new_v0/new_v255)");
    let mon = Mon::new(ctx);

    // the crate's named bounds are the spec values
    for (name, c, want) in [
        ("MAX_PRIMARY_RESERVED", Namespace::MAX_PRIMARY_RESERVED, MAX_PRIMARY),
        ("MIN_SECONDARY_RESERVED", Namespace::MIN_SECONDARY_RESERVED, MIN_SECONDARY),
        ("PRIMARY_RESERVED_PADDING", Namespace::PRIMARY_RESERVED_PADDING, MAX_PRIMARY),
        ("TRANSACTION", Namespace::TRANSACTION, v0(&[1])),
        ("PAY_FOR_BLOB", Namespace::PAY_FOR_BLOB, v0(&[4])),
        ("TAIL_PADDING", Namespace::TAIL_PADDING, v255(0xfe)),
        ("PARITY_SHARE", Namespace::PARITY_SHARE, v255(0xff)),
    ] {
        ctx.eval();
        if c.as_bytes() != want {
            ctx.violation(
                &format!("C14/constants/{name}"),
                &format!("{name} = {} but the Celestia constant is {}", hex_full(c.as_bytes()), hex_full(&want)),
                json!({"constant": name}),
            );
        }
    }
    if NS_SIZE != 29 || NS_ID_SIZE != 28 || NS_ID_V0_SIZE != 10 {
        ctx.violation("C14/constants/sizes", "NS_SIZE/NS_ID_SIZE/NS_ID_V0_SIZE differ from 29/28/10", json!({}));
    }

    // (a) exhaustive constructor slice
    const MAXLEN: usize = 40;
    let repl: [u8; 5] = [0x00, 0x01, 0x80, 0xfe, 0xff];
    let shards = ctx.cores();
    ctx.par(shards, |shard| {
        let mon = Mon::new(ctx);
        for version in (shard..256).step_by(shards) {
            let version = version as u8;
            for len in 0..=MAXLEN {
                // base patterns
                let mut bases: Vec<(u8, Vec<u8>)> = vec![(0, vec![0u8; len]), (1, vec![0xffu8; len])];
                // v0-shaped: zeros, then a non-zero 10-byte tail where it exists
                let mut p = vec![0u8; len];
                for (k, b) in p.iter_mut().enumerate().skip(18) {
                    *b = 0x10 + k as u8;
                }
                bases.push((2, p));
                // v255-shaped: 0xff, last byte of a full id is a free id byte
                let mut p = vec![0xffu8; len];
                if len >= 28 {
                    p[27] = 0x5a;
                }
                bases.push((3, p));
                for (pat, base) in &bases {
                    mon.constructors(version, base);
                    ctx.nontrivial(&("ctor", version, len, pat, usize::MAX));
                    for pos in 0..len {
                        // full ids of the two supported versions and their neighbours: every byte value
                        let all: Vec<u8>;
                        let values: &[u8] = if len == 28 && matches!(version, 0 | 1 | 254 | 255) {
                            all = (0..=255u8).collect();
                            &all
                        } else {
                            &repl
                        };
                        for &r in values {
                            if base[pos] == r {
                                continue;
                            }
                            let mut id = base.clone();
                            id[pos] = r;
                            mon.constructors(version, &id);
                            mon.count("ctor.corrupted_inputs");
                        }
                        ctx.nontrivial(&("ctor", version, len, pat, pos));
                    }
                }
                mon.count("ctor.version_length_pairs");
            }
        }
    });
    ctx.set_exhaustive(true);
    ctx.extra(
        "exhaustive_slice",
        json!("constructor acceptance: all 256 versions x id lengths 0..=40 x 4 base patterns x (uncorrupted + every byte position x replacement values {00,01,80,fe,ff}; all 256 values for 28-byte ids of versions 0,1,254,255) through new / from_raw / new_v0 / new_v255 (+ the serde form for id lengths 25..=31 of every version and for every length of versions 0 and 255); ordering: all ordered pairs of the 771-element lattice; is_reserved: all 256 v255 ids and all 2-byte v0 suffixes. Everything else (random suffixes, random pairs) is sampled."),
    );
    ctx.sample(|| json!({"example": "new(0, 00*17 || 01 || tail) must be Err: byte 17 of the id is inside the 18-byte zero prefix"}));

    // (b) valid namespaces: round trips and reserved classification
    let mut valid: Vec<[u8; 29]> = Vec::new();
    for b in 0..=255u8 {
        valid.push(v255(b));
        valid.push(v0(&[b])); // <= MAX_PRIMARY: reserved
        valid.push(v0(&[1, b])); // just above MAX_PRIMARY: not reserved
    }
    // all two-byte suffixes (covers the primary bound from both sides)
    for hi in 0..=255u8 {
        for lo in [0u8, 1, 0x7f, 0xfe, 0xff] {
            valid.push(v0(&[hi, lo]));
        }
    }
    for pos in 0..10 {
        for val in [1u8, 0x80, 0xff] {
            let mut s = [0u8; 10];
            s[pos] = val;
            valid.push(v0(&s));
            let mut s = [0xffu8; 10];
            s[pos] = val.wrapping_sub(1);
            valid.push(v0(&s));
        }
    }
    valid.push(MAX_PRIMARY);
    valid.push(MIN_SECONDARY);
    valid.push(v0(&[1, 0])); // MAX_PRIMARY + 1
    valid.push(v0(&[0xff; 10])); // largest version-0 namespace
    let n_random = ctx.scale(20_000u64, 4_000_000u64);
    let fixed = valid.clone();
    ctx.par(shards, |shard| {
        let mon = Mon::new(ctx);
        for (i, raw) in fixed.iter().enumerate() {
            if i % shards == shard {
                mon.round_trips(raw);
                ctx.nontrivial(&("rt", raw));
            }
        }
        for case in (shard as u64..n_random).step_by(shards) {
            let mut rng = ctx.rng(1, case);
            let raw = random_valid(&mut rng);
            mon.round_trips(&raw);
            ctx.nontrivial(&("rt", &raw));
            ctx.sample(|| json!({"round_tripped": hex_full(&raw), "reserved_by_bounds": spec_reserved(&raw)}));
        }
    });

    // (c) ordering
    let mut lattice: Vec<[u8; 29]> = Vec::new();
    for b in 0..=255u8 {
        lattice.push(v0(&[b]));
        lattice.push(v0(&[b, 0]));
        lattice.push(v255(b));
    }
    lattice.push(v0(&[0xff; 10]));
    lattice.push(v0(&[1, 0, 0, 0, 0, 0, 0, 0, 0, 0]));
    lattice.push(v0(&[0x80, 0, 0, 0, 0, 0, 0, 0, 0, 0]));
    ctx.extra("order_lattice_size", json!(lattice.len()));
    let lat = &lattice;
    ctx.par(shards, |shard| {
        let mon = Mon::new(ctx);
        for (i, a) in lat.iter().enumerate() {
            if i % shards != shard {
                continue;
            }
            for b in lat.iter() {
                mon.order(a, b);
            }
            ctx.nontrivial(&("ord-lattice", a));
        }
        let pairs = ctx.scale(50_000u64, 20_000_000u64);
        for case in (shard as u64..pairs).step_by(shards) {
            let mut rng = ctx.rng(2, case);
            let a = random_valid(&mut rng);
            let b = match rng.gen_range(0..4) {
                0 => a,
                1 => {
                    // neighbour: differ in one byte of the free part
                    let mut b = a;
                    if b[0] == 0 {
                        let i = rng.gen_range(19..29);
                        b[i] = b[i].wrapping_add(if rng.r#gen() { 1 } else { 0xff });
                    } else {
                        b[28] = b[28].wrapping_add(1);
                    }
                    b
                }
                _ => random_valid(&mut rng),
            };
            mon.order(&a, &b);
            ctx.nontrivial(&("ord", &a, &b));
        }
    });

    // coverage floors: both answers of every oracle predicate were observed
    for op in ["new", "from_raw", "new_v0", "new_v255", "serde_de"] {
        ctx.floor(&format!("{op}.accepted"), 100);
        ctx.floor(&format!("{op}.rejected"), 1000);
    }
    ctx.floor("ctor.version_length_pairs", 256 * 41);
    ctx.floor("reserved.true", 500);
    ctx.floor("reserved.false", 500);
    ctx.floor("round_trip.v0_shorthand", 1000);
    ctx.floor("round_trip.v255", 256);
    ctx.floor("ord.less", 1000);
    ctx.floor("ord.greater", 1000);
    ctx.floor("ord.equal", 500);
    drop(mon);
}
