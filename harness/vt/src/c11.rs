//! C11 — blob share encoding round-trips and is sized correctly.
//!
//! Workload: every data length 1..=4096 (thorough: plus every length within ±2 of a share
//! boundary up to 64 KiB and some MiB-sized blobs) × {share version 0 without signer, share
//! version 1 with signer} × app versions, random and boundary non-reserved namespaces; sequences
//! of several blobs interleaved with reserved-namespace shares for `reconstruct_all`.
//!
//! Oracle (restating the property): `reconstruct(to_shares(b)) == b`; `reconstruct_all` returns
//! the blobs in order; `shares_len() == to_shares().len()`; the count equals the independent
//! ceiling formula and the bytes equal the independent encoder of `c11_model` (share spec).

#[path = "c11_model.rs"]
mod c11_model;

use c11_model as model;
use celestia_types::consts::appconsts::AppVersion;
use celestia_types::nmt::Namespace;
use celestia_types::state::AccAddress;
use celestia_types::{Blob, Share};
use vcore::{ChaCha8Rng, Ctx, Rng, guard, json, panic_site, rand_bytes};
use vgen::square::{ALL_APP_VERSIONS, padding_share, random_user_namespace, raw_share};

const SIGNER_APPS: [AppVersion; 5] = [
    AppVersion::V3,
    AppVersion::V4,
    AppVersion::V5,
    AppVersion::V6,
    AppVersion::V7,
];

fn vname(signer: bool) -> &'static str {
    if signer { "share-version-1" } else { "share-version-0" }
}

/// Random or boundary non-reserved namespace.
fn pick_namespace(rng: &mut ChaCha8Rng) -> Namespace {
    match rng.gen_range(0..10) {
        // smallest non-reserved v0 namespace (one above MAX_PRIMARY_RESERVED)
        0 => Namespace::new_v0(&[1, 0]).unwrap(),
        // largest v0 namespace
        1 => Namespace::new_v0(&[0xff; 10]).unwrap(),
        2 => random_user_namespace(rng, true),
        _ => random_user_namespace(rng, false),
    }
}

fn ns_bytes(ns: &Namespace) -> [u8; model::NS] {
    ns.as_bytes().try_into().unwrap()
}

struct Case {
    ns: Namespace,
    data: Vec<u8>,
    signer: Option<[u8; 20]>,
    app: AppVersion,
}

impl Case {
    fn detail(&self) -> vcore::Value {
        json!({
            "data_len": self.data.len(),
            "signer": self.signer.map(|s| vcore::hex_full(&s)),
            "namespace": vcore::hex_full(self.ns.as_bytes()),
            "app_version": self.app.as_u64(),
            "data_prefix": vcore::hex(&self.data),
        })
    }
}

fn length_class(len: usize, signer: bool) -> &'static str {
    let first = model::first_cap(signer);
    if len == first || (len > first && (len - first) % model::CONT_CAP == 0) {
        "exactly-fills-last-share"
    } else if len == first + 1 || (len > first && (len - first) % model::CONT_CAP == 1) {
        "one-byte-into-next-share"
    } else {
        "interior"
    }
}

/// All single-blob checks. Returns the blob and its shares when everything up to `to_shares` worked.
fn check_blob(ctx: &Ctx, c: &Case) -> Option<(Blob, Vec<Share>)> {
    let v = vname(c.signer.is_some());
    let signer_addr = c.signer.map(AccAddress::from);
    ctx.eval();

    let blob = match guard(|| Blob::new(c.ns, c.data.clone(), signer_addr, c.app)) {
        Err(p) => {
            ctx.violation(&format!("C11/Blob::new/panic/{}", panic_site(&p)), &p, c.detail());
            return None;
        }
        Ok(Err(e)) => {
            ctx.violation(
                &format!("C11/Blob::new/err/{v}"),
                &format!("valid blob rejected: {e}"),
                c.detail(),
            );
            return None;
        }
        Ok(Ok(b)) => b,
    };

    let shares = match guard(|| blob.to_shares()) {
        Err(p) => {
            ctx.violation(&format!("C11/to_shares/panic/{}", panic_site(&p)), &p, c.detail());
            return None;
        }
        Ok(Err(e)) => {
            ctx.violation(&format!("C11/to_shares/err/{v}"), &format!("{e}"), c.detail());
            return None;
        }
        Ok(Ok(s)) => s,
    };

    // independent size formula and byte layout
    let want_n = model::share_count(c.data.len(), c.signer.is_some());
    let want = model::encode(
        &ns_bytes(&c.ns),
        c.signer.is_some() as u8,
        c.signer.as_ref(),
        &c.data,
    );
    assert_eq!(want.len(), want_n, "harness: model encoder and formula disagree");
    if shares.len() != want_n {
        ctx.violation(
            &format!("C11/to_shares/count-differs-from-formula/{v}"),
            &format!("to_shares gave {} shares, ceiling formula gives {want_n}", shares.len()),
            c.detail(),
        );
    } else if let Some(i) = (0..want_n).find(|i| shares[*i].data() != &want[*i] || shares[*i].is_parity()) {
        ctx.violation(
            &format!("C11/to_shares/bytes-differ-from-share-spec/{v}"),
            &format!("share {i} of {want_n} differs from the specified layout"),
            json!({"case": c.detail(), "share_index": i,
                   "got": vcore::hex_full(shares[i].data()), "want": vcore::hex_full(&want[i])}),
        );
    } else {
        ctx.count("to_shares_matches_spec");
    }

    // reported count
    match guard(|| blob.shares_len()) {
        Err(p) => ctx.violation(&format!("C11/shares_len/panic/{}", panic_site(&p)), &p, c.detail()),
        Ok(n) if n == shares.len() => ctx.count(&format!("shares_len_ok/{v}")),
        Ok(n) => {
            let sig = if c.signer.is_some() && n == model::share_count(c.data.len(), false) {
                // the count one would get if the signer's 20 bytes did not exist
                "C11/shares_len/ignores-signer-bytes/share-version-1".to_string()
            } else {
                format!("C11/shares_len/differs-from-to_shares/{v}")
            };
            ctx.violation(
                &sig,
                &format!(
                    "shares_len() = {n} but to_shares() produced {} shares (data length {})",
                    shares.len(),
                    c.data.len()
                ),
                c.detail(),
            );
        }
    }

    // round trip
    match guard(|| Blob::reconstruct(&shares, c.app)) {
        Err(p) => ctx.violation(&format!("C11/reconstruct/panic/{}", panic_site(&p)), &p, c.detail()),
        Ok(Err(e)) => ctx.violation(
            &format!("C11/reconstruct/err/{v}"),
            &format!("reconstruct(to_shares(blob)) failed: {e}"),
            c.detail(),
        ),
        Ok(Ok(r)) if r == blob => ctx.count(&format!("roundtrip_ok/{v}")),
        Ok(Ok(r)) => {
            let what = if r.data != blob.data {
                format!("data differs (len {} vs {})", r.data.len(), blob.data.len())
            } else if r.signer != blob.signer {
                "signer differs".to_string()
            } else if r.namespace != blob.namespace {
                "namespace differs".to_string()
            } else if r.share_version != blob.share_version {
                "share version differs".to_string()
            } else if r.commitment != blob.commitment {
                "commitment differs".to_string()
            } else {
                "index differs".to_string()
            };
            ctx.violation(
                &format!("C11/reconstruct/differs-from-original/{v}"),
                &format!("reconstruct(to_shares(blob)) != blob: {what}"),
                c.detail(),
            );
        }
    }

    let class = length_class(c.data.len(), c.signer.is_some());
    ctx.count(&format!("len_class/{class}/{v}"));
    ctx.nontrivial(&(c.data.len(), c.signer.is_some()));
    ctx.sample(|| {
        json!({"data_len": c.data.len(), "version": v, "shares": shares.len(),
               "length_class": class, "app_version": c.app.as_u64()})
    });
    Some((blob, shares))
}

fn make_case(rng: &mut ChaCha8Rng, len: usize, signer: bool, app: Option<AppVersion>) -> Case {
    let app = app.unwrap_or_else(|| {
        if signer {
            SIGNER_APPS[rng.gen_range(0..SIGNER_APPS.len())]
        } else {
            ALL_APP_VERSIONS[rng.gen_range(0..ALL_APP_VERSIONS.len())]
        }
    });
    let signer = signer.then(|| {
        let mut s = [0u8; 20];
        match rng.gen_range(0..8) {
            0 => {}                       // all-zero signer (indistinguishable from padding bytes)
            1 => s = [0xff; 20],
            _ => rng.fill(&mut s),
        }
        s
    });
    // data ending in zero bytes must survive the padding truncation too
    let mut data = rand_bytes(rng, len);
    match rng.gen_range(0..6) {
        0 => data.iter_mut().for_each(|b| *b = 0),
        1 => {
            let k = rng.gen_range(1..=len.min(40));
            data[len - k..].iter_mut().for_each(|b| *b = 0);
        }
        _ => {}
    }
    Case {
        ns: pick_namespace(rng),
        data,
        signer,
        app,
    }
}

/// A reserved-namespace share (filtered by `reconstruct_all`).
fn reserved_share(rng: &mut ChaCha8Rng) -> Share {
    let start: u8 = rng.gen_range(0..2);
    match rng.gen_range(0..6) {
        0 => Share::from_raw(&raw_share(rng, &Namespace::TRANSACTION, start)).unwrap(),
        1 => Share::from_raw(&raw_share(rng, &Namespace::PAY_FOR_BLOB, start)).unwrap(),
        2 => Share::from_raw(&padding_share(&Namespace::PRIMARY_RESERVED_PADDING)).unwrap(),
        3 => Share::from_raw(&padding_share(&Namespace::TAIL_PADDING)).unwrap(),
        // a reserved-namespace share that even looks like the start of a huge sequence
        4 => {
            let mut s = raw_share(rng, &Namespace::TRANSACTION, 1);
            s[30..34].copy_from_slice(&0x00ff_ffffu32.to_be_bytes());
            Share::from_raw(&s).unwrap()
        }
        _ => Share::parity(&rand_bytes(rng, 512)).unwrap(),
    }
}

fn boundary_len(rng: &mut ChaCha8Rng, signer: bool, max_shares: usize) -> usize {
    let n = rng.gen_range(1..=max_shares);
    let (lo, hi) = model::len_range_for_shares(n, signer);
    match rng.gen_range(0..4) {
        0 => lo,
        1 => hi,
        _ => rng.gen_range(lo..=hi),
    }
}

fn check_sequence(ctx: &Ctx, case_no: u64) {
    let mut rng = ctx.rng(2, case_no);
    let n_blobs = rng.gen_range(1..=6);
    let any_signer = rng.gen_bool(0.6);
    let app = if any_signer {
        SIGNER_APPS[rng.gen_range(0..SIGNER_APPS.len())]
    } else {
        ALL_APP_VERSIONS[rng.gen_range(0..ALL_APP_VERSIONS.len())]
    };
    let mut blobs = Vec::new();
    let mut stream: Vec<Share> = Vec::new();
    let mut reserved = 0usize;
    let mut inside = 0usize;
    let mut lens = Vec::new();
    let mut prev_ns: Option<Namespace> = None;
    for _ in 0..n_blobs {
        for _ in 0..rng.gen_range(0..3) {
            stream.push(reserved_share(&mut rng));
            reserved += 1;
        }
        let signer = any_signer && rng.gen_bool(0.5);
        let len = boundary_len(&mut rng, signer, 5);
        let mut c = make_case(&mut rng, len, signer, Some(app));
        // neighbouring blobs of the same namespace are legal and must stay separate
        if let (Some(p), true) = (prev_ns, rng.gen_bool(0.3)) {
            c.ns = p;
        }
        prev_ns = Some(c.ns);
        let signer_addr = c.signer.map(AccAddress::from);
        let Ok(Ok(blob)) = guard(|| Blob::new(c.ns, c.data.clone(), signer_addr, c.app)) else {
            return; // reported by the single-blob part
        };
        let Ok(Ok(sh)) = guard(|| blob.to_shares()) else {
            return;
        };
        lens.push((len, signer));
        // reserved-namespace shares may also sit *between the shares of one blob* (the function is
        // documented to ignore every reserved share, wherever it is)
        let mut sh: Vec<Share> = sh;
        if sh.len() >= 2 && rng.gen_bool(0.4) {
            for _ in 0..rng.gen_range(1..=2) {
                let at = rng.gen_range(1..sh.len());
                sh.insert(at, reserved_share(&mut rng));
                reserved += 1;
                inside += 1;
            }
        }
        stream.extend(sh);
        blobs.push(blob);
    }
    for _ in 0..rng.gen_range(0..3) {
        stream.push(reserved_share(&mut rng));
        reserved += 1;
    }
    ctx.eval();
    let detail = || {
        json!({"case": case_no, "blobs(len,signer)": lens, "reserved_shares_interleaved": reserved,
               "stream_len": stream.len(), "app_version": app.as_u64()})
    };
    match guard(|| Blob::reconstruct_all(&stream, app)) {
        Err(p) => ctx.violation(&format!("C11/reconstruct_all/panic/{}", panic_site(&p)), &p, detail()),
        Ok(Err(e)) => ctx.violation("C11/reconstruct_all/err", &format!("{e}"), detail()),
        Ok(Ok(got)) if got == blobs => {
            ctx.count("reconstruct_all_ok");
            if inside > 0 {
                ctx.count("reconstruct_all_ok_reserved_shares_inside_a_blob");
            }
            if reserved > 0 && n_blobs > 1 {
                ctx.count("reconstruct_all_ok_interleaved_multi");
            }
            ctx.nontrivial(&("seq", &lens, reserved));
        }
        Ok(Ok(got)) => {
            let mut sorted_equal = got.len() == blobs.len();
            if sorted_equal {
                sorted_equal = blobs.iter().all(|b| got.contains(b));
            }
            let sig = if sorted_equal {
                "C11/reconstruct_all/order-not-preserved"
            } else if got.len() != blobs.len() {
                "C11/reconstruct_all/wrong-number-of-blobs"
            } else {
                "C11/reconstruct_all/content-differs"
            };
            ctx.violation(
                sig,
                &format!("reconstruct_all returned {} blobs for {} encoded", got.len(), blobs.len()),
                detail(),
            );
        }
    }
}

/// Observation only (outside the property text, which speaks of reserved-namespace shares):
/// what `reconstruct_all` does with a *namespace padding* share between two blobs.
fn observe_namespace_padding(ctx: &Ctx) {
    let mut rng = ctx.rng(3, 0);
    let ns = random_user_namespace(&mut rng, false);
    let a = Blob::new(ns, rand_bytes(&mut rng, 700), None, AppVersion::V3).unwrap();
    let b = Blob::new(ns, rand_bytes(&mut rng, 30), None, AppVersion::V3).unwrap();
    let mut stream = a.to_shares().unwrap();
    stream.push(Share::from_raw(&padding_share(&ns)).unwrap());
    stream.extend(b.to_shares().unwrap());
    match guard(|| Blob::reconstruct_all(&stream, AppVersion::V3)) {
        Ok(Ok(got)) if got == vec![a, b] => ctx.count("obs/namespace_padding_skipped"),
        Ok(Ok(got)) => {
            ctx.count("obs/namespace_padding_changes_result");
            ctx.extra(
                "observation_namespace_padding",
                json!(format!(
                    "blob, namespace padding share, blob => reconstruct_all returned {} blobs with data lengths {:?} \
                     (not part of the property: padding shares of a user namespace are not reserved-namespace shares)",
                    got.len(),
                    got.iter().map(|b| b.data.len()).collect::<Vec<_>>()
                )),
            );
        }
        Ok(Err(e)) => {
            ctx.count("obs/namespace_padding_err");
            ctx.extra("observation_namespace_padding", json!(format!("error: {e}")));
        }
        Err(p) => {
            ctx.count("obs/namespace_padding_panic");
            ctx.extra("observation_namespace_padding", json!(format!("panic: {p}")));
        }
    }
}

pub fn run(ctx: &Ctx) {
    ctx.rule(
        "Every data length 1..=4096 (thorough: + every length within 2 bytes of a share boundary up to 64 KiB, \
         + a few MiB-sized blobs) x {share version 0 / no signer, share version 1 / signer} x app versions \
         (random per case in quick, all valid ones at boundary lengths), random and boundary non-reserved namespaces, \
         data with trailing zero bytes, zero/0xff signers; sequences of 1..6 blobs interleaved with 0..2 reserved \
         shares (tx, PFB, primary/tail padding, parity, fake sequence start) per gap. Non-trivial = (length, version) \
         pair whose shares were compared with the independent encoder and round-tripped; distinct by (length, version).",
    );
    ctx.assume("c11_model::encode (namespace | info byte | u32 BE sequence length | signer (v1) | data | zero padding) is the share specification");
    ctx.assume("AccAddress / Namespace constructors produce the bytes they are given");

    if let Some(r) = ctx.replay.clone() {
        let d = r.get("detail").cloned().unwrap_or_default();
        let d = d.get("case").cloned().unwrap_or(d);
        if let Some(len) = d.get("data_len").and_then(|v| v.as_u64()) {
            let signer = d.get("signer").map(|s| !s.is_null()).unwrap_or(false);
            let mut rng = ctx.rng(9, len);
            let app = d
                .get("app_version")
                .and_then(|v| v.as_u64())
                .and_then(AppVersion::from_u64);
            let c = make_case(&mut rng, len as usize, signer, app);
            check_blob(ctx, &c);
            ctx.nontrivial(&"replay");
            ctx.nontrivial(&"replay2");
            return;
        }
    }

    let mut lens: Vec<usize> = (1..=4096).collect();
    if !ctx.quick() {
        for k in 0..=136usize {
            for base in [model::FIRST_CAP_V0 + k * model::CONT_CAP, model::FIRST_CAP_V1 + k * model::CONT_CAP] {
                for d in 0..=4usize {
                    let l = base + d - 2;
                    if l > 4096 && l <= 65536 + 600 {
                        lens.push(l);
                    }
                }
            }
        }
        lens.extend([65535, 65536, 65537, 1 << 20, (1 << 20) + 477, 2_000_003]);
        lens.sort();
        lens.dedup();
    }
    let per_variant = ctx.scale(2usize, 4usize);
    let shards = ctx.cores();
    ctx.par(shards, |shard| {
        for (i, len) in lens.iter().enumerate() {
            if i % shards != shard {
                continue;
            }
            for signer in [false, true] {
                let boundary = length_class(*len, signer) != "interior";
                if boundary && *len <= 4096 {
                    // every valid app version at the boundary lengths
                    let apps: &[AppVersion] = if signer { &SIGNER_APPS } else { &ALL_APP_VERSIONS };
                    for (k, app) in apps.iter().enumerate() {
                        let mut rng = ctx.rng(1, (*len as u64) << 8 | (signer as u64) << 7 | k as u64);
                        check_blob(ctx, &make_case(&mut rng, *len, signer, Some(*app)));
                    }
                } else {
                    for k in 0..per_variant {
                        let mut rng = ctx.rng(1, (*len as u64) << 8 | (signer as u64) << 7 | 64 | k as u64);
                        check_blob(ctx, &make_case(&mut rng, *len, signer, None));
                    }
                }
            }
        }
    });

    let sequences = ctx.scale(1_500u64, 30_000u64);
    ctx.par(shards, |shard| {
        for case in (shard as u64..sequences).step_by(shards) {
            check_sequence(ctx, case);
        }
    });
    observe_namespace_padding(ctx);

    ctx.extra("lengths_covered", json!(lens.len()));
    ctx.extra("all_lengths_1_to_4096", json!(true));
    ctx.floor("to_shares_matches_spec", ctx.scale(15_000, 20_000));
    ctx.floor("roundtrip_ok/share-version-0", 8_000);
    ctx.floor("roundtrip_ok/share-version-1", 8_000);
    ctx.floor("len_class/exactly-fills-last-share/share-version-1", 8);
    ctx.floor("len_class/one-byte-into-next-share/share-version-1", 8);
    ctx.floor("len_class/exactly-fills-last-share/share-version-0", 8);
    ctx.floor("len_class/one-byte-into-next-share/share-version-0", 8);
    ctx.floor("reconstruct_all_ok_interleaved_multi", 500);
    ctx.floor("reconstruct_all_ok_reserved_shares_inside_a_blob", 100);
}
