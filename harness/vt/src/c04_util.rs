//! Shared by the C04 / C05 / C06 monitors (vt and vn): a generated square together with a
//! snapshot of its raw cells (the ground truth) and brute-force accessors over that snapshot.
//!
//! Nothing in here calls a verifier of the code under test. The extended square itself is
//! produced by `ExtendedDataSquare::from_ods` (trusted here, decided by C08); the DAH produced
//! by `DataAvailabilityHeader::from_eds` is cross-checked against an independent NMT
//! implementation (`vcore::sha`) over the raw cells, so that "the square committed by the DAH"
//! really is the snapshot.

#![allow(dead_code)]

use celestia_types::consts::appconsts::{AppVersion, SHARE_SIZE};
use celestia_types::nmt::{NS_SIZE, Namespace, NamespacedHashExt};
use celestia_types::{DataAvailabilityHeader, ExtendedDataSquare};
use vcore::{ChaCha8Rng, Ctx, Rng};

pub const PARITY_NS: [u8; NS_SIZE] = [0xff; NS_SIZE];

pub struct Sq {
    /// Extended width.
    pub w: usize,
    /// Raw cells of the extended square, row-major: the ground truth.
    pub cells: Vec<[u8; SHARE_SIZE]>,
    /// The square object (only used to let the code under test *produce* honest containers).
    pub eds: ExtendedDataSquare,
    pub dah: DataAvailabilityHeader,
    pub app: AppVersion,
    /// Distinct namespaces of the original square, ascending.
    pub namespaces: Vec<Namespace>,
}

impl Sq {
    pub fn generate(rng: &mut ChaCha8Rng, ods_width: usize) -> Sq {
        // app versions whose square bound admits this width
        let app = loop {
            let a = vgen::random_app_version(rng);
            if celestia_types::consts::appconsts::square_size_upper_bound(a) >= ods_width {
                break a;
            }
        };
        let (eds, _ods, info) = vgen::gen_eds(rng, ods_width, app);
        let w = eds.square_width() as usize;
        let mut cells = Vec::with_capacity(w * w);
        for r in 0..w {
            for c in 0..w {
                cells.push(*vgen::share_bytes(&eds, r, c));
            }
        }
        let dah = DataAvailabilityHeader::from_eds(&eds);
        Sq {
            w,
            cells,
            eds,
            dah,
            app,
            namespaces: info.namespaces,
        }
    }

    pub fn at(&self, r: usize, c: usize) -> &[u8; SHARE_SIZE] {
        &self.cells[r * self.w + c]
    }

    pub fn inside(&self, r: usize, c: usize) -> bool {
        r < self.w && c < self.w
    }

    pub fn in_ods(&self, r: usize, c: usize) -> bool {
        r < self.w / 2 && c < self.w / 2
    }

    /// Namespace a cell is committed under in the row/column trees.
    pub fn committed_ns(&self, r: usize, c: usize) -> [u8; NS_SIZE] {
        if self.in_ods(r, c) {
            self.at(r, c)[..NS_SIZE].try_into().unwrap()
        } else {
            PARITY_NS
        }
    }

    /// Namespace range of a row as an NMT with `IgnoreMaxNamespace` commits to it: the minimum
    /// over all leaves, the maximum over the non-parity leaves (parity if there is none).
    pub fn row_range(&self, r: usize) -> ([u8; NS_SIZE], [u8; NS_SIZE]) {
        let mut min = PARITY_NS;
        let mut max: Option<[u8; NS_SIZE]> = None;
        for c in 0..self.w {
            let ns = self.committed_ns(r, c);
            if ns < min {
                min = ns;
            }
            if ns != PARITY_NS && max.is_none_or(|m| ns > m) {
                max = Some(ns);
            }
        }
        (min, max.unwrap_or(PARITY_NS))
    }

    /// Brute-force scan: for every row (of the whole extended square) whose committed range
    /// covers `ns`, in row order, the raw shares committed under `ns` in that row.
    pub fn scan(&self, ns: &[u8; NS_SIZE]) -> Vec<(usize, Vec<[u8; SHARE_SIZE]>)> {
        let mut out = Vec::new();
        for r in 0..self.w {
            let (min, max) = self.row_range(r);
            if *ns < min || *ns > max {
                continue;
            }
            let shares = (0..self.w)
                .filter(|c| self.committed_ns(r, *c) == *ns)
                .map(|c| *self.at(r, c))
                .collect();
            out.push((r, shares));
        }
        out
    }

    /// Independent check that the DAH is the NMT commitment of the snapshot (harness sanity:
    /// a mismatch makes the run inconclusive, it is not a verdict about C04..C06).
    pub fn dah_commits_snapshot(&self) -> Result<(), String> {
        if self.dah.square_width() as usize != self.w {
            return Err(format!("dah width {} != {}", self.dah.square_width(), self.w));
        }
        for i in 0..self.w {
            let row: Vec<([u8; NS_SIZE], Vec<u8>)> = (0..self.w)
                .map(|c| (self.committed_ns(i, c), self.at(i, c).to_vec()))
                .collect();
            let col: Vec<([u8; NS_SIZE], Vec<u8>)> = (0..self.w)
                .map(|r| (self.committed_ns(r, i), self.at(r, i).to_vec()))
                .collect();
            let rr = vcore::sha::nmt_root(&row).to_bytes();
            let cr = vcore::sha::nmt_root(&col).to_bytes();
            if self.dah.row_root(i as u16).map(|h| h.to_vec()) != Some(rr) {
                return Err(format!("row root {i} differs from independent NMT root"));
            }
            if self.dah.column_root(i as u16).map(|h| h.to_vec()) != Some(cr) {
                return Err(format!("column root {i} differs from independent NMT root"));
            }
        }
        Ok(())
    }
}

/// Generate a square and sanity-check its commitment; `None` (and inconclusive) on failure.
pub fn make_square(ctx: &Ctx, rng: &mut ChaCha8Rng, ods_width: usize) -> Option<Sq> {
    match vcore::guard(|| Sq::generate(rng, ods_width)) {
        Ok(sq) => match sq.dah_commits_snapshot() {
            Ok(()) => {
                ctx.count("squares");
                ctx.count(&format!("squares.eds_width={}", sq.w));
                Some(sq)
            }
            Err(e) => {
                ctx.inconclusive(&format!("harness: generated DAH does not commit to the raw square: {e}"));
                None
            }
        },
        Err(p) => {
            ctx.inconclusive(&format!("harness: square generation panicked: {p}"));
            None
        }
    }
}

/// An index different from `x` in `0..n` (n >= 2).
pub fn other_index(rng: &mut impl Rng, n: usize, x: usize) -> usize {
    debug_assert!(n >= 2);
    let y = rng.gen_range(0..n - 1);
    if y >= x { y + 1 } else { y }
}

/// `(ods width, square number)` work items of a run, dealt round-robin to the shards.
pub fn work_items(widths: &[usize], per_width: &dyn Fn(usize) -> usize) -> Vec<(usize, u64)> {
    let mut v = Vec::new();
    let max = widths.iter().map(|w| per_width(*w)).max().unwrap_or(0);
    for k in 0..max {
        // big squares first within a round so that shards finish together
        for w in widths.iter().rev() {
            if k < per_width(*w) {
                v.push((*w, k as u64));
            }
        }
    }
    v
}

pub fn ns_hex(ns: &[u8]) -> String {
    // namespaces are mostly zero / 0xff prefix: print version + last 10 bytes
    format!("v{}:{}", ns[0], hex_s(&ns[NS_SIZE - 10..]))
}

pub fn hex_s(b: &[u8]) -> String {
    let mut s = String::with_capacity(b.len() * 2);
    for x in b {
        s.push_str(&format!("{x:02x}"));
    }
    s
}
