//! C06 — namespace data is sound and complete.
//!
//! Workload: generated extended squares with many namespaces; for each square the queried
//! namespaces are every namespace present (reserved ones, padding and tail padding included),
//! the parity namespace, neighbours of present namespaces (absent, mostly inside some row's
//! range) and namespaces outside every row range. Honest: `ExtendedDataSquare::get_namespace_data`
//! compared with a brute-force scan of the raw square, every row verified, the whole
//! `NamespaceData` verified, encoded -> decoded -> verified. Adversarial candidates on the wire
//! level: rows dropped / duplicated / swapped / appended / replaced, shares dropped (with the
//! proof untouched and with a correctly *narrowed* proof hiding the first or last share), added,
//! swapped, altered, substituted, widened with the neighbouring cell, presence <-> absence
//! conversions, proofs of neighbouring rows or namespaces, edited ranges and sibling lists, data
//! of another namespace or square, byte-mutated encodings.
//!
//! Oracle: ground truth is `Sq::scan(ns)` over the snapshot of raw cells: the rows (of the whole
//! extended square) whose committed range covers the namespace, in order, each with exactly the
//! cells committed under that namespace. Honest => equals the scan and verifies. Anything accepted
//! for `(dah, ns)` => same number of rows and the same shares per row as the scan, and rows
//! without shares carry a proof of absence. For a single `RowNamespaceData` accepted for
//! `(ns, row)`: its shares are exactly the cells of `ns` in that row (none if the row does not
//! cover `ns`).
//!
//! Compiled into `vn` as well (`vn/src/c06.rs`) with the shrex response codec.

use bytes::BytesMut;
use celestia_proto::proof::pb::Proof as RawProof;
use celestia_proto::shwap::{RowNamespaceData as RawRnd, Share as RawShare};
use celestia_types::DataAvailabilityHeader;
use celestia_types::consts::appconsts::AppVersion;
use celestia_types::namespace_data::{NamespaceData, NamespaceDataId};
use celestia_types::nmt::{NS_SIZE, Namespace, NamespaceProof, NamespacedHashExt};
use celestia_types::row_namespace_data::{RowNamespaceData, RowNamespaceDataId};
use prost::Message;
use vcore::{ChaCha8Rng, Ctx, Rng, SliceRandom, Value, guard, json, panic_site};

#[path = "c04_util.rs"]
pub mod util;
use util::{PARITY_NS, Sq, hex_s, make_square, ns_hex, other_index, work_items};

const HEIGHT: u64 = 13;

type Truth = Vec<(usize, Vec<[u8; 512]>)>;

pub struct Codec {
    pub name: &'static str,
    /// Also exercise the per-row API and `NamespaceData::verify` on objects.
    pub direct: bool,
    /// Encoder of the code under test for honest data.
    pub encode: fn(&NamespaceData) -> Vec<u8>,
    /// Harness-side framing of raw (possibly hostile) rows.
    pub frame: fn(&[RawRnd]) -> Vec<u8>,
    pub decode_verify: fn(&[u8], NamespaceDataId, &DataAvailabilityHeader, AppVersion) -> Result<NamespaceData, String>,
}

pub fn frame_rows(rows: &[RawRnd]) -> Vec<u8> {
    let mut out = Vec::new();
    for r in rows {
        r.encode_length_delimited(&mut out).expect("vec grows");
    }
    out
}

/// celestia-types has no byte-level codec for a whole `NamespaceData`; rows are framed
/// length-delimited (as shrex does) with each row encoded by `RowNamespaceData::encode`, split by
/// the harness, and handed to `NamespaceData::from_raw` + `verify`.
pub fn types_codec() -> Codec {
    Codec {
        name: "types",
        direct: true,
        encode: |nd| {
            let mut out = Vec::new();
            for r in nd.rows() {
                let mut b = BytesMut::new();
                r.encode(&mut b);
                prost::encoding::encode_varint(b.len() as u64, &mut out);
                out.extend_from_slice(&b);
            }
            out
        },
        frame: frame_rows,
        decode_verify: |mut b, id, dah, _| {
            let mut raws = Vec::new();
            while !b.is_empty() {
                raws.push(RawRnd::decode_length_delimited(&mut b).map_err(|e| format!("decode: {e}"))?);
            }
            let nd = NamespaceData::from_raw(id, raws).map_err(|e| format!("from_raw: {e}"))?;
            nd.verify(id, dah).map_err(|e| format!("verify: {e}"))?;
            Ok(nd)
        },
    }
}

pub fn run(ctx: &Ctx) {
    run_with(ctx, &types_codec());
}

/// Coarse input class of a candidate family, used in violation signatures.
fn class_of(family: &str) -> &'static str {
    match family {
        "drop-row" | "add-row" | "swap-rows" | "replace-row" | "neighbour-row" => "rows-edited",
        "drop-share" | "drop-all-shares" | "add-share" | "swap-shares" | "alter-share-byte" | "substitute-share" | "share-length" => "shares-edited",
        "drop-share-narrowed-proof" | "widened-with-neighbour" => "range-proof-of-other-range",
        "presence-to-absence" | "absence-to-presence" | "absence-with-shares" | "absence-leaf-edited" | "uncovered-row" => "presence-absence",
        "proof-range-edited" | "siblings-edited" | "flags" => "edited-proof",
        "other-namespace" | "other-square" => "foreign-data",
        _ => "mutated-encoding",
    }
}

fn ns_of(bytes: &[u8; NS_SIZE]) -> Option<Namespace> {
    Namespace::from_raw(bytes).ok()
}

fn ns_bytes(ns: &Namespace) -> [u8; NS_SIZE] {
    ns.as_bytes().try_into().unwrap()
}

/// `ns + delta` on the 29 bytes read as a big-endian number, if that is a valid namespace.
fn ns_step(ns: &[u8; NS_SIZE], up: bool) -> Option<Namespace> {
    let mut b = *ns;
    for i in (0..NS_SIZE).rev() {
        if up {
            b[i] = b[i].wrapping_add(1);
            if b[i] != 0 {
                break;
            }
        } else {
            b[i] = b[i].wrapping_sub(1);
            if b[i] != 0xff {
                break;
            }
        }
    }
    ns_of(&b)
}

fn raw_rows_json(rows: &[RawRnd]) -> Value {
    json!(rows.iter().map(|r| json!({
        "shares": r.shares.iter().map(|s| vcore::hex(&s.data)).collect::<Vec<_>>(),
        "proof": r.proof.as_ref().map(|p| json!({
            "start": p.start, "end": p.end,
            "nodes": p.nodes.iter().map(|n| hex_s(n)).collect::<Vec<_>>(),
            "leaf_hash": hex_s(&p.leaf_hash),
            "is_max_namespace_ignored": p.is_max_namespace_ignored,
        })),
    })).collect::<Vec<_>>())
}

fn content_of_raw(rows: &[RawRnd]) -> Vec<Vec<Vec<u8>>> {
    rows.iter().map(|r| r.shares.iter().map(|s| s.data.clone()).collect()).collect()
}

fn content_of_truth(t: &Truth) -> Vec<Vec<Vec<u8>>> {
    t.iter().map(|(_, s)| s.iter().map(|x| x.to_vec()).collect()).collect()
}

/// Why accepted data differs from the scan (`None` = equal).
fn nd_diff(nd: &NamespaceData, truth: &Truth) -> Option<String> {
    if nd.rows().len() != truth.len() {
        return Some(format!("{} rows, the square has {} rows covering the namespace", nd.rows().len(), truth.len()));
    }
    for (k, (row, (r, want))) in nd.rows().iter().zip(truth.iter()).enumerate() {
        if row.shares.len() != want.len() {
            return Some(format!("entry {k} (row {r}): {} shares, the row holds {}", row.shares.len(), want.len()));
        }
        for (j, s) in row.shares.iter().enumerate() {
            if s.data() != &want[j] {
                return Some(format!("entry {k} (row {r}): share {j} differs from the committed cell"));
            }
        }
    }
    None
}

fn row_diff(row: &RowNamespaceData, want: &[[u8; 512]]) -> Option<String> {
    if row.shares.len() != want.len() {
        return Some(format!("{} shares, the row holds {}", row.shares.len(), want.len()));
    }
    for (j, s) in row.shares.iter().enumerate() {
        if s.data() != &want[j] {
            return Some(format!("share {j} differs from the committed cell"));
        }
    }
    None
}

struct Mon<'a> {
    ctx: &'a Ctx,
    codec: &'a Codec,
}

struct Case<'a> {
    sq: &'a Sq,
    ns: Namespace,
    nsb: [u8; NS_SIZE],
    class: &'static str,
    truth: Truth,
}

impl Mon<'_> {
    fn detail(&self, cs: &Case, family: &str, note: &str, rows: Option<&[RawRnd]>, bytes: Option<&[u8]>, observed: Value) -> Value {
        let sq = cs.sq;
        json!({
            "codec": self.codec.name,
            "eds_width": sq.w,
            "app_version": sq.app.as_u64(),
            "namespace": hex_s(&cs.nsb),
            "namespace_class": cs.class,
            "family": family,
            "note": note,
            "scan": cs.truth.iter().map(|(r, s)| json!({"row": r, "shares": s.iter().map(|x| vcore::hex(x)).collect::<Vec<_>>()})).collect::<Vec<_>>(),
            "candidate": rows.map(raw_rows_json),
            "candidate_bytes": bytes.map(hex_s),
            "row_roots": sq.dah.row_roots().iter().map(|h| hex_s(&h.to_vec())).collect::<Vec<_>>(),
            "observed": observed,
        })
    }

    fn nd_id(&self, cs: &Case) -> NamespaceDataId {
        NamespaceDataId::new(cs.ns, HEIGHT).expect("height > 0")
    }

    fn rid(&self, cs: &Case, row: usize) -> RowNamespaceDataId {
        RowNamespaceDataId::new(cs.ns, row as u16, HEIGHT).expect("height > 0")
    }

    /// Oracle for a whole-namespace candidate.
    fn judge_nd(&self, cs: &Case, family: &str, note: &str, rows: Option<&[RawRnd]>, bytes: Option<&[u8]>, via: &str, res: Result<Result<NamespaceData, String>, String>) {
        let ctx = self.ctx;
        ctx.eval();
        match res {
            Err(p) => {
                ctx.count(&format!("adv.{family}.panicked"));
                ctx.count("adv.panicked");
                ctx.extra(&format!("panic_site.{}", panic_site(&p)), json!(p));
            }
            Ok(Err(_)) => {
                ctx.count(&format!("adv.{family}.rejected"));
                ctx.count("adv.rejected");
            }
            Ok(Ok(nd)) => {
                ctx.count(&format!("adv.{family}.accepted"));
                match nd_diff(&nd, &cs.truth) {
                    None => {
                        ctx.count("adv.accepted_equal_to_scan");
                        self.absence_flags(cs, &nd, family, note, rows, bytes);
                    }
                    Some(why) => {
                        ctx.count("adv.accepted_differs_from_scan");
                        let kind = if nd.rows().len() != cs.truth.len() {
                            "wrong-row-count"
                        } else if nd.rows().iter().zip(&cs.truth).any(|(r, t)| r.shares.len() < t.1.len()) {
                            "incomplete"
                        } else {
                            "unsound"
                        };
                        ctx.violation(
                            &format!("C06/NamespaceData/{kind}/{}", class_of(family)),
                            &format!("namespace data accepted although it differs from the square: {why}"),
                            self.detail(cs, family, note, rows, bytes, json!({
                                "via": via, "difference": why,
                                "accepted": nd.rows().iter().map(|r| json!({
                                    "shares": r.shares.iter().map(|s| vcore::hex(s.data())).collect::<Vec<_>>(),
                                    "absence_proof": r.proof.is_of_absence(),
                                    "start": r.proof.start_idx(), "end": r.proof.end_idx(),
                                })).collect::<Vec<_>>(),
                            })),
                        );
                    }
                }
            }
        }
    }

    /// "with a proof of absence where the row has none".
    fn absence_flags(&self, cs: &Case, nd: &NamespaceData, family: &str, note: &str, rows: Option<&[RawRnd]>, bytes: Option<&[u8]>) {
        for (k, row) in nd.rows().iter().enumerate() {
            if row.shares.is_empty() && !row.proof.is_of_absence() {
                self.ctx.violation(
                    "C06/NamespaceData/empty-row-without-absence-proof",
                    &format!("entry {k} has no shares and was accepted with a presence proof"),
                    self.detail(cs, family, note, rows, bytes, json!({"entry": k})),
                );
            }
        }
    }

    fn present(&self, cs: &Case, family: &str, rows: &[RawRnd], note: &str) {
        if content_of_raw(rows) != content_of_truth(&cs.truth) {
            self.ctx.nontrivial(&(family.to_string(), self.codec.name, cs.sq.w, cs.nsb, vcore::hash64(&content_of_raw(rows)), vcore::hash64(note)));
            self.ctx.count("adv.nontrivial");
            self.ctx.count(&format!("adv.nontrivial.class={}", cs.class));
        }
        let bytes = (self.codec.frame)(rows);
        let id = self.nd_id(cs);
        let res = guard(|| (self.codec.decode_verify)(&bytes, id, &cs.sq.dah, cs.sq.app));
        self.judge_nd(cs, family, note, Some(rows), None, "decode+verify", res);
    }

    fn present_bytes(&self, cs: &Case, family: &str, bytes: &[u8], note: &str) {
        let id = self.nd_id(cs);
        let res = guard(|| (self.codec.decode_verify)(bytes, id, &cs.sq.dah, cs.sq.app));
        self.judge_nd(cs, family, note, None, Some(bytes), "decode+verify", res);
    }

    /// Present a single row through the per-row API (`RowNamespaceData::decode` + `verify`).
    fn present_row(&self, cs: &Case, family: &str, row: usize, raw: &RawRnd, note: &str) {
        if !self.codec.direct {
            return;
        }
        let ctx = self.ctx;
        let want: Vec<[u8; 512]> = cs.truth.iter().find(|(r, _)| *r == row).map(|(_, s)| s.clone()).unwrap_or_default();
        let covered = cs.truth.iter().any(|(r, _)| *r == row);
        let fam = format!("{family}(row)");
        let differs = raw.shares.iter().map(|s| &s.data[..]).ne(want.iter().map(|s| &s[..]));
        if differs {
            ctx.nontrivial(&(fam.clone(), cs.sq.w, cs.nsb, row, vcore::hash64(&content_of_raw(std::slice::from_ref(raw))), vcore::hash64(note)));
            ctx.count("adv.nontrivial");
        }
        let rid = self.rid(cs, row);
        let bytes = raw.encode_to_vec();
        let res = guard(|| {
            let d = RowNamespaceData::decode(rid, &bytes).map_err(|e| format!("decode: {e}"))?;
            d.verify(rid, &cs.sq.dah).map_err(|e| format!("verify: {e}"))?;
            Ok::<_, String>(d)
        });
        ctx.eval();
        match res {
            Err(p) => {
                ctx.count(&format!("adv.{fam}.panicked"));
                ctx.count("adv.panicked");
                ctx.extra(&format!("panic_site.{}", panic_site(&p)), json!(p));
            }
            Ok(Err(_)) => {
                ctx.count(&format!("adv.{fam}.rejected"));
                ctx.count("adv.rejected");
            }
            Ok(Ok(d)) => {
                ctx.count(&format!("adv.{fam}.accepted"));
                match row_diff(&d, &want) {
                    None => {
                        ctx.count("adv.accepted_equal_to_scan");
                        if covered && d.shares.is_empty() && !d.proof.is_of_absence() {
                            ctx.violation(
                                "C06/RowNamespaceData/empty-row-without-absence-proof",
                                &format!("row {row} has no shares of the namespace and was accepted with a presence proof"),
                                self.detail(cs, &fam, note, Some(std::slice::from_ref(raw)), None, json!({"row": row})),
                            );
                        }
                    }
                    Some(why) => {
                        ctx.count("adv.accepted_differs_from_scan");
                        let kind = if d.shares.len() < want.len() { "incomplete" } else { "unsound" };
                        ctx.violation(
                            &format!("C06/RowNamespaceData/{kind}/{}", class_of(family)),
                            &format!("row namespace data accepted for row {row} although it differs from the square: {why}"),
                            self.detail(cs, &fam, note, Some(std::slice::from_ref(raw)), None, json!({
                                "row": row, "row_covers_namespace": covered, "difference": why,
                                "accepted_shares": d.shares.iter().map(|s| vcore::hex(s.data())).collect::<Vec<_>>(),
                                "absence_proof": d.proof.is_of_absence(),
                            })),
                        );
                    }
                }
            }
        }
    }

    // ------------------------------------------------------------------------------------------

    fn honest(&self, cs: &Case) -> Option<Vec<(RowNamespaceDataId, RowNamespaceData)>> {
        let ctx = self.ctx;
        let sq = cs.sq;
        let det = |note: &str, obs: Value| self.detail(cs, "honest", note, None, None, obs);
        ctx.eval();
        let rows = match guard(|| sq.eds.get_namespace_data(cs.ns, &sq.dah, HEIGHT)) {
            Ok(Ok(r)) => r,
            Ok(Err(e)) => {
                ctx.violation(
                    "C06/get_namespace_data/error",
                    &format!("the square fails to produce namespace data: {e}"),
                    det("get_namespace_data", json!({"error": e.to_string()})),
                );
                return None;
            }
            Err(p) => {
                ctx.violation(
                    &format!("C06/get_namespace_data/panic/{}", panic_site(&p)),
                    &format!("the square panics producing namespace data: {p}"),
                    det("get_namespace_data", json!({"panic": p})),
                );
                return None;
            }
        };
        // equals the brute-force scan (rows, order, shares)
        let produced = NamespaceData::new(rows.iter().map(|(_, d)| d.clone()).collect());
        let ids_ok = rows.len() == cs.truth.len()
            && rows.iter().zip(&cs.truth).all(|((id, _), (r, _))| id.row_index() as usize == *r && id.namespace() == cs.ns && id.block_height() == HEIGHT);
        if let Some(why) = nd_diff(&produced, &cs.truth).or((!ids_ok).then(|| "row ids differ from the rows covering the namespace".to_string())) {
            ctx.violation(
                "C06/get_namespace_data/differs-from-scan",
                &format!("the data the square produces differs from a brute-force scan: {why}"),
                det("get_namespace_data", json!({
                    "difference": why,
                    "produced": rows.iter().map(|(id, d)| json!({"row": id.row_index(), "shares": d.shares.iter().map(|s| vcore::hex(s.data())).collect::<Vec<_>>() })).collect::<Vec<_>>(),
                })),
            );
            return None;
        }
        ctx.count("honest.equals_scan");
        ctx.count(&format!("honest.class={}", cs.class));
        ctx.count_n("honest.rows", rows.len() as u64);
        if rows.len() >= 2 {
            ctx.count("honest.multi_row");
        }
        ctx.count_n("honest.rows_with_absence_proof", rows.iter().filter(|(_, d)| d.shares.is_empty()).count() as u64);

        // per row: verify, encode -> decode -> verify
        if self.codec.direct {
            for (rid, d) in &rows {
                let r = rid.row_index();
                ctx.eval();
                match guard(|| d.verify(*rid, &sq.dah)) {
                    Ok(Ok(())) => ctx.count("honest.row.accepted"),
                    Ok(Err(e)) => ctx.violation(
                        &format!("C06/honest-rejected/RowNamespaceData::verify/{}", if d.shares.is_empty() { "absence" } else { "presence" }),
                        &format!("honest data of row {r} rejected: {e}"),
                        det("row verify", json!({"row": r, "error": e.to_string()})),
                    ),
                    Err(p) => ctx.violation(
                        &format!("C06/honest-rejected/RowNamespaceData::verify/panic/{}", panic_site(&p)),
                        &format!("honest data of row {r} panics in verify: {p}"),
                        det("row verify", json!({"row": r, "panic": p})),
                    ),
                }
                ctx.eval();
                let res = guard(|| {
                    let mut b = BytesMut::new();
                    d.encode(&mut b);
                    let dec = RowNamespaceData::decode(*rid, &b).map_err(|e| format!("decode: {e}"))?;
                    dec.verify(*rid, &sq.dah).map_err(|e| format!("verify: {e}"))?;
                    Ok::<_, String>(dec)
                });
                match res {
                    Ok(Ok(dec)) => {
                        ctx.count("honest.row.roundtrip_accepted");
                        if &dec != d {
                            ctx.violation(
                                "C06/honest-roundtrip/RowNamespaceData/differs",
                                &format!("row {r} data changes through encode/decode"),
                                det("row roundtrip", json!({"row": r})),
                            );
                        }
                    }
                    Ok(Err(e)) => ctx.violation(
                        "C06/honest-rejected/RowNamespaceData/decode+verify",
                        &format!("honest data of row {r} rejected after encode/decode: {e}"),
                        det("row roundtrip", json!({"row": r, "error": e})),
                    ),
                    Err(p) => ctx.violation(
                        &format!("C06/honest-rejected/RowNamespaceData/decode+verify/panic/{}", panic_site(&p)),
                        &format!("honest data of row {r} panics in encode/decode/verify: {p}"),
                        det("row roundtrip", json!({"row": r, "panic": p})),
                    ),
                }
            }
            ctx.eval();
            match guard(|| produced.verify(self.nd_id(cs), &sq.dah)) {
                Ok(Ok(())) => ctx.count("honest.direct.accepted"),
                Ok(Err(e)) => ctx.violation(
                    &format!("C06/honest-rejected/NamespaceData::verify/class={}", cs.class),
                    &format!("honest namespace data rejected: {e}"),
                    det("verify", json!({"error": e.to_string()})),
                ),
                Err(p) => ctx.violation(
                    &format!("C06/honest-rejected/NamespaceData::verify/panic/{}", panic_site(&p)),
                    &format!("honest namespace data panics in verify: {p}"),
                    det("verify", json!({"panic": p})),
                ),
            }
        }
        // whole: encode -> decode -> verify
        ctx.eval();
        let id = self.nd_id(cs);
        match guard(|| {
            let bytes = (self.codec.encode)(&produced);
            (self.codec.decode_verify)(&bytes, id, &sq.dah, sq.app).map(|nd| (nd, bytes.len()))
        }) {
            Ok(Ok((nd, len))) => {
                ctx.count("honest.accepted");
                ctx.count(&format!("honest.accepted.class={}", cs.class));
                ctx.nontrivial(&("honest", self.codec.name, sq.w, cs.nsb, vcore::hash64(&content_of_truth(&cs.truth))));
                if let Some(why) = nd_diff(&nd, &cs.truth) {
                    ctx.violation(
                        "C06/honest-roundtrip/NamespaceData/differs-from-scan",
                        &format!("honest namespace data verifies after encode/decode but differs from the scan: {why}"),
                        det("roundtrip", json!({"difference": why})),
                    );
                } else {
                    self.absence_flags(cs, &nd, "honest", "roundtrip", None, None);
                }
                ctx.sample(|| json!({
                    "kind": "honest", "codec": self.codec.name, "eds_width": sq.w, "namespace": ns_hex(&cs.nsb), "class": cs.class,
                    "rows": cs.truth.iter().map(|(r, s)| json!({"row": r, "shares": s.len()})).collect::<Vec<_>>(),
                    "encoded_len": len, "accepted": true,
                }));
            }
            Ok(Err(e)) => ctx.violation(
                &format!("C06/honest-rejected/decode+verify/class={}", cs.class),
                &format!("honest namespace data rejected after encode/decode: {e}"),
                det("roundtrip", json!({"error": e})),
            ),
            Err(p) => ctx.violation(
                &format!("C06/honest-rejected/decode+verify/panic/{}", panic_site(&p)),
                &format!("honest namespace data panics in encode/decode/verify: {p}"),
                det("roundtrip", json!({"panic": p})),
            ),
        }
        Some(rows)
    }

    /// Raw proof for leaves `a..b` of row `r` built by the row tree of the square.
    fn range_proof(&self, sq: &Sq, r: usize, a: usize, b: usize) -> Option<RawProof> {
        guard(|| {
            let mut t = sq.eds.row_nmt(r as u16).ok()?;
            let p = t.build_range_proof(a..b);
            Some(RawProof {
                start: a as i64,
                end: b as i64,
                nodes: p.siblings().iter().map(|h| h.to_vec()).collect(),
                leaf_hash: Vec::new(),
                is_max_namespace_ignored: true,
            })
        })
        .ok()
        .flatten()
    }

    /// Row-level variants of the honest entry `raw` for row `r` (`first` = column of its first share).
    fn row_variants(&self, cs: &Case, rng: &mut ChaCha8Rng, r: usize, honest: &RowNamespaceData, neighbour: Option<&RawRnd>) -> Vec<(&'static str, RawRnd, String)> {
        let sq = cs.sq;
        let raw = RawRnd::from(honest.clone());
        let mut out: Vec<(&'static str, RawRnd, String)> = Vec::new();
        let n = raw.shares.len();
        let p0 = raw.proof.clone().unwrap();
        let first = p0.start as usize;
        let with = |f: &dyn Fn(&mut RawRnd)| {
            let mut x = raw.clone();
            f(&mut x);
            x
        };
        if n > 0 {
            // shares dropped, proof untouched
            out.push(("drop-share", with(&|x| { x.shares.remove(0); }), "first share dropped, proof untouched".into()));
            out.push(("drop-share", with(&|x| { x.shares.pop(); }), "last share dropped, proof untouched".into()));
            if n >= 3 {
                let k = rng.gen_range(1..n - 1);
                out.push(("drop-share", with(&|x| { x.shares.remove(k); }), format!("share {k} dropped, proof untouched")));
            }
            // shares dropped with a genuinely valid proof for the remaining partial range
            if n >= 2 {
                for (what, a, b) in [("first", first + 1, first + n), ("last", first, first + n - 1)] {
                    if let Some(p) = self.range_proof(sq, r, a, b) {
                        let mut x = raw.clone();
                        if what == "first" { x.shares.remove(0); } else { x.shares.pop(); }
                        x.proof = Some(p);
                        out.push(("drop-share-narrowed-proof", x, format!("{what} share hidden, proof is a valid range proof for leaves {a}..{b}")));
                    }
                }
                // the same through the library's own narrowing of the honest proof
                let narrowed = guard(|| honest.proof.narrow_range(&honest.shares[..1], &honest.shares[..0], *cs.ns).ok()).ok().flatten();
                if let Some(np) = narrowed {
                    let mut x = raw.clone();
                    x.shares.remove(0);
                    x.proof = Some(RawProof::from(NamespaceProof::from(np)));
                    out.push(("drop-share-narrowed-proof", x, "first share hidden, proof narrowed with narrow_range".into()));
                }
            }
            // all shares dropped
            out.push(("drop-all-shares", with(&|x| x.shares.clear()), "all shares dropped, presence proof kept".into()));
            {
                // turned into an absence proof pointing at the first share of the namespace
                let leaf = vcore::sha::nmt_leaf(&sq.committed_ns(r, first), &raw.shares[0].data).to_bytes();
                if let Some(mut p) = self.range_proof(sq, r, first, first + 1) {
                    p.leaf_hash = leaf.clone();
                    out.push(("presence-to-absence", RawRnd { shares: vec![], proof: Some(p) }, "no shares, absence proof whose leaf is the first share of the namespace".into()));
                }
                // ... at the leaf following the namespace
                if first + n < sq.w {
                    let c = first + n;
                    let leaf = vcore::sha::nmt_leaf(&sq.committed_ns(r, c), sq.at(r, c)).to_bytes();
                    if let Some(mut p) = self.range_proof(sq, r, c, c + 1) {
                        p.leaf_hash = leaf;
                        out.push(("presence-to-absence", RawRnd { shares: vec![], proof: Some(p) }, "no shares, absence proof whose leaf follows the namespace".into()));
                    }
                }
                let mut x = raw.clone();
                x.shares.clear();
                x.proof.as_mut().unwrap().leaf_hash = leaf;
                out.push(("presence-to-absence", x, "no shares, honest range with leaf_hash set".into()));
            }
            // shares added
            out.push(("add-share", with(&|x| { let s = x.shares[n - 1].clone(); x.shares.push(s); }), "last share duplicated".into()));
            out.push(("add-share", with(&|x| { let s = x.shares[0].clone(); x.shares.insert(0, s); }), "first share duplicated".into()));
            // widened by the neighbouring cell (other namespace), with a valid range proof for it
            for (what, a, b, col) in [
                ("following", first, first + n + 1, first + n),
                ("preceding", first.wrapping_sub(1), first + n, first.wrapping_sub(1)),
            ] {
                if col < sq.w && a < b && b <= sq.w && sq.committed_ns(r, col) != cs.nsb {
                    if let Some(p) = self.range_proof(sq, r, a, b) {
                        for rewrite in [false, true] {
                            let mut cell = sq.at(r, col).to_vec();
                            if rewrite {
                                cell[..NS_SIZE].copy_from_slice(&cs.nsb);
                            }
                            let mut x = raw.clone();
                            if what == "following" { x.shares.push(RawShare { data: cell }); } else { x.shares.insert(0, RawShare { data: cell }); }
                            x.proof = Some(p.clone());
                            out.push(("widened-with-neighbour", x, format!("{what} cell of another namespace appended{}, valid range proof {a}..{b}", if rewrite { " (namespace bytes rewritten)" } else { "" })));
                        }
                    }
                }
            }
            // swapped / altered / substituted
            if n >= 2 {
                let a = rng.gen_range(0..n);
                let b = other_index(rng, n, a);
                if raw.shares[a] != raw.shares[b] {
                    out.push(("swap-shares", with(&|x| x.shares.swap(a, b)), format!("shares {a} and {b} swapped")));
                }
            }
            for region in 0..3 {
                let s = rng.gen_range(0..n);
                let k = match region { 0 => rng.gen_range(0..29), 1 => 29, _ => rng.gen_range(30..512) };
                let bit = 1u8 << rng.gen_range(0..8);
                out.push(("alter-share-byte", with(&|x| x.shares[s].data[k] ^= bit), format!("share {s} byte {k} altered")));
            }
            {
                let s = rng.gen_range(0..n);
                let (rr, cc) = (rng.gen_range(0..sq.w), rng.gen_range(0..sq.w));
                if sq.at(rr, cc)[..] != raw.shares[s].data[..] {
                    for rewrite in [false, true] {
                        let mut cell = sq.at(rr, cc).to_vec();
                        if rewrite {
                            cell[..NS_SIZE].copy_from_slice(&cs.nsb);
                        }
                        out.push(("substitute-share", with(&|x| x.shares[s].data = cell.clone()), format!("share {s} replaced by cell ({rr}, {cc}){}", if rewrite { " with rewritten namespace" } else { "" })));
                    }
                }
            }
            for len in [0usize, 511, 513] {
                let s = rng.gen_range(0..n);
                out.push(("share-length", with(&|x| x.shares[s].data.resize(len, 0)), format!("share {s} has {len} bytes")));
            }
        } else {
            // honest entry is an absence proof
            out.push(("absence-to-presence", with(&|x| x.proof.as_mut().unwrap().leaf_hash.clear()), "leaf_hash cleared (presence proof without shares)".into()));
            let c = first.min(sq.w - 1);
            for rewrite in [false, true] {
                let mut cell = sq.at(r, c).to_vec();
                if rewrite {
                    cell[..NS_SIZE].copy_from_slice(&cs.nsb);
                }
                out.push(("absence-to-presence", with(&|x| { x.shares.push(RawShare { data: cell.clone() }); x.proof.as_mut().unwrap().leaf_hash.clear(); }), format!("the leaf the absence proof points at presented as a share of the namespace{}", if rewrite { " (namespace rewritten)" } else { "" })));
                out.push(("absence-with-shares", with(&|x| x.shares.push(RawShare { data: cell.clone() })), format!("absence proof kept, a share added{}", if rewrite { " (namespace rewritten)" } else { "" })));
            }
            out.push(("absence-leaf-edited", with(&|x| { let p = x.proof.as_mut().unwrap(); if let Some(nd) = p.nodes.first() { p.leaf_hash = nd.clone(); } }), "leaf_hash replaced by a sibling".into()));
            out.push(("absence-leaf-edited", with(&|x| { let p = x.proof.as_mut().unwrap(); let k = rng_byte(&p.leaf_hash); if !p.leaf_hash.is_empty() { p.leaf_hash[k] ^= 1; } }), "leaf_hash byte altered".into()));
        }
        // proof range edited
        for (ds, de) in [(1i64, 1i64), (-1, -1), (0, 1), (0, -1), (1, 0), (-1, 0)] {
            out.push(("proof-range-edited", with(&|x| { let p = x.proof.as_mut().unwrap(); p.start += ds; p.end += de; }), format!("proof range {}..{}", p0.start + ds, p0.end + de)));
        }
        out.push(("proof-range-edited", with(&|x| { let p = x.proof.as_mut().unwrap(); p.start = 0; p.end = sq.w as i64; }), "proof range = whole row".into()));
        out.push(("proof-range-edited", with(&|x| { let p = x.proof.as_mut().unwrap(); p.end = p.start; }), "empty proof range".into()));
        // sibling list edited
        let m = p0.nodes.len();
        if m > 0 {
            let i = rng.gen_range(0..m);
            out.push(("siblings-edited", with(&|x| { x.proof.as_mut().unwrap().nodes.remove(i); }), format!("sibling {i} dropped")));
            out.push(("siblings-edited", with(&|x| { let p = x.proof.as_mut().unwrap(); let y = p.nodes[i].clone(); p.nodes.insert(i, y); }), format!("sibling {i} duplicated")));
            let k = rng.gen_range(0..p0.nodes[i].len());
            out.push(("siblings-edited", with(&|x| x.proof.as_mut().unwrap().nodes[i][k] ^= 0x10), format!("sibling {i} byte {k} altered")));
            if m >= 2 && p0.nodes[0] != p0.nodes[m - 1] {
                out.push(("siblings-edited", with(&|x| x.proof.as_mut().unwrap().nodes.swap(0, m - 1)), "first and last sibling swapped".into()));
            }
        }
        out.push(("flags", with(&|x| { let p = x.proof.as_mut().unwrap(); p.is_max_namespace_ignored = !p.is_max_namespace_ignored; }), "is_max_namespace_ignored flipped".into()));
        out.push(("flags", with(&|x| x.proof = None), "proof missing".into()));
        // proof (or the whole entry) of a neighbouring row of the same namespace
        if let Some(nb) = neighbour {
            out.push(("neighbour-row", with(&|x| x.proof = nb.proof.clone()), "shares of this row with the proof of another row".into()));
            out.push(("neighbour-row", with(&|x| x.shares = nb.shares.clone()), "shares of another row with the proof of this row".into()));
            out.push(("neighbour-row", nb.clone(), "entry of another row".into()));
        }
        out
    }

    fn adversarial(&self, cs: &Case, others: &[Case], other_sq: &Sq, rng: &mut ChaCha8Rng, rows: &[(RowNamespaceDataId, RowNamespaceData)]) {
        let sq = cs.sq;
        let honest: Vec<RawRnd> = rows.iter().map(|(_, d)| RawRnd::from(d.clone())).collect();
        let n = honest.len();

        // ---- whole-list families ------------------------------------------------------------
        if n >= 1 {
            let mut v = honest.clone();
            v.remove(0);
            self.present(cs, "drop-row", &v, "first entry dropped");
            let mut v = honest.clone();
            v.pop();
            self.present(cs, "drop-row", &v, "last entry dropped");
            if n >= 3 {
                let k = rng.gen_range(1..n - 1);
                let mut v = honest.clone();
                v.remove(k);
                self.present(cs, "drop-row", &v, &format!("entry {k} dropped"));
            }
            self.present(cs, "drop-row", &[], "no entries at all");
            let k = rng.gen_range(0..n);
            let mut v = honest.clone();
            v.insert(k, honest[k].clone());
            self.present(cs, "add-row", &v, &format!("entry {k} duplicated"));
            let mut v = honest.clone();
            v.push(honest[n - 1].clone());
            self.present(cs, "add-row", &v, "last entry appended again");
            if n >= 2 {
                let a = rng.gen_range(0..n);
                let b = other_index(rng, n, a);
                let mut v = honest.clone();
                v.swap(a, b);
                self.present(cs, "swap-rows", &v, &format!("entries {a} and {b} swapped"));
                let mut v = honest.clone();
                v[a] = honest[b].clone();
                self.present(cs, "replace-row", &v, &format!("entry {a} replaced by entry {b}"));
            }
        }
        // an extra entry for a row that does not cover the namespace (absence style and with shares)
        let uncovered: Vec<usize> = (0..sq.w).filter(|r| !cs.truth.iter().any(|(x, _)| x == r)).collect();
        let some_shares: Vec<RawShare> = honest.iter().flat_map(|r| r.shares.iter().cloned()).take(2).collect();
        if let Some(&u) = uncovered.choose(rng) {
            let c = rng.gen_range(0..sq.w);
            if let Some(mut p) = self.range_proof(sq, u, c, c + 1) {
                p.leaf_hash = vcore::sha::nmt_leaf(&sq.committed_ns(u, c), sq.at(u, c)).to_bytes();
                let absent = RawRnd { shares: vec![], proof: Some(p.clone()) };
                let mut v = honest.clone();
                v.push(absent.clone());
                self.present(cs, "add-row", &v, &format!("absence entry of uncovered row {u} appended"));
                let mut v = honest.clone();
                v.insert(0, absent.clone());
                self.present(cs, "add-row", &v, &format!("absence entry of uncovered row {u} prepended"));
                // per-row API: the uncovered row itself
                self.present_row(cs, "uncovered-row", u, &absent, "absence entry for a row that does not cover the namespace");
                if !some_shares.is_empty() {
                    let with_shares = RawRnd { shares: some_shares.clone(), proof: Some(p.clone()) };
                    self.present_row(cs, "uncovered-row", u, &with_shares, "shares of the namespace (from another row) with an absence proof, for a row that does not cover it");
                    let mut q = p.clone();
                    q.leaf_hash.clear();
                    (q.start, q.end) = (c as i64, (c + some_shares.len()) as i64);
                    let with_shares = RawRnd { shares: some_shares.clone(), proof: Some(q) };
                    self.present_row(cs, "uncovered-row", u, &with_shares, "shares of the namespace (from another row) with a presence proof, for a row that does not cover it");
                }
            }
        }
        // data of another namespace of this square presented for this one
        for o in others.iter().filter(|o| o.nsb != cs.nsb && !o.truth.is_empty()).take(2) {
            if let Ok(Ok(orows)) = guard(|| sq.eds.get_namespace_data(o.ns, &sq.dah, HEIGHT)) {
                let v: Vec<RawRnd> = orows.iter().map(|(_, d)| RawRnd::from(d.clone())).collect();
                self.present(cs, "other-namespace", &v, &format!("honest data of namespace {}", ns_hex(&o.nsb)));
                let mut v2 = v.clone();
                for r in v2.iter_mut() {
                    for s in r.shares.iter_mut() {
                        if s.data.len() >= NS_SIZE {
                            s.data[..NS_SIZE].copy_from_slice(&cs.nsb);
                        }
                    }
                }
                self.present(cs, "other-namespace", &v2, &format!("honest data of namespace {} with the namespace bytes rewritten", ns_hex(&o.nsb)));
                // entries spliced: honest list with one entry taken from the other namespace
                if n >= 1 && !v.is_empty() {
                    let mut v3 = honest.clone();
                    let k = rng.gen_range(0..n);
                    v3[k] = v[rng.gen_range(0..v.len())].clone();
                    self.present(cs, "other-namespace", &v3, &format!("entry {k} replaced by an entry of namespace {}", ns_hex(&o.nsb)));
                }
            }
        }
        // same namespace in another square
        if other_sq.w == sq.w {
            if let Ok(Ok(orows)) = guard(|| other_sq.eds.get_namespace_data(cs.ns, &other_sq.dah, HEIGHT)) {
                let v: Vec<RawRnd> = orows.iter().map(|(_, d)| RawRnd::from(d.clone())).collect();
                self.present(cs, "other-square", &v, "honest data of the same namespace of another square");
            }
        }

        // ---- row-level families, applied inside the list and through the per-row API ----------
        let picks: Vec<usize> = if n <= 3 { (0..n).collect() } else { vec![0, n - 1, rng.gen_range(1..n - 1)] };
        for k in picks {
            let r = rows[k].0.row_index() as usize;
            let nb = if n >= 2 { Some(&honest[if k + 1 < n { k + 1 } else { k - 1 }]) } else { None };
            for (family, variant, note) in self.row_variants(cs, rng, r, &rows[k].1, nb) {
                let mut v = honest.clone();
                v[k] = variant.clone();
                self.present(cs, family, &v, &format!("entry {k} (row {r}): {note}"));
                self.present_row(cs, family, r, &variant, &note);
            }
        }

        // ---- byte-level mutations of the honest encoding --------------------------------------
        for _ in 0..4 {
            let mut bytes = (self.codec.frame)(&honest);
            let m = vcore::mutate_bytes(rng, &mut bytes);
            self.present_bytes(cs, "bytes-mutated", &bytes, &format!("mutation {m}"));
        }
    }

    fn square(&self, ods_width: usize, k: u64) {
        let ctx = self.ctx;
        let mut rng = ctx.rng(ods_width as u64, k);
        let Some(sq) = make_square(ctx, &mut rng, ods_width) else { return };
        let Some(other_sq) = make_square(ctx, &mut rng, ods_width) else { return };

        // namespaces to query
        let mut nss: Vec<[u8; NS_SIZE]> = sq.namespaces.iter().map(ns_bytes).collect();
        let present: Vec<[u8; NS_SIZE]> = nss.clone();
        nss.push(PARITY_NS);
        for p in &present {
            for up in [true, false] {
                if let Some(x) = ns_step(p, up) {
                    nss.push(ns_bytes(&x));
                }
            }
        }
        for fixed in [
            Namespace::TRANSACTION,
            Namespace::PAY_FOR_BLOB,
            Namespace::PRIMARY_RESERVED_PADDING,
            Namespace::MIN_SECONDARY_RESERVED,
            Namespace::TAIL_PADDING,
            Namespace::const_v0([0; 10]),
            Namespace::const_v0([0xff; 10]),
            Namespace::const_v255(0x7f),
        ] {
            nss.push(ns_bytes(&fixed));
        }
        for _ in 0..2 {
            let cluster = rng.gen_bool(0.5);
            nss.push(ns_bytes(&vgen::random_user_namespace(&mut rng, cluster)));
        }
        nss.sort();
        nss.dedup();

        let cases: Vec<Case> = nss
            .iter()
            .filter_map(|nsb| {
                let ns = ns_of(nsb)?;
                let truth = sq.scan(nsb);
                let is_present = truth.iter().any(|(_, s)| !s.is_empty());
                let class = if *nsb == PARITY_NS {
                    "parity"
                } else if is_present && ns.is_reserved() {
                    "present-reserved"
                } else if is_present && truth.len() >= 2 {
                    "present-multi-row"
                } else if is_present {
                    "present"
                } else if !truth.is_empty() {
                    "absent-in-range"
                } else {
                    "out-of-range"
                };
                Some(Case { sq: &sq, ns, nsb: *nsb, class, truth })
            })
            .collect();

        for cs in &cases {
            ctx.count("pairs");
            ctx.count(&format!("pairs.class={}", cs.class));
            let Some(rows) = self.honest(cs) else { continue };
            // the parity namespace of big squares has w/2 rows of w shares: keep its mutation load bounded
            if cs.class == "parity" && sq.w > 16 && !rng.gen_bool(0.25) {
                continue;
            }
            self.adversarial(cs, &cases, &other_sq, &mut rng, &rows);
        }
    }
}

fn rng_byte(v: &[u8]) -> usize {
    // deterministic position derived from content (used inside a non-mutable closure)
    if v.is_empty() { 0 } else { (vcore::hash64(v) % v.len() as u64) as usize }
}

pub fn run_with(ctx: &Ctx, codec: &Codec) {
    ctx.rule(
        "Squares from vgen::square (EDS widths 2..64); per square every present namespace (reserved, padding, tail \
         padding), the parity namespace, +-1 neighbours of present namespaces, fixed reserved / extreme and random \
         namespaces; each pair is classified by the brute-force scan as present / present-multi-row / \
         present-reserved / absent-in-range / out-of-range / parity. Honest = get_namespace_data, per-row verify and \
         round trip, whole verify, encode -> decode -> verify, all compared with the scan. Adversarial = row and share \
         level edits of the honest data (incl. shares hidden behind a valid narrowed range proof, presence <-> absence \
         conversions, neighbour rows / namespaces / squares, edited ranges and siblings), byte mutations. Non-trivial \
         = honest acceptance of a distinct (width, namespace, content), or a candidate whose content differs from \
         the scan.",
    );
    ctx.assume("ExtendedDataSquare::from_ods yields the square whose cells are the ground truth (decided by C08)");
    ctx.assume("DAH roots were cross-checked against an independent NMT implementation (vcore::sha) over the raw cells");
    ctx.assume("row coverage of a namespace = committed min..max range of the row with IgnoreMaxNamespace, recomputed from the raw cells");
    ctx.extra("codec", json!(codec.name));

    let widths = [1usize, 2, 4, 8, 16, 32];
    let quick = ctx.quick();
    let per_width = move |w: usize| -> usize {
        if quick {
            match w {
                1 => 4,
                2 | 4 => 6,
                8 | 16 => 4,
                _ => 2,
            }
        } else {
            match w {
                1 => 16,
                2 | 4 => 120,
                8 | 16 => 100,
                _ => 40,
            }
        }
    };
    let items = work_items(&widths, &per_width);
    let shards = ctx.cores();
    let mon = Mon { ctx, codec };
    ctx.par(shards, |shard| {
        for (i, (w, k)) in items.iter().enumerate() {
            if i % shards == shard {
                mon.square(*w, *k);
            }
        }
    });

    ctx.floor("pairs", ctx.scale(250, 8_000));
    ctx.floor("honest.accepted", ctx.scale(250, 8_000));
    for class in ["present-multi-row", "present-reserved", "absent-in-range", "out-of-range", "parity"] {
        ctx.floor(&format!("honest.accepted.class={class}"), ctx.scale(10, 100));
    }
    ctx.floor("honest.accepted.class=present", ctx.scale(3, 30));
    ctx.floor("honest.rows_with_absence_proof", ctx.scale(20, 200));
    ctx.floor("adv.rejected", ctx.scale(5_000, 100_000));
    ctx.floor("adv.nontrivial", ctx.scale(5_000, 100_000));
    ctx.floor("adv.drop-share-narrowed-proof.rejected", ctx.scale(50, 1_000));
    ctx.floor("adv.drop-row.rejected", ctx.scale(100, 2_000));
}
