//! C16 — shared machinery of the two C16 monitors (vt: celestia-types decoders, vn: node codecs).
//!
//! * fixtures with ground truth (honest squares, DAHs, signed headers built with `vgen`),
//! * a tiny protobuf wire-level parser / re-emitter used as a framing-aware mutator and shrinker,
//! * structured adversarial generators on the public `celestia_proto` raw types,
//! * the execution engine: run a target under `vcore::guard`, classify the outcome, count coverage,
//!   turn a panic into a violation (with a shrunk input).
//!
//! This file is included by `vt/src/c16.rs` and (via `#[path]`) by `vn/src/c16.rs`; it only uses
//! crates both binaries depend on.
#![allow(dead_code)]

use std::collections::{BTreeMap, BTreeSet, HashMap};
use std::sync::Mutex;

use bytes::BytesMut;
use celestia_proto::celestia::core::v1::proof::{
    NmtProof as RawNmtProof, Proof as RawMerkleProof, RowProof as RawRowProof,
    ShareProof as RawShareProof,
};
use celestia_proto::header::pb::ExtendedHeader as RawExtendedHeader;
use celestia_proto::proof::pb::Proof as RawProof;
use celestia_proto::share::eds::byzantine::pb::{BadEncoding as RawBefp, Share as RawBefpShare};
use celestia_proto::shwap::{
    Row as RawRow, RowNamespaceData as RawRnd, Sample as RawSample,
    Share as RawShare,
};
use celestia_types::consts::appconsts::{AppVersion, SHARE_SIZE};
use celestia_types::nmt::{NS_SIZE, Namespace, NamespaceProof, NamespacedHashExt};
use celestia_types::{AxisType, DataAvailabilityHeader, ExtendedDataSquare, ExtendedHeader};
use prost::Message;
use tendermint_proto::Protobuf;
use vcore::{ChaCha8Rng, Ctx, Rng, SliceRandom, json, mutate_bytes, panic_site, rand_bytes};
use vgen::chain::{Flag, HeaderSpec, Val, build_header, random_block_id};

pub const NODE_SIZE: usize = 2 * NS_SIZE + 32;

/// Random bytes of a length drawn from `lens`.
pub fn rb(rng: &mut ChaCha8Rng, lens: &[usize]) -> Vec<u8> {
    let n = *lens.choose(rng).unwrap();
    rand_bytes(rng, n)
}

// ---------------------------------------------------------------------------------------------
// Fixtures
// ---------------------------------------------------------------------------------------------

/// An honest block: square, DAH, signed header — plus precomputed honest pieces adversarial
/// messages are assembled from.
pub struct Fixture {
    pub idx: usize,
    pub app: AppVersion,
    pub ods_w: usize,
    pub w: usize,
    pub height: u64,
    pub eds: ExtendedDataSquare,
    pub dah: DataAvailabilityHeader,
    pub header: ExtendedHeader,
    /// valid successors of `header` by the same validators: adjacent, and 5 blocks later
    pub next_header: ExtendedHeader,
    pub far_header: ExtendedHeader,
    /// inclusion proof of every row root in the data root
    pub root_proofs: Vec<RawMerkleProof>,
    pub vals: Vec<Val>,
    /// raw share bytes, row-major
    pub shares: Vec<Vec<u8>>,
    /// single-leaf inclusion proofs of every cell under its row root / column root
    pub row_proofs: Vec<RawProof>,
    pub col_proofs: Vec<RawProof>,
    /// pool of honest 90-byte NMT nodes (siblings and roots)
    pub nodes: Vec<Vec<u8>>,
    /// namespaces present in the ODS
    pub namespaces: Vec<Namespace>,
    /// namespaces not present (some inside a row's range, some outside)
    pub absent: Vec<Namespace>,
    /// A header over an incorrectly encoded square (real fraud), with the broken axis.
    pub bad: Option<BadSquare>,
    /// honest per-row namespace data of every namespace `any_ns` can return (None: row range
    /// does not contain the namespace)
    pub rnd_cache: HashMap<Namespace, Vec<Option<RawRnd>>>,
    /// honest share proofs of the present namespaces
    pub share_proofs: Vec<RawShareProof>,
}

pub struct BadSquare {
    pub eds: ExtendedDataSquare,
    pub header: ExtendedHeader,
    pub axis: AxisType,
    pub index: u16,
    pub shares: Vec<Vec<u8>>,
    pub row_proofs: Vec<RawProof>,
    pub col_proofs: Vec<RawProof>,
}

pub fn fixed_time() -> tendermint::Time {
    tendermint::Time::from_unix_timestamp(1_700_000_000, 0).unwrap()
}

pub fn raw_proof_from(p: NamespaceProof) -> RawProof {
    RawProof::from(p)
}

fn single_leaf_proofs(eds: &ExtendedDataSquare, w: usize) -> (Vec<RawProof>, Vec<RawProof>) {
    let mut rows = Vec::with_capacity(w * w);
    let mut cols = vec![RawProof::default(); w * w];
    for r in 0..w {
        let mut nmt = eds.row_nmt(r as u16).unwrap();
        for c in 0..w {
            let p = nmt.build_range_proof(c..c + 1);
            rows.push(RawProof {
                start: c as i64,
                end: c as i64 + 1,
                nodes: p.siblings().iter().map(|h| h.to_vec()).collect(),
                leaf_hash: vec![],
                is_max_namespace_ignored: true,
            });
        }
    }
    for c in 0..w {
        let mut nmt = eds.column_nmt(c as u16).unwrap();
        for r in 0..w {
            let p = nmt.build_range_proof(r..r + 1);
            cols[r * w + c] = RawProof {
                start: r as i64,
                end: r as i64 + 1,
                nodes: p.siblings().iter().map(|h| h.to_vec()).collect(),
                leaf_hash: vec![],
                is_max_namespace_ignored: true,
            };
        }
    }
    (rows, cols)
}

pub fn sign_header(
    rng: &mut ChaCha8Rng,
    vals: &[Val],
    height: u64,
    app: AppVersion,
    dah: DataAvailabilityHeader,
    flags: &[Flag],
) -> ExtendedHeader {
    sign_header_after(rng, vals, height, app, dah, flags, None)
}

/// Like `sign_header`; with `prev` the header links to it (last_block_id) and is `height - prev.height`
/// block times later.
pub fn sign_header_after(
    rng: &mut ChaCha8Rng,
    vals: &[Val],
    height: u64,
    app: AppVersion,
    dah: DataAvailabilityHeader,
    flags: &[Flag],
    prev: Option<&ExtendedHeader>,
) -> ExtendedHeader {
    let chain_id: tendermint::chain::Id = "c16-chain".try_into().unwrap();
    let (last, time) = match prev {
        Some(p) => (
            if height == p.height() + 1 { p.commit.block_id } else { random_block_id(rng) },
            (p.time() + std::time::Duration::from_secs(12 * (height - p.height()))).unwrap(),
        ),
        None => (random_block_id(rng), fixed_time()),
    };
    build_header(
        rng,
        HeaderSpec {
            chain_id: &chain_id,
            height,
            time,
            app_version: app.as_u64(),
            last_block_id: Some(last),
            vals,
            next_vals: vals,
            dah,
            flags,
        },
    )
}

/// Fixtures are a pure function of `(seed, idx)` so that a replay can rebuild them.
pub fn build_fixture(ctx: &Ctx, idx: usize) -> Fixture {
    let mut rng = ctx.rng(1000, idx as u64);
    let ods_w = [1usize, 2, 2, 4, 4, 8, 16, 32][idx % 8];
    let app = vgen::square::ALL_APP_VERSIONS[(idx * 3 + 2) % 7];
    let (eds, _ods, info) = vgen::square::gen_eds(&mut rng, ods_w, app);
    let w = 2 * ods_w;
    let dah = DataAvailabilityHeader::from_eds(&eds);
    let height = 10 + idx as u64 * 7;
    let n_vals = 1 + idx % 3;
    let vals: Vec<Val> = (0..n_vals).map(|i| Val::new(&mut rng, 10 + i as u64)).collect();
    let header = sign_header(&mut rng, &vals, height, app, dah.clone(), &[]);
    let next_header = sign_header_after(&mut rng, &vals, height + 1, app, dah.clone(), &[], Some(&header));
    let far_header = sign_header_after(&mut rng, &vals, height + 5, app, dah.clone(), &[], Some(&header));
    let root_proofs: Vec<RawMerkleProof> = RawRowProof::from(dah.row_proof(0..=(w as u16 - 1)).unwrap()).proofs;
    let shares: Vec<Vec<u8>> = eds.data_square().iter().map(|s| s.to_vec()).collect();
    let (row_proofs, col_proofs) = single_leaf_proofs(&eds, w);
    let mut nodes: Vec<Vec<u8>> = Vec::new();
    for p in row_proofs.iter().chain(col_proofs.iter()) {
        for n in &p.nodes {
            if nodes.len() < 512 {
                nodes.push(n.clone());
            }
        }
    }
    for r in dah.row_roots().iter().chain(dah.column_roots().iter()) {
        nodes.push(r.to_vec());
    }
    let namespaces = info.namespaces.clone();
    let mut absent = Vec::new();
    for _ in 0..4 {
        let cl = rng.gen_bool(0.5);
        let ns = vgen::square::random_user_namespace(&mut rng, cl);
        if !namespaces.contains(&ns) {
            absent.push(ns);
        }
    }
    absent.push(Namespace::new_v0(&[0, 0, 0, 0, 0, 0, 0, 0, 1, 0]).unwrap());
    absent.push(Namespace::const_v0([0xfe; 10]));

    // real fraud: break parity of more than half of one axis of the extended square
    let bad = if w >= 4 && w <= 16 {
        let axis = if rng.gen_bool(0.5) { AxisType::Row } else { AxisType::Col };
        let index = rng.gen_range(0..ods_w) as u16;
        let mut sq = shares.clone();
        for k in ods_w..w {
            let (r, c) = match axis {
                AxisType::Row => (index as usize, k),
                AxisType::Col => (k, index as usize),
            };
            for b in sq[r * w + c][40..].iter_mut() {
                *b = rng.r#gen();
            }
        }
        ExtendedDataSquare::new(sq, "Leopard".into(), app).ok().map(|bad_eds| {
            let bad_dah = DataAvailabilityHeader::from_eds(&bad_eds);
            let header = sign_header(&mut rng, &vals, height, app, bad_dah, &[]);
            let shares: Vec<Vec<u8>> = bad_eds.data_square().iter().map(|s| s.to_vec()).collect();
            let (row_proofs, col_proofs) = single_leaf_proofs(&bad_eds, w);
            BadSquare { eds: bad_eds, header, axis, index, shares, row_proofs, col_proofs }
        })
    } else {
        None
    };

    let mut fxt = Fixture {
        idx,
        app,
        ods_w,
        w,
        height,
        eds,
        dah,
        header,
        next_header,
        far_header,
        root_proofs,
        vals,
        shares,
        row_proofs,
        col_proofs,
        nodes,
        namespaces,
        absent,
        bad,
        rnd_cache: HashMap::new(),
        share_proofs: Vec::new(),
    };
    let mut all_ns: Vec<Namespace> = fxt.namespaces.iter().chain(fxt.absent.iter()).copied().collect();
    all_ns.push(Namespace::PARITY_SHARE);
    all_ns.push(Namespace::TAIL_PADDING);
    for ns in all_ns {
        let rows: Vec<Option<RawRnd>> = (0..w).map(|r| compute_rnd(&fxt, ns, r)).collect();
        fxt.rnd_cache.insert(ns, rows);
    }
    fxt.share_proofs = fxt.namespaces.iter().filter_map(|ns| compute_share_proof(&fxt, *ns)).collect();
    fxt
}

impl Fixture {
    pub fn share(&self, r: usize, c: usize) -> &Vec<u8> {
        &self.shares[(r % self.w) * self.w + (c % self.w)]
    }
    pub fn any_ns(&self, rng: &mut ChaCha8Rng) -> Namespace {
        match rng.gen_range(0..10) {
            0..=5 => *self.namespaces.choose(rng).unwrap(),
            6 | 7 => *self.absent.choose(rng).unwrap(),
            8 => Namespace::PARITY_SHARE,
            _ => Namespace::TAIL_PADDING,
        }
    }
}

/// The request-side context of a decoder call (what *we* asked for). All targets share it so that
/// a replay file can carry it generically.
#[derive(Clone, Debug)]
pub struct Params {
    pub fx: usize,
    pub row: u16,
    pub col: u16,
    pub ns: Namespace,
    pub aux: u64,
}

impl Params {
    pub fn new(fx: usize) -> Params {
        Params { fx, row: 0, col: 0, ns: Namespace::TAIL_PADDING, aux: 0 }
    }
    pub fn to_json(&self) -> vcore::Value {
        json!({"fx": self.fx, "row": self.row, "col": self.col, "ns": hex::encode_ns(self.ns.as_bytes()), "aux": self.aux})
    }
    pub fn from_json(v: &vcore::Value) -> Option<Params> {
        Some(Params {
            fx: v.get("fx")?.as_u64()? as usize,
            row: v.get("row")?.as_u64()? as u16,
            col: v.get("col")?.as_u64()? as u16,
            ns: Namespace::from_raw(&hex::decode(v.get("ns")?.as_str()?)?).ok()?,
            aux: v.get("aux")?.as_u64()?,
        })
    }
    /// Random coordinates: mostly inside the square, sometimes on / beyond the edge.
    pub fn random(rng: &mut ChaCha8Rng, fxs: &[Fixture]) -> Params {
        // fixtures are ordered by size; prefer the small (cheap) ones
        let fx = rng.gen_range(0..fxs.len()).min(rng.gen_range(0..fxs.len()));
        let f = &fxs[fx];
        let coord = |rng: &mut ChaCha8Rng| -> u16 {
            match rng.gen_range(0..12) {
                0 => f.w as u16,
                1 => u16::MAX,
                2 => (f.w as u16).wrapping_add(rng.gen_range(0..4)),
                3 => rng.r#gen(),
                4 => f.ods_w as u16,
                5 => (f.ods_w as u16).saturating_sub(1),
                _ => rng.gen_range(0..f.w as u16),
            }
        };
        Params { fx, row: coord(rng), col: coord(rng), ns: f.any_ns(rng), aux: rng.r#gen() }
    }
}

/// Minimal hex helpers (the harness binaries do not all depend on the `hex` crate).
pub mod hex {
    pub fn encode(b: &[u8]) -> String {
        const T: &[u8; 16] = b"0123456789abcdef";
        let mut s = String::with_capacity(b.len() * 2);
        for x in b {
            s.push(T[(x >> 4) as usize] as char);
            s.push(T[(x & 15) as usize] as char);
        }
        s
    }
    pub fn encode_ns(b: &[u8]) -> String {
        encode(b)
    }
    pub fn decode(s: &str) -> Option<Vec<u8>> {
        if s.len() % 2 != 0 {
            return None;
        }
        (0..s.len() / 2).map(|i| u8::from_str_radix(&s[2 * i..2 * i + 2], 16).ok()).collect()
    }
}

// ---------------------------------------------------------------------------------------------
// Protobuf wire-level tree: framing-aware mutation and shrinking
// ---------------------------------------------------------------------------------------------

#[derive(Clone, Debug)]
pub enum Pb {
    Varint(u32, u64),
    F64(u32, [u8; 8]),
    F32(u32, [u8; 4]),
    Bytes(u32, Vec<u8>),
    Msg(u32, Vec<Pb>),
}

fn rd_varint(b: &[u8], i: &mut usize) -> Option<u64> {
    let mut v = 0u64;
    for k in 0..10 {
        let x = *b.get(*i)?;
        *i += 1;
        v |= ((x & 0x7f) as u64) << (7 * k).min(63);
        if x & 0x80 == 0 {
            return Some(v);
        }
    }
    None
}

pub fn wr_varint(out: &mut Vec<u8>, mut v: u64) {
    loop {
        let b = (v & 0x7f) as u8;
        v >>= 7;
        if v == 0 {
            out.push(b);
            return;
        }
        out.push(b | 0x80);
    }
}

/// Over-long (non-canonical) varint of exactly `len` bytes (len in 1..=10).
pub fn wr_varint_padded(out: &mut Vec<u8>, v: u64, len: usize) {
    let mut v = v;
    for k in 0..len {
        let b = (v & 0x7f) as u8;
        v >>= 7;
        out.push(if k + 1 == len { b } else { b | 0x80 });
    }
}

pub fn pb_parse(b: &[u8], depth: u32) -> Option<Vec<Pb>> {
    let mut i = 0;
    let mut out = Vec::new();
    while i < b.len() {
        let key = rd_varint(b, &mut i)?;
        let tag = (key >> 3) as u32;
        if tag == 0 || key >> 3 > u32::MAX as u64 >> 3 {
            return None;
        }
        match key & 7 {
            0 => out.push(Pb::Varint(tag, rd_varint(b, &mut i)?)),
            1 => {
                let s = b.get(i..i + 8)?;
                i += 8;
                out.push(Pb::F64(tag, s.try_into().unwrap()));
            }
            5 => {
                let s = b.get(i..i + 4)?;
                i += 4;
                out.push(Pb::F32(tag, s.try_into().unwrap()));
            }
            2 => {
                let n = rd_varint(b, &mut i)? as usize;
                let s = b.get(i..i.checked_add(n)?)?;
                i += n;
                // fixed-size blobs (shares, hashes, NMT nodes, signatures) are kept as bytes
                let blob = matches!(n, 0 | 20 | 28 | 29 | 32 | 64 | 90 | 512 | 541);
                match (!blob && depth > 0).then(|| pb_parse(s, depth - 1)).flatten() {
                    Some(sub) => out.push(Pb::Msg(tag, sub)),
                    None => out.push(Pb::Bytes(tag, s.to_vec())),
                }
            }
            _ => return None,
        }
    }
    Some(out)
}

pub fn pb_emit(nodes: &[Pb], out: &mut Vec<u8>) {
    for n in nodes {
        match n {
            Pb::Varint(t, v) => {
                wr_varint(out, (*t as u64) << 3);
                wr_varint(out, *v);
            }
            Pb::F64(t, v) => {
                wr_varint(out, ((*t as u64) << 3) | 1);
                out.extend_from_slice(v);
            }
            Pb::F32(t, v) => {
                wr_varint(out, ((*t as u64) << 3) | 5);
                out.extend_from_slice(v);
            }
            Pb::Bytes(t, v) => {
                wr_varint(out, ((*t as u64) << 3) | 2);
                wr_varint(out, v.len() as u64);
                out.extend_from_slice(v);
            }
            Pb::Msg(t, sub) => {
                let mut inner = Vec::new();
                pb_emit(sub, &mut inner);
                wr_varint(out, ((*t as u64) << 3) | 2);
                wr_varint(out, inner.len() as u64);
                out.extend_from_slice(&inner);
            }
        }
    }
}

pub fn pb_bytes(nodes: &[Pb]) -> Vec<u8> {
    let mut v = Vec::new();
    pb_emit(nodes, &mut v);
    v
}

pub const EDGE_VARINTS: [u64; 22] = [
    0,
    1,
    2,
    63,
    64,
    65,
    127,
    128,
    255,
    256,
    65535,
    65536,
    (1 << 31) - 1,
    1 << 31,
    (1 << 32) - 1,
    1 << 32,
    (1 << 32) + 1,
    i64::MAX as u64,
    1 << 63,
    u64::MAX,
    u64::MAX - 1,
    0xffff_ffff_0000_0000,
];

/// One framing-preserving mutation of a wire tree (applied at a random node).
pub fn pb_mutate_tree(rng: &mut ChaCha8Rng, tree: &mut Vec<Pb>) -> &'static str {
    fn visit(rng: &mut ChaCha8Rng, v: &mut Vec<Pb>, budget: &mut i64) -> Option<&'static str> {
        // walk down randomly
        if v.is_empty() {
            return None;
        }
        let i = rng.gen_range(0..v.len());
        if let Pb::Msg(_, sub) = &mut v[i] {
            if rng.gen_bool(0.7) && *budget > 0 {
                *budget -= 1;
                if let Some(r) = visit(rng, sub, budget) {
                    return Some(r);
                }
            }
        }
        Some(match rng.gen_range(0..12) {
            0 => {
                v.remove(i);
                "pb:delete-field"
            }
            1 => {
                let c = v[i].clone();
                let n = *[1usize, 1, 2, 7, 64, 65, 130].choose(rng).unwrap();
                for _ in 0..n {
                    v.insert(i, c.clone());
                }
                "pb:repeat-field"
            }
            2 => {
                let j = rng.gen_range(0..v.len());
                v.swap(i, j);
                "pb:swap-fields"
            }
            3 | 4 => match &mut v[i] {
                Pb::Varint(_, x) => {
                    *x = *EDGE_VARINTS.choose(rng).unwrap();
                    "pb:varint-edge"
                }
                Pb::Bytes(_, b) => {
                    match rng.gen_range(0..6) {
                        0 => b.clear(),
                        1 => {
                            b.pop();
                        }
                        2 => b.push(rng.r#gen()),
                        3 => {
                            let n = *[1usize, 29, 32, 64, 89, 90, 91, 448, 512, 513, 576].choose(rng).unwrap();
                            *b = rand_bytes(rng, n);
                        }
                        4 => {
                            if !b.is_empty() {
                                let k = rng.gen_range(0..b.len());
                                b[k] ^= 1 << rng.gen_range(0..8);
                            }
                        }
                        _ => {
                            for x in b.iter_mut() {
                                *x = 0xff;
                            }
                        }
                    }
                    "pb:bytes-edit"
                }
                Pb::Msg(_, sub) => {
                    sub.clear();
                    "pb:empty-submessage"
                }
                Pb::F64(_, x) => {
                    *x = rng.r#gen();
                    "pb:fixed"
                }
                Pb::F32(_, x) => {
                    *x = rng.r#gen();
                    "pb:fixed"
                }
            },
            5 => {
                // change the tag (neighbouring field of the same message)
                let nt = rng.gen_range(1..8);
                match &mut v[i] {
                    Pb::Varint(t, _) | Pb::F64(t, _) | Pb::F32(t, _) | Pb::Bytes(t, _) | Pb::Msg(t, _) => *t = nt,
                }
                "pb:retag"
            }
            6 => {
                // change the wire type, keeping the tag
                let t = match &v[i] {
                    Pb::Varint(t, _) | Pb::F64(t, _) | Pb::F32(t, _) | Pb::Bytes(t, _) | Pb::Msg(t, _) => *t,
                };
                v[i] = match rng.gen_range(0..3) {
                    0 => Pb::Varint(t, *EDGE_VARINTS.choose(rng).unwrap()),
                    1 => {
                        let n = rng.gen_range(0..40);
                        Pb::Bytes(t, rand_bytes(rng, n))
                    }
                    _ => Pb::F64(t, rng.r#gen()),
                };
                "pb:wiretype"
            }
            7 => {
                // turn a message into opaque bytes and byte-mutate inside (keeps outer framing)
                if let Pb::Msg(t, sub) = &v[i] {
                    let mut b = pb_bytes(sub);
                    mutate_bytes(rng, &mut b);
                    v[i] = Pb::Bytes(*t, b);
                    "pb:inner-bytes"
                } else if let Pb::Bytes(_, b) = &mut v[i] {
                    mutate_bytes(rng, b);
                    "pb:inner-bytes"
                } else {
                    "pb:noop"
                }
            }
            8 => {
                v.insert(i, Pb::Varint(rng.gen_range(1..20), *EDGE_VARINTS.choose(rng).unwrap()));
                "pb:insert-varint"
            }
            9 => {
                if let Pb::Varint(_, x) = &mut v[i] {
                    *x = match rng.gen_range(0..4) {
                        0 => x.wrapping_add(1),
                        1 => x.wrapping_sub(1),
                        2 => *x ^ (1 << rng.gen_range(0..64)),
                        _ => x.wrapping_neg(),
                    };
                    "pb:varint-arith"
                } else {
                    "pb:noop"
                }
            }
            10 => {
                // copy another node of the same vec over this one (keeps own tag)
                let j = rng.gen_range(0..v.len());
                let t = match &v[i] {
                    Pb::Varint(t, _) | Pb::F64(t, _) | Pb::F32(t, _) | Pb::Bytes(t, _) | Pb::Msg(t, _) => *t,
                };
                let mut c = v[j].clone();
                match &mut c {
                    Pb::Varint(tt, _) | Pb::F64(tt, _) | Pb::F32(tt, _) | Pb::Bytes(tt, _) | Pb::Msg(tt, _) => *tt = t,
                }
                v[i] = c;
                "pb:copy-sibling"
            }
            _ => {
                v.truncate(i);
                "pb:truncate-fields"
            }
        })
    }
    let mut budget = 6;
    visit(rng, tree, &mut budget).unwrap_or("pb:noop")
}

/// Framing-aware mutation of an encoded message; falls back to byte mutation.
pub fn pb_mutate(rng: &mut ChaCha8Rng, data: &mut Vec<u8>) -> &'static str {
    match pb_parse(data, 5) {
        Some(mut tree) if !tree.is_empty() => {
            let what = pb_mutate_tree(rng, &mut tree);
            *data = pb_bytes(&tree);
            what
        }
        _ => mutate_bytes(rng, data),
    }
}

/// Delete nodes / empty byte strings of the wire tree while `pred` (same panic) keeps holding.
pub fn pb_shrink(input: &[u8], pred: &dyn Fn(&[u8]) -> bool, max_runs: usize) -> Vec<u8> {
    fn vec_at<'a>(tree: &'a mut Vec<Pb>, path: &[usize]) -> &'a mut Vec<Pb> {
        let mut v = tree;
        for &i in path {
            v = match &mut v[i] {
                Pb::Msg(_, s) => s,
                _ => unreachable!(),
            };
        }
        v
    }
    fn pass(tree: &mut Vec<Pb>, path: &mut Vec<usize>, pred: &dyn Fn(&[u8]) -> bool, runs: &mut usize, max: usize) {
        let mut i = 0;
        loop {
            if i >= vec_at(tree, path).len() || *runs >= max {
                return;
            }
            let saved = vec_at(tree, path).remove(i);
            *runs += 1;
            if pred(&pb_bytes(tree)) {
                continue;
            }
            vec_at(tree, path).insert(i, saved);
            let kind = match &vec_at(tree, path)[i] {
                Pb::Msg(..) => 0,
                Pb::Bytes(_, b) if !b.is_empty() => 1,
                Pb::Varint(_, x) if *x != 0 => 2,
                _ => 3,
            };
            match kind {
                0 => {
                    path.push(i);
                    pass(tree, path, pred, runs, max);
                    path.pop();
                }
                1 => {
                    let old = match &mut vec_at(tree, path)[i] {
                        Pb::Bytes(_, b) => std::mem::take(b),
                        _ => unreachable!(),
                    };
                    *runs += 1;
                    if !pred(&pb_bytes(tree)) {
                        if let Pb::Bytes(_, b) = &mut vec_at(tree, path)[i] {
                            *b = old;
                        }
                    }
                }
                2 => {
                    let old = match &mut vec_at(tree, path)[i] {
                        Pb::Varint(_, x) => std::mem::replace(x, 0),
                        _ => unreachable!(),
                    };
                    *runs += 1;
                    if !pred(&pb_bytes(tree)) {
                        if let Pb::Varint(_, x) = &mut vec_at(tree, path)[i] {
                            *x = old;
                        }
                    }
                }
                _ => {}
            }
            i += 1;
        }
    }
    let mut runs = 0usize;
    let mut best = input.to_vec();
    if let Some(mut tree) = pb_parse(input, 5) {
        let canon = pb_bytes(&tree);
        runs += 1;
        if pred(&canon) {
            best = canon;
            let mut path = Vec::new();
            pass(&mut tree, &mut path, pred, &mut runs, max_runs);
            let out = pb_bytes(&tree);
            if pred(&out) {
                best = out;
            }
        }
    }
    // byte-level chunk removal for what is left (or for non-protobuf inputs)
    let mut chunk = best.len() / 2;
    while chunk >= 1 && runs < max_runs && best.len() <= 4096 {
        let mut i = 0;
        while i + chunk <= best.len() && runs < max_runs {
            let mut cand = best.clone();
            cand.drain(i..i + chunk);
            runs += 1;
            if pred(&cand) {
                best = cand;
            } else {
                i += chunk;
            }
        }
        chunk /= 2;
    }
    best
}

// ---------------------------------------------------------------------------------------------
// Structured adversarial generators (public raw types of celestia_proto)
// ---------------------------------------------------------------------------------------------

pub fn adv_i64(rng: &mut ChaCha8Rng, honest: i64, w: usize) -> i64 {
    let w = w as i64;
    match rng.gen_range(0..24) {
        0 => honest,
        1 => honest.wrapping_add(1),
        2 => honest.wrapping_sub(1),
        3 => 0,
        4 => 1,
        5 => w - 1,
        6 => w,
        7 => w + 1,
        8 => 2 * w,
        9 => -1,
        10 => i64::MIN,
        11 => i64::MAX,
        12 => u32::MAX as i64,
        13 => u32::MAX as i64 - 1,
        14 => 1 << 32,
        15 => (1i64 << 32).wrapping_add(honest),
        16 => 1 << 31,
        17 => (1 << 31) - 1,
        18 => i32::MIN as i64,
        19 => rng.gen_range(0..2 * w + 2),
        20 => -(rng.gen_range(1..w + 2)),
        21 => (1i64 << 16).wrapping_add(honest),
        22 => 65535,
        _ => rng.r#gen(),
    }
}

pub fn adv_node(rng: &mut ChaCha8Rng, fx: &Fixture) -> Vec<u8> {
    match rng.gen_range(0..12) {
        0 => rand_bytes(rng, NODE_SIZE),
        1 => vec![0u8; NODE_SIZE],
        2 => vec![0xff; NODE_SIZE],
        3 => {
            // parity..parity node
            let mut n = vec![0xff; 2 * NS_SIZE];
            n.extend(rand_bytes(rng, 32));
            n
        }
        4 => {
            // min > max
            let mut n = fx.nodes.choose(rng).unwrap().clone();
            let (a, b) = n.split_at_mut(NS_SIZE);
            a.swap_with_slice(&mut b[..NS_SIZE]);
            n
        }
        5 => rb(rng, &[0usize, 1, 32, 58, 89, 91, 180]),
        6 => {
            // well-formed node of a random user namespace
            let ns = fx.any_ns(rng);
            let mut n = ns.as_bytes().to_vec();
            n.extend_from_slice(ns.as_bytes());
            n.extend(rand_bytes(rng, 32));
            n
        }
        _ => fx.nodes.choose(rng).unwrap().clone(),
    }
}

pub const NODE_COUNTS: [usize; 20] = [0, 0, 1, 1, 2, 3, 4, 5, 8, 16, 31, 32, 33, 62, 63, 64, 65, 66, 100, 130];

/// Adversarial NMT proof derived from an honest one.
pub fn adv_proof(rng: &mut ChaCha8Rng, fx: &Fixture, base: &RawProof) -> RawProof {
    let mut p = base.clone();
    let n_mut = rng.gen_range(1..=3);
    for _ in 0..n_mut {
        match rng.gen_range(0..12) {
            0 | 1 => {
                // sibling count
                let n = *NODE_COUNTS.choose(rng).unwrap();
                let style = rng.gen_range(0..4);
                let mut nodes = Vec::with_capacity(n);
                for k in 0..n {
                    nodes.push(match style {
                        0 if !p.nodes.is_empty() => p.nodes[k % p.nodes.len()].clone(),
                        1 => {
                            let mut x = vec![0xff; 2 * NS_SIZE];
                            x.extend(rand_bytes(rng, 32));
                            x
                        }
                        2 => adv_node(rng, fx),
                        _ => fx.nodes.choose(rng).unwrap().clone(),
                    });
                }
                p.nodes = nodes;
            }
            2 => {
                p.start = adv_i64(rng, base.start, fx.w);
            }
            3 => {
                p.end = adv_i64(rng, base.end, fx.w);
            }
            4 => {
                let s = adv_i64(rng, base.start, fx.w);
                p.start = s;
                p.end = s.wrapping_add(*[1i64, 1, 1, 0, 2, -1, fx.w as i64].choose(rng).unwrap());
            }
            5 => {
                p.leaf_hash = match rng.gen_range(0..5) {
                    0 => vec![],
                    1 => rand_bytes(rng, NODE_SIZE),
                    2 => adv_node(rng, fx),
                    3 => {
                        // a leaf whose namespace is above everything (absence-proof shape)
                        let mut n = vec![0xfe; 2 * NS_SIZE];
                        n.extend(rand_bytes(rng, 32));
                        n
                    }
                    _ => fx.nodes.choose(rng).unwrap().clone(),
                };
            }
            6 => {
                if !p.nodes.is_empty() {
                    let i = rng.gen_range(0..p.nodes.len());
                    p.nodes[i] = adv_node(rng, fx);
                }
            }
            7 => p.is_max_namespace_ignored = !p.is_max_namespace_ignored,
            8 => {
                if !p.nodes.is_empty() {
                    match rng.gen_range(0..5) {
                        0 => p.nodes.reverse(),
                        1 => {
                            p.nodes.remove(0);
                        }
                        2 => {
                            p.nodes.pop();
                        }
                        3 => {
                            let x = p.nodes[0].clone();
                            p.nodes.push(x);
                        }
                        _ => p.nodes.rotate_left(1),
                    }
                }
            }
            9 => {
                // proof of another cell
                let other = if rng.gen_bool(0.5) { &fx.row_proofs } else { &fx.col_proofs };
                p = other.choose(rng).unwrap().clone();
            }
            10 => {
                // start with many one-bits (many left siblings expected) but few nodes
                p.start = *[3i64, 7, 15, 255, 65535, u32::MAX as i64, (1 << 31) - 1].choose(rng).unwrap();
                p.end = p.start + 1;
                p.nodes.truncate(rng.gen_range(0..3));
            }
            _ => {}
        }
    }
    p
}

pub fn adv_share_data(rng: &mut ChaCha8Rng, fx: &Fixture, r: usize, c: usize) -> Vec<u8> {
    match rng.gen_range(0..16) {
        0 => vec![],
        1 => rand_bytes(rng, SHARE_SIZE),
        2 => rb(rng, &[1usize, 28, 29, 30, 64, 128, 448, 511, 513, 576, 1024]),
        3 => fx.share(rng.gen_range(0..fx.w), rng.gen_range(0..fx.w)).clone(),
        4 => {
            // honest bytes, hostile namespace version / info byte
            let mut s = fx.share(r, c).clone();
            let i = *[0usize, 1, 18, 28, 29, 30, 33].choose(rng).unwrap();
            s[i] = rng.r#gen();
            s
        }
        5 => vec![0u8; SHARE_SIZE],
        6 => vec![0xff; SHARE_SIZE],
        7 => {
            // user namespace + sequence start with a hostile sequence length
            let mut s = fx.share(r, c).clone();
            s[NS_SIZE] = *[0u8, 1, 2, 3, 0xff].choose(rng).unwrap();
            let len: u32 = *[0u32, 1, 477, 478, 479, 1 << 16, 1 << 20].choose(rng).unwrap();
            s[NS_SIZE + 1..NS_SIZE + 5].copy_from_slice(&len.to_be_bytes());
            s
        }
        _ => fx.share(r, c).clone(),
    }
}

pub fn adv_enum(rng: &mut ChaCha8Rng, honest: i32) -> i32 {
    match rng.gen_range(0..10) {
        0 => 0,
        1 => 1,
        2 => 2,
        3 => -1,
        4 => i32::MAX,
        5 => i32::MIN,
        6 => 1i32.wrapping_sub(honest),
        _ => honest,
    }
}

/// Sample for `(p.row, p.col)` of fixture `fx` — honest skeleton, adversarial parts.
pub fn adv_sample(rng: &mut ChaCha8Rng, fx: &Fixture, p: &Params) -> RawSample {
    let (r, c) = (p.row as usize % fx.w, p.col as usize % fx.w);
    let axis = rng.gen_range(0..2);
    let base = if axis == 0 { &fx.row_proofs[r * fx.w + c] } else { &fx.col_proofs[r * fx.w + c] };
    let mut s = RawSample {
        share: Some(RawShare { data: fx.share(r, c).clone() }),
        proof: Some(base.clone()),
        proof_type: axis,
    };
    for _ in 0..rng.gen_range(1..=2) {
        match rng.gen_range(0..8) {
            0 => s.share = None,
            1 => s.proof = None,
            2 => s.proof_type = adv_enum(rng, axis),
            3 => s.share = Some(RawShare { data: adv_share_data(rng, fx, r, c) }),
            _ => s.proof = Some(adv_proof(rng, fx, base)),
        }
    }
    s
}

pub fn adv_row(rng: &mut ChaCha8Rng, fx: &Fixture, p: &Params) -> RawRow {
    let r = p.row as usize % fx.w;
    let right = rng.gen_bool(0.4);
    let honest: Vec<Vec<u8>> =
        (0..fx.ods_w).map(|c| fx.share(r, if right { fx.ods_w + c } else { c }).clone()).collect();
    let mut shares = honest.clone();
    let mut half_side = right as i32;
    for _ in 0..rng.gen_range(1..=2) {
        match rng.gen_range(0..10) {
            0 => {
                // share count
                let n = *[0usize, 0, 1, 2, 3, 5, 7, 9, 64, 127, 128, 129, 130, 255, 256, 257].choose(rng).unwrap();
                let n = if rng.gen_bool(0.5) { n } else { (fx.ods_w + rng.gen_range(0..3)).saturating_sub(1) };
                shares = (0..n).map(|k| honest[k % honest.len()].clone()).collect();
            }
            1 => {
                // all shares of another (equal) size
                let sz = *[0usize, 1, 64, 128, 192, 448, 576, 1024].choose(rng).unwrap();
                for s in shares.iter_mut() {
                    s.resize(sz, 0xaa);
                }
            }
            2 => {
                if !shares.is_empty() {
                    let i = rng.gen_range(0..shares.len());
                    shares[i] = adv_share_data(rng, fx, r, i);
                }
            }
            3 => half_side = adv_enum(rng, half_side),
            4 => half_side = 1i32.wrapping_sub(half_side),
            5 => {
                // shares of another row (root mismatch), or a bottom-half row
                let rr = rng.gen_range(0..fx.w);
                shares = (0..fx.ods_w).map(|c| fx.share(rr, if half_side == 1 { fx.ods_w + c } else { c }).clone()).collect();
            }
            6 => {
                if !shares.is_empty() {
                    let j = rng.gen_range(0..shares.len());
                    shares.swap(0, j);
                }
            }
            7 => {
                for s in shares.iter_mut() {
                    s.clear();
                }
            }
            _ => {}
        }
    }
    RawRow { shares_half: shares.into_iter().map(|data| RawShare { data }).collect(), half_side }
}

/// Honest RowNamespaceData (raw) of namespace `ns` in row `r`, if the row range contains it.
pub fn honest_rnd(fx: &Fixture, ns: Namespace, r: usize) -> Option<RawRnd> {
    match fx.rnd_cache.get(&ns) {
        Some(rows) => rows.get(r).cloned().flatten(),
        None => compute_rnd(fx, ns, r),
    }
}

fn compute_rnd(fx: &Fixture, ns: Namespace, r: usize) -> Option<RawRnd> {
    if r >= fx.w || !fx.dah.row_contains(r as u16, ns).unwrap_or(false) {
        return None;
    }
    let shares: Vec<RawShare> = (0..fx.w)
        .filter(|c| fx.eds.share(r as u16, *c as u16).unwrap().namespace() == ns)
        .map(|c| RawShare { data: fx.share(r, c).clone() })
        .collect();
    let proof = fx.eds.row_nmt(r as u16).ok()?.get_namespace_proof(*ns);
    Some(RawRnd { shares, proof: Some(RawProof::from(NamespaceProof::from(proof))) })
}

pub fn adv_rnd(rng: &mut ChaCha8Rng, fx: &Fixture, p: &Params) -> RawRnd {
    let r = p.row as usize % fx.w;
    let mut d = honest_rnd(fx, p.ns, r).unwrap_or_else(|| RawRnd {
        shares: vec![],
        proof: Some(fx.row_proofs[r * fx.w].clone()),
    });
    let base = d.proof.clone().unwrap_or_default();
    for _ in 0..rng.gen_range(1..=2) {
        match rng.gen_range(0..10) {
            0 => d.proof = None,
            1 => d.shares.clear(),
            2 => {
                let c = rng.gen_range(0..fx.w);
                d.shares.push(RawShare { data: adv_share_data(rng, fx, r, c) });
            }
            3 => {
                d.shares.pop();
            }
            4 => {
                // shares of the requested namespace taken from anywhere in the square
                let nsb = p.ns.as_bytes();
                let all: Vec<&Vec<u8>> = fx.shares.iter().filter(|s| &s[..NS_SIZE] == nsb).collect();
                let n = rng.gen_range(0..=all.len().min(fx.w + 1));
                d.shares = all.into_iter().take(n).map(|s| RawShare { data: s.clone() }).collect();
            }
            5 => {
                // shares count far from the proof range
                let n = *[1usize, 2, 3, 17, 64, 129].choose(rng).unwrap();
                let s = d.shares.first().cloned().unwrap_or(RawShare { data: fx.share(r, 0).clone() });
                d.shares = vec![s; n];
            }
            _ => d.proof = Some(adv_proof(rng, fx, &base)),
        }
    }
    d
}

pub fn adv_nsdata(rng: &mut ChaCha8Rng, fx: &Fixture, p: &Params, allow_huge: bool) -> Vec<RawRnd> {
    let mut rows: Vec<RawRnd> = (0..fx.w).filter_map(|r| honest_rnd(fx, p.ns, r)).collect();
    for _ in 0..rng.gen_range(1..=2) {
        match rng.gen_range(0..10) {
            0 => rows.clear(),
            1 => {
                rows.pop();
            }
            2 => {
                let mut pp = p.clone();
                pp.row = rng.gen_range(0..fx.w as u16);
                rows.push(adv_rnd(rng, fx, &pp));
            }
            3 => {
                if !rows.is_empty() {
                    let i = rng.gen_range(0..rows.len());
                    let mut pp = p.clone();
                    pp.row = i as u16;
                    rows[i] = adv_rnd(rng, fx, &pp);
                }
            }
            4 => rows.reverse(),
            5 => {
                let n = if allow_huge && rng.gen_bool(0.1) {
                    *[65535usize, 65536, 65537].choose(rng).unwrap()
                } else {
                    *[1usize, 2, 3, 33, 257].choose(rng).unwrap()
                };
                // huge row counts only with tiny rows (keeps the generator's own memory bounded)
                let x = if n > 1000 {
                    RawRnd { shares: vec![], proof: Some(RawProof { start: 0, end: 1, ..Default::default() }) }
                } else {
                    rows.first().cloned().unwrap_or_default()
                };
                rows = vec![x; n];
            }
            _ => {
                let mut pp = p.clone();
                pp.row = rng.gen_range(0..fx.w as u16);
                let x = adv_rnd(rng, fx, &pp);
                if rows.is_empty() {
                    rows.push(x);
                } else {
                    let i = rng.gen_range(0..rows.len());
                    rows[i] = x;
                }
            }
        }
    }
    rows
}

/// Fraud proof over fixture `fx` (or its broken twin): every share honest and correctly placed.
pub fn honest_befp(rng: &mut ChaCha8Rng, fx: &Fixture, bad: bool, axis: AxisType, index: usize) -> RawBefp {
    let bad = bad && fx.bad.is_some();
    let header = if bad { &fx.bad.as_ref().unwrap().header } else { &fx.header };
    let mut shares = Vec::with_capacity(fx.w);
    for k in 0..fx.w {
        let (r, c) = match axis {
            AxisType::Row => (index, k),
            AxisType::Col => (k, index),
        };
        let proof_axis = if rng.gen_bool(0.5) { AxisType::Row } else { AxisType::Col };
        shares.push(befp_share(fx, bad, r, c, proof_axis));
    }
    RawBefp {
        header_hash: header.hash().as_bytes().to_vec(),
        height: header.height(),
        shares,
        index: index as u32,
        axis: axis as i32,
    }
}

/// The share at `(r, c)` with its inclusion proof along `proof_axis`, in BEFP wire form.
pub fn befp_share(fx: &Fixture, bad: bool, r: usize, c: usize, proof_axis: AxisType) -> RawBefpShare {
    let (shares, rp, cp) = match (&fx.bad, bad) {
        (Some(b), true) => (&b.shares, &b.row_proofs, &b.col_proofs),
        _ => (&fx.shares, &fx.row_proofs, &fx.col_proofs),
    };
    let (r, c) = (r % fx.w, c % fx.w);
    let share = &shares[r * fx.w + c];
    let mut data = if r < fx.ods_w && c < fx.ods_w { share[..NS_SIZE].to_vec() } else { vec![0xff; NS_SIZE] };
    data.extend_from_slice(share);
    let proof = match proof_axis {
        AxisType::Row => rp[r * fx.w + c].clone(),
        AxisType::Col => cp[r * fx.w + c].clone(),
    };
    RawBefpShare { data, proof: Some(proof), proof_axis: proof_axis as i32 }
}

pub fn adv_befp(rng: &mut ChaCha8Rng, fx: &Fixture, p: &mut Params) -> RawBefp {
    let bad = fx.bad.is_some() && rng.gen_bool(0.3);
    p.aux = bad as u64;
    let (axis, index) = match (&fx.bad, bad) {
        (Some(b), true) if rng.gen_bool(0.8) => (b.axis, b.index as usize),
        _ => (
            if rng.gen_bool(0.5) { AxisType::Row } else { AxisType::Col },
            rng.gen_range(0..fx.w),
        ),
    };
    let mut b = honest_befp(rng, fx, bad, axis, index);
    for _ in 0..rng.gen_range(0..=3) {
        match rng.gen_range(0..18) {
            0 => b.height = *[0u64, 1, u64::MAX, i64::MAX as u64, i64::MAX as u64 + 1, fx.height + 1].choose(rng).unwrap(),
            1 => b.header_hash = rb(rng, &[0usize, 31, 32, 33]),
            2 => b.index = *[0u32, fx.ods_w as u32, fx.w as u32 - 1, fx.w as u32, 65535, 65536, u32::MAX].choose(rng).unwrap(),
            3 => b.axis = adv_enum(rng, b.axis),
            4 => {
                // drop shares down to (around) the reconstruction threshold
                let mut idx: Vec<usize> = (0..b.shares.len()).collect();
                idx.shuffle(rng);
                let keep = (fx.ods_w + rng.gen_range(0..3)).saturating_sub(1);
                for i in idx.into_iter().skip(keep) {
                    b.shares[i] = RawBefpShare::default();
                }
            }
            5 => {
                let n = *[0usize, 1, fx.w - 1, fx.w + 1, 2 * fx.w, 255, 256, 257].choose(rng).unwrap();
                let x = b.shares.clone();
                b.shares = (0..n).map(|k| x.get(k % x.len().max(1)).cloned().unwrap_or_default()).collect();
            }
            6 | 7 => {
                // permute proven shares within the axis (position is not bound by the proof check)
                b.shares.shuffle(rng);
            }
            8 | 9 => {
                // honest share + proof of a *different* cell, proven on the orthogonal axis, so that
                // the root lookup `(axis, proof_axis, share_idx)` still selects a root it verifies under
                if !b.shares.is_empty() {
                    let k = rng.gen_range(0..b.shares.len().min(fx.w));
                    let other = rng.gen_range(0..fx.w);
                    b.shares[k] = match AxisType::try_from(b.axis).unwrap_or(AxisType::Row) {
                        AxisType::Row => befp_share(fx, bad, other, k, AxisType::Col),
                        AxisType::Col => befp_share(fx, bad, k, other, AxisType::Row),
                    };
                }
            }
            10 => {
                if !b.shares.is_empty() {
                    let k = rng.gen_range(0..b.shares.len());
                    if let Some(pr) = b.shares[k].proof.clone() {
                        b.shares[k].proof = Some(adv_proof(rng, fx, &pr));
                    }
                }
            }
            11 => {
                if !b.shares.is_empty() {
                    let k = rng.gen_range(0..b.shares.len());
                    b.shares[k].proof_axis = adv_enum(rng, b.shares[k].proof_axis);
                }
            }
            12 => {
                if !b.shares.is_empty() {
                    let k = rng.gen_range(0..b.shares.len());
                    let d = &mut b.shares[k].data;
                    match rng.gen_range(0..5) {
                        0 => d.truncate(SHARE_SIZE),
                        1 => d.push(0),
                        2 => d.clear(),
                        3 => {
                            if !d.is_empty() {
                                d[0] = rng.r#gen();
                            }
                        }
                        _ => {
                            if d.len() > 100 {
                                d[100] ^= 1;
                            }
                        }
                    }
                }
            }
            13 => {
                // a whole other axis (e.g. a bottom-half row) presented honestly
                let other = rng.gen_range(0..fx.w);
                let ax = if rng.gen_bool(0.5) { AxisType::Row } else { AxisType::Col };
                b = honest_befp(rng, fx, bad, ax, other);
            }
            14 => {
                // bottom half explicitly
                let other = rng.gen_range(fx.ods_w..fx.w);
                let ax = if rng.gen_bool(0.5) { AxisType::Row } else { AxisType::Col };
                b = honest_befp(rng, fx, bad, ax, other);
            }
            _ => {}
        }
    }
    b
}

pub fn adv_merkle_proof(rng: &mut ChaCha8Rng, base: &RawMerkleProof) -> RawMerkleProof {
    let mut p = base.clone();
    for _ in 0..rng.gen_range(1..=2) {
        match rng.gen_range(0..8) {
            0 => p.total = *[0i64, 1, 2, 3, -1, i64::MAX, i64::MIN, 1 << 62, (1 << 62) + 1, base.total.wrapping_add(1), base.total.wrapping_sub(1)].choose(rng).unwrap(),
            1 => p.index = *[0i64, 1, -1, i64::MAX, i64::MIN, base.total, base.total.wrapping_add(1), base.total.wrapping_sub(1), 1 << 62].choose(rng).unwrap(),
            2 => p.leaf_hash = rb(rng, &[0usize, 31, 32, 33]),
            3 => {
                let n = *[0usize, 1, 2, 62, 63, 64, 65, 100, 1000].choose(rng).unwrap();
                let a = p.aunts.first().cloned().unwrap_or_else(|| vec![7u8; 32]);
                p.aunts = vec![a; n];
            }
            4 => {
                if !p.aunts.is_empty() {
                    let i = rng.gen_range(0..p.aunts.len());
                    p.aunts[i] = rb(rng, &[0usize, 31, 32, 33]);
                }
            }
            5 => {
                p.aunts.pop();
            }
            6 => p.aunts.reverse(),
            _ => {
                p.total = rng.gen_range(1..40);
                p.index = rng.gen_range(0..40);
            }
        }
    }
    p
}

pub fn honest_row_proof(fx: &Fixture, a: u16, b: u16) -> RawRowProof {
    let (a, b) = (a as usize, (b as usize).min(fx.w - 1));
    RawRowProof {
        row_roots: (a..=b).map(|r| fx.dah.row_roots()[r].to_vec()).collect(),
        proofs: (a..=b).map(|r| fx.root_proofs[r].clone()).collect(),
        root: vec![],
        start_row: a as u32,
        end_row: b as u32,
    }
}

pub fn adv_row_proof(rng: &mut ChaCha8Rng, fx: &Fixture) -> RawRowProof {
    let a = rng.gen_range(0..fx.w as u16);
    let b = rng.gen_range(a..fx.w as u16).min(a + 3);
    let mut p = honest_row_proof(fx, a, b);
    for _ in 0..rng.gen_range(1..=2) {
        match rng.gen_range(0..10) {
            0 => {
                p.start_row = 0;
                p.end_row = 65535;
            }
            1 => p.start_row = *[0u32, 1, 65535, 65536, u32::MAX, b as u32 + 1].choose(rng).unwrap(),
            2 => p.end_row = *[0u32, 1, 65534, 65535, 65536, u32::MAX, a as u32].choose(rng).unwrap(),
            3 => {
                p.row_roots.clear();
                p.proofs.clear();
            }
            4 => {
                p.row_roots.pop();
            }
            5 => {
                p.proofs.pop();
            }
            6 => {
                if !p.proofs.is_empty() {
                    let i = rng.gen_range(0..p.proofs.len());
                    p.proofs[i] = adv_merkle_proof(rng, &p.proofs[i].clone());
                }
            }
            7 => {
                if !p.row_roots.is_empty() {
                    let i = rng.gen_range(0..p.row_roots.len());
                    p.row_roots[i] = adv_node(rng, fx);
                }
            }
            8 => {
                // span exactly 65536 rows with that many (cheap) entries is too big; use the
                // u16 wrap instead: 65535 - 0 + 1
                p.start_row = 0;
                p.end_row = 65535;
                p.row_roots.clear();
                p.proofs.clear();
            }
            _ => p.root = rand_bytes(rng, 32),
        }
    }
    p
}

/// Honest share proof of `ns` over the rows that hold it (None if the namespace has no shares).
pub fn honest_share_proof(fx: &Fixture, ns: Namespace) -> Option<RawShareProof> {
    let id = ns.id().to_vec();
    fx.share_proofs.iter().find(|p| p.namespace_id == id && p.namespace_version == ns.version() as u32).cloned()
}

fn compute_share_proof(fx: &Fixture, ns: Namespace) -> Option<RawShareProof> {
    let mut data = Vec::new();
    let mut proofs = Vec::new();
    let mut rows = Vec::new();
    for r in 0..fx.ods_w {
        let cols: Vec<usize> = (0..fx.ods_w)
            .filter(|c| fx.eds.share(r as u16, *c as u16).unwrap().namespace() == ns)
            .collect();
        if cols.is_empty() {
            continue;
        }
        let (s, e) = (cols[0], cols[cols.len() - 1] + 1);
        let p = fx.eds.row_nmt(r as u16).ok()?.build_range_proof(s..e);
        proofs.push(RawNmtProof {
            start: s as i32,
            end: e as i32,
            nodes: p.siblings().iter().map(|h| h.to_vec()).collect(),
            leaf_hash: vec![],
        });
        for c in cols {
            data.push(fx.share(r, c).clone());
        }
        rows.push(r as u16);
    }
    let (a, b) = (*rows.first()?, *rows.last()?);
    if (b - a) as usize + 1 != rows.len() {
        return None;
    }
    Some(RawShareProof {
        data,
        share_proofs: proofs,
        namespace_id: ns.id().to_vec(),
        row_proof: Some(honest_row_proof(fx, a, b)),
        namespace_version: ns.version() as u32,
    })
}

pub fn adv_share_proof(rng: &mut ChaCha8Rng, fx: &Fixture) -> RawShareProof {
    let ns = *fx.namespaces.choose(rng).unwrap();
    let mut p = honest_share_proof(fx, ns).unwrap_or_else(|| RawShareProof {
        data: vec![fx.share(0, 0).clone()],
        share_proofs: vec![RawNmtProof { start: 0, end: 1, nodes: fx.row_proofs[0].nodes.clone(), leaf_hash: vec![] }],
        namespace_id: ns.id().to_vec(),
        row_proof: Some(honest_row_proof(fx, 0, 0)),
        namespace_version: 0,
    });
    for _ in 0..rng.gen_range(1..=3) {
        match rng.gen_range(0..14) {
            0 => {
                if !p.share_proofs.is_empty() {
                    let i = rng.gen_range(0..p.share_proofs.len());
                    p.share_proofs[i].end = adv_i64(rng, p.share_proofs[i].end as i64, fx.w) as i32;
                }
            }
            1 => {
                if !p.share_proofs.is_empty() {
                    let i = rng.gen_range(0..p.share_proofs.len());
                    p.share_proofs[i].start = adv_i64(rng, p.share_proofs[i].start as i64, fx.w) as i32;
                }
            }
            2 => {
                // ranges whose u32 lengths sum past u32::MAX while the row proof stays honest
                for sp in p.share_proofs.iter_mut() {
                    sp.start = 0;
                    sp.end = -1;
                }
                if p.share_proofs.len() < 2 {
                    let rp = honest_row_proof(fx, 0, 1.min(fx.w as u16 - 1));
                    let n = rp.row_roots.len();
                    p.row_proof = Some(rp);
                    p.share_proofs = vec![RawNmtProof { start: 0, end: -1, nodes: vec![], leaf_hash: vec![] }; n];
                }
            }
            3 => {
                // (0..u32::MAX) + (0..k): wraps to k-1 shares
                let rp = honest_row_proof(fx, 0, 1.min(fx.w as u16 - 1));
                if rp.row_roots.len() == 2 {
                    let k = rng.gen_range(1..4);
                    p.row_proof = Some(rp);
                    p.share_proofs = vec![
                        RawNmtProof { start: 0, end: -1, nodes: vec![], leaf_hash: vec![] },
                        RawNmtProof { start: 0, end: k + 1, nodes: vec![], leaf_hash: vec![] },
                    ];
                    p.data = (0..k).map(|c| fx.share(0, c as usize).clone()).collect();
                }
            }
            4 => {
                p.data.pop();
            }
            5 => p.data.push(adv_share_data(rng, fx, 0, 0)),
            6 => p.namespace_version = *[0u32, 1, 255, 256, u32::MAX].choose(rng).unwrap(),
            7 => p.namespace_id = rb(rng, &[0usize, 5, 10, 11, 27, 28, 29]),
            8 => p.row_proof = Some(adv_row_proof(rng, fx)),
            9 => p.row_proof = None,
            10 => {
                if !p.share_proofs.is_empty() {
                    let i = rng.gen_range(0..p.share_proofs.len());
                    let sp = &p.share_proofs[i];
                    let raw = RawProof { start: sp.start as i64, end: sp.end as i64, nodes: sp.nodes.clone(), leaf_hash: sp.leaf_hash.clone(), is_max_namespace_ignored: true };
                    let a = adv_proof(rng, fx, &raw);
                    p.share_proofs[i] = RawNmtProof { start: a.start as i32, end: a.end as i32, nodes: a.nodes, leaf_hash: a.leaf_hash };
                }
            }
            11 => {
                p.share_proofs.pop();
            }
            12 => {
                let x = p.share_proofs.first().cloned().unwrap_or_default();
                p.share_proofs.push(x);
            }
            _ => {}
        }
    }
    p
}

/// Hostile but self-consistent headers (own validator set, consistent hashes) and raw-level edits of
/// the fields no hash covers.
pub fn adv_header(rng: &mut ChaCha8Rng, fx: &Fixture) -> Vec<u8> {
    let style = rng.gen_range(0..10);
    let n = rng.gen_range(1..=4);
    let power = |rng: &mut ChaCha8Rng| -> u64 {
        *[1u64, 2, 10, 1 << 31, (1 << 32) + 1, (i64::MAX / 8) as u64, (i64::MAX / 8) as u64 / 2, (i64::MAX / 16) as u64]
            .choose(rng)
            .unwrap()
    };
    let mut vals: Vec<Val> = (0..n).map(|_| { let p = power(rng); Val::new(rng, p) }).collect();
    // keep the total under tendermint's cap so that the generator itself cannot panic
    let cap = (i64::MAX / 8) as u64;
    let mut total: u64 = 0;
    for v in vals.iter_mut() {
        if total.saturating_add(v.power) > cap {
            v.power = cap.saturating_sub(total).max(1).min(v.power);
        }
        total = total.saturating_add(v.power);
    }
    if total > cap {
        vals = vec![Val::new(rng, cap)];
    }
    let flags: Vec<Flag> = (0..n)
        .map(|_| *[Flag::Commit, Flag::Commit, Flag::Nil, Flag::Absent, Flag::Forged].choose(rng).unwrap())
        .collect();
    let dah = match style {
        0 => DataAvailabilityHeader::new_unchecked(vec![], vec![]),
        1 => {
            let r = fx.dah.row_roots()[0].clone();
            DataAvailabilityHeader::new_unchecked(vec![r.clone()], vec![r])
        }
        2 => DataAvailabilityHeader::new_unchecked(fx.dah.row_roots().to_vec(), vec![]),
        3 => {
            let mut rows = fx.dah.row_roots().to_vec();
            rows.pop();
            DataAvailabilityHeader::new_unchecked(rows, fx.dah.column_roots().to_vec())
        }
        4 => {
            // wider than any supported square
            let r = fx.dah.row_roots()[0].clone();
            let n = *[257usize, 512, 513, 1024].choose(rng).unwrap();
            DataAvailabilityHeader::new_unchecked(vec![r.clone(); n], vec![r; n])
        }
        _ => fx.dah.clone(),
    };
    let app = match rng.gen_range(0..8) {
        0 => 0u64,
        1 => 99,
        2 => u64::MAX,
        _ => fx.app.as_u64(),
    };
    let chain_id: tendermint::chain::Id = "c16-chain".try_into().unwrap();
    // 40 %: a would-be successor of the fixture header signed by the fixture's validators, so that
    // `verify` / `verify_adjacent` get past their first checks
    let successor = rng.gen_bool(0.4);
    let (vals, flags) = if successor {
        let fl: Vec<Flag> = if rng.gen_bool(0.6) { vec![] } else { flags.iter().copied().take(fx.vals.len()).collect() };
        (fx.vals.clone(), fl)
    } else {
        (vals, flags)
    };
    let height = if successor {
        *[fx.height + 1, fx.height + 1, fx.height + 2, fx.height + 5, fx.height, fx.height - 1].choose(rng).unwrap()
    } else {
        *[1u64, 2, fx.height, i64::MAX as u64, (i64::MAX - 1) as u64].choose(rng).unwrap()
    };
    let last = if successor && rng.gen_bool(0.7) { fx.header.commit.block_id } else { random_block_id(rng) };
    let time = if successor {
        let t = fx.header.time();
        match rng.gen_range(0..6) {
            0 => t,
            1 => (t - std::time::Duration::from_secs(12)).unwrap(),
            // a century ahead: "from the future" whatever the wall clock says
            2 => (t + std::time::Duration::from_secs(100 * 365 * 86400)).unwrap(),
            _ => (t + std::time::Duration::from_secs(12 * (height.saturating_sub(fx.height)).max(1))).unwrap(),
        }
    } else {
        fixed_time()
    };
    let h = build_header(
        rng,
        HeaderSpec {
            chain_id: &chain_id,
            height,
            time,
            app_version: app,
            last_block_id: Some(last),
            vals: &vals,
            next_vals: &vals,
            dah,
            flags: &flags,
        },
    );
    let mut raw = RawExtendedHeader::from(h);
    // edits outside every hash: commit signatures, round, validator-set bookkeeping
    for _ in 0..rng.gen_range(0..=3) {
        match rng.gen_range(0..14) {
            0 => {
                if let Some(c) = raw.commit.as_mut() {
                    c.round = *[0i32, 1, -1, i32::MAX, i32::MIN].choose(rng).unwrap();
                }
            }
            1 => {
                if let Some(c) = raw.commit.as_mut() {
                    if !c.signatures.is_empty() {
                        let i = rng.gen_range(0..c.signatures.len());
                        c.signatures[i].block_id_flag = *[0i32, 1, 2, 3, 4, -1, i32::MAX].choose(rng).unwrap();
                    }
                }
            }
            2 => {
                if let Some(c) = raw.commit.as_mut() {
                    if !c.signatures.is_empty() {
                        let i = rng.gen_range(0..c.signatures.len());
                        c.signatures[i].signature = rb(rng, &[0usize, 1, 63, 64, 65, 128]);
                    }
                }
            }
            3 => {
                if let Some(c) = raw.commit.as_mut() {
                    if !c.signatures.is_empty() {
                        let i = rng.gen_range(0..c.signatures.len());
                        c.signatures[i].validator_address = rb(rng, &[0usize, 19, 20, 21]);
                    }
                }
            }
            4 => {
                if let Some(c) = raw.commit.as_mut() {
                    if !c.signatures.is_empty() {
                        let i = rng.gen_range(0..c.signatures.len());
                        c.signatures[i].timestamp = Some(tendermint_proto::google::protobuf::Timestamp {
                            seconds: *[0i64, -1, i64::MAX, i64::MIN, 253402300799, 253402300800, -62135596800, -62135596801].choose(rng).unwrap(),
                            nanos: *[0i32, -1, 999_999_999, 1_000_000_000, i32::MAX, i32::MIN].choose(rng).unwrap(),
                        });
                    }
                }
            }
            5 => {
                if let Some(c) = raw.commit.as_mut() {
                    match rng.gen_range(0..3) {
                        0 => {
                            c.signatures.pop();
                        }
                        1 => {
                            let x = c.signatures.first().cloned();
                            if let Some(x) = x {
                                c.signatures.push(x);
                            }
                        }
                        _ => c.signatures.clear(),
                    }
                }
            }
            6 => {
                if let Some(v) = raw.validator_set.as_mut() {
                    v.total_voting_power = *[0i64, 1, -1, i64::MAX, i64::MIN, i64::MAX / 8, i64::MAX / 8 + 1].choose(rng).unwrap();
                }
            }
            7 => {
                if let Some(v) = raw.validator_set.as_mut() {
                    v.proposer = match rng.gen_range(0..3) {
                        0 => None,
                        _ => v.validators.first().cloned().map(|mut p| {
                            p.voting_power = *[0i64, -1, i64::MAX, i64::MIN].choose(rng).unwrap();
                            p.proposer_priority = *[0i64, -1, i64::MAX, i64::MIN].choose(rng).unwrap();
                            p
                        }),
                    };
                }
            }
            8 => {
                if let Some(v) = raw.validator_set.as_mut() {
                    if !v.validators.is_empty() {
                        let i = rng.gen_range(0..v.validators.len());
                        v.validators[i].proposer_priority = *[-1i64, i64::MAX, i64::MIN].choose(rng).unwrap();
                        if rng.gen_bool(0.3) {
                            v.validators[i].address = rb(rng, &[0usize, 19, 20, 21]);
                        }
                    }
                }
            }
            9 => {
                if let Some(c) = raw.commit.as_mut() {
                    c.height = *[0i64, -1, i64::MAX, i64::MIN, 1].choose(rng).unwrap();
                }
            }
            10 => {
                if let Some(c) = raw.commit.as_mut() {
                    if let Some(b) = c.block_id.as_mut() {
                        if let Some(psh) = b.part_set_header.as_mut() {
                            psh.total = *[0u32, 1, u32::MAX].choose(rng).unwrap();
                            psh.hash = rb(rng, &[0usize, 31, 32, 33]);
                        }
                    }
                }
            }
            11 => match rng.gen_range(0..4) {
                0 => raw.header = None,
                1 => raw.commit = None,
                2 => raw.validator_set = None,
                _ => raw.dah = None,
            },
            12 => {
                if let Some(d) = raw.dah.as_mut() {
                    match rng.gen_range(0..3) {
                        0 => {
                            d.row_roots.push(adv_node(rng, fx));
                        }
                        1 => {
                            d.column_roots.pop();
                        }
                        _ => {
                            if !d.row_roots.is_empty() {
                                d.row_roots[0] = rand_bytes(rng, 89);
                            }
                        }
                    }
                }
            }
            _ => {
                if let Some(h) = raw.header.as_mut() {
                    match rng.gen_range(0..5) {
                        0 => h.height = *[0i64, -1, i64::MAX, i64::MIN].choose(rng).unwrap(),
                        1 => h.chain_id = "x".repeat(*[0usize, 1, 50, 51, 300].choose(rng).unwrap()),
                        2 => h.time = None,
                        3 => h.proposer_address = rb(rng, &[0usize, 19, 21]),
                        _ => h.data_hash = rb(rng, &[0usize, 31, 32, 33]),
                    }
                }
            }
        }
    }
    raw.encode_to_vec()
}

pub fn enc<M: Message>(m: &M) -> Vec<u8> {
    m.encode_to_vec()
}

pub fn enc_header(h: &ExtendedHeader) -> Vec<u8> {
    h.clone().encode_vec()
}

pub fn bm(f: impl FnOnce(&mut BytesMut)) -> Vec<u8> {
    let mut b = BytesMut::new();
    f(&mut b);
    b.to_vec()
}

/// Stacked mutation of a seed: byte-level and framing-aware, 1..=4 deep.
pub fn mutate_stack(rng: &mut ChaCha8Rng, data: &mut Vec<u8>) -> String {
    let n = rng.gen_range(1..=4);
    let mut what = String::new();
    for k in 0..n {
        let w = if rng.gen_bool(0.5) { mutate_bytes(rng, data) } else { pb_mutate(rng, data) };
        if k > 0 {
            what.push('+');
        }
        what.push_str(w);
        if data.len() > (4 << 20) {
            data.truncate(4 << 20);
        }
    }
    what
}

// ---------------------------------------------------------------------------------------------
// Engine
// ---------------------------------------------------------------------------------------------

/// Result of one target execution: `Ok((framed, outcome label))`, or `Err((stage, panic))`.
pub type Res = Result<(bool, String), (&'static str, String)>;

/// Error → stable short label (variant names only, no payload values).
pub fn label(e: &dyn std::fmt::Debug) -> String {
    let s = format!("{e:?}");
    let mut out = String::new();
    let mut depth = 0;
    for ch in s.chars() {
        if ch.is_ascii_alphabetic() || ch == '_' {
            out.push(ch);
        } else if ch == '(' && depth < 2 && !out.ends_with('(') {
            depth += 1;
            out.push(ch);
        } else {
            break;
        }
        if out.len() >= 60 {
            break;
        }
    }
    out.trim_end_matches('(').to_string()
}

/// Label from a `Display` text: its last `: `-separated segment, letters only (no values).
pub fn label_disp(e: &dyn std::fmt::Display) -> String {
    let s = e.to_string();
    let seg = s.rsplit(": ").next().unwrap_or(&s);
    let mut out = String::new();
    for ch in seg.chars() {
        if ch.is_ascii_alphabetic() {
            out.push(ch);
        } else if ch == ' ' || ch == '_' {
            out.push('_');
        } else {
            break;
        }
        if out.len() >= 40 {
            break;
        }
    }
    out.trim_end_matches('_').to_string()
}

/// Run one stage of a target under the panic guard.
macro_rules! c16_stage {
    ($name:expr, $e:expr) => {
        match vcore::guard(|| $e) {
            Ok(v) => v,
            Err(p) => return Err(($name, p)),
        }
    };
}

pub struct Engine<'a, E> {
    pub ctx: &'a Ctx,
    pub bin: &'static str,
    pub env: &'a E,
    outcomes: Mutex<BTreeSet<(String, String)>>,
    shrunk: Mutex<BTreeMap<String, u64>>,
    times: Mutex<BTreeMap<&'static str, u128>>,
}

/// Per-shard accumulator (keeps the hot loop free of shared locks).
#[derive(Default)]
pub struct Local {
    nanos: HashMap<&'static str, u128>,
    counts: HashMap<String, u64>,
    seen: BTreeSet<(String, String)>,
    evals: u64,
}

impl Local {
    pub fn add_time(&mut self, k: &'static str, t0: std::time::Instant) {
        *self.nanos.entry(k).or_insert(0) += t0.elapsed().as_nanos();
    }
    pub fn count(&mut self, k: &str) {
        *self.counts.entry(k.to_string()).or_insert(0) += 1;
    }
}

pub type TargetFn<E> = fn(&E, &Params, &[u8]) -> Res;

impl<'a, E: Sync> Engine<'a, E> {
    pub fn new(ctx: &'a Ctx, bin: &'static str, env: &'a E) -> Self {
        Engine { ctx, bin, env, outcomes: Mutex::new(BTreeSet::new()), shrunk: Mutex::new(BTreeMap::new()), times: Mutex::new(BTreeMap::new()) }
    }

    pub fn exec(&self, l: &mut Local, name: &'static str, f: TargetFn<E>, p: &Params, input: &[u8], family: &str) {
        l.evals += 1;
        l.count(&format!("{name}.inputs"));
        l.count(&format!("family.{}", family.split(':').next().unwrap_or(family)));
        let t0 = std::time::Instant::now();
        let res = f(self.env, p, input);
        let dt = t0.elapsed().as_nanos();
        *l.nanos.entry(name).or_insert(0) += dt;
        match res {
            Ok((framed, lab)) => {
                if framed {
                    l.count(&format!("{name}.framed"));
                    if lab.starts_with("ok") {
                        l.count(&format!("{name}.decoded_ok"));
                    }
                    if lab.ends_with("ok") && lab.contains('>') {
                        l.count(&format!("{name}.verified_ok"));
                    }
                    let key = (name.to_string(), lab);
                    if !l.seen.contains(&key) {
                        self.ctx.nontrivial(&key);
                        if l.seen.len() % 7 == 0 {
                            let (k0, k1) = (key.0.clone(), key.1.clone());
                            let hexs = vcore::hex(input);
                            let fam = family.to_string();
                            let pj = p.to_json();
                            self.ctx.sample(|| json!({"decoder": k0, "outcome": k1, "family": fam, "params": pj, "input": hexs}));
                        }
                        l.seen.insert(key);
                    }
                } else {
                    l.count(&format!("{name}.rejected_by_framing"));
                }
            }
            Err((stage, panic)) => {
                l.count(&format!("{name}.framed"));
                l.count(&format!("{name}.panics"));
                let site = panic_site(&panic);
                let sig = format!("C16/{stage}/panic/{site}");
                // full detail (and a shrunk input) only for the first witnesses of a signature
                let nth = {
                    let mut m = self.shrunk.lock().unwrap();
                    let e = m.entry(sig.clone()).or_insert(0u64);
                    *e += 1;
                    *e
                };
                if nth > 3 {
                    self.ctx.violation(&sig, "", json!(null));
                    return;
                }
                let minimal = if nth == 1 {
                    let pred = |b: &[u8]| match f(self.env, p, b) {
                        Err((st, pn)) => st == stage && panic_site(&pn) == site,
                        _ => false,
                    };
                    let budget = (2_000_000 / input.len().max(1)).clamp(200, 3000);
                    Some(pb_shrink(input, &pred, budget))
                } else {
                    None
                };
                self.ctx.violation(
                    &sig,
                    &format!("{stage} panicked on peer-controlled input: {panic}"),
                    json!({
                        "bin": self.bin,
                        "target": name,
                        "stage": stage,
                        "params": p.to_json(),
                        "family": family,
                        "panic": panic,
                        "input_len": input.len(),
                        "input_hex": hex::encode(input),
                        "minimal_input_hex": minimal.as_ref().map(|m| hex::encode(m)),
                        "minimal_input_len": minimal.as_ref().map(|m| m.len()),
                    }),
                );
            }
        }
    }

    pub fn flush(&self, l: Local) {
        self.ctx.evals(l.evals);
        for (k, v) in l.counts {
            self.ctx.count_n(&k, v);
        }
        self.outcomes.lock().unwrap().extend(l.seen);
        let mut t = self.times.lock().unwrap();
        for (k, v) in l.nanos {
            *t.entry(k).or_insert(0) += v;
        }
    }

    /// Publish the (decoder, outcome) table and per-decoder distinct-outcome counters.
    pub fn finish(&self, names: &[&'static str]) {
        let o = self.outcomes.lock().unwrap();
        let mut per: BTreeMap<String, Vec<String>> = BTreeMap::new();
        for (d, lab) in o.iter() {
            per.entry(d.clone()).or_default().push(lab.clone());
        }
        for n in names {
            let k = per.get(*n).map(|v| v.len()).unwrap_or(0) as u64;
            self.ctx.count_n(&format!("{n}.outcomes"), k);
        }
        self.ctx.count_n("distinct_decoder_outcome_pairs", o.len() as u64);
        self.ctx.extra("outcomes_by_decoder", json!(per));
        let t: BTreeMap<String, u64> = self.times.lock().unwrap().iter().map(|(k, v)| (k.to_string(), (*v / 1_000_000) as u64)).collect();
        self.ctx.extra("wall_ms_in_decoder_calls_summed_over_threads", json!(t));
        if let Ok(stat) = std::fs::read_to_string("/proc/self/stat") {
            let f: Vec<&str> = stat.rsplit(')').next().unwrap_or("").split_whitespace().collect();
            if f.len() > 13 {
                let ticks: u64 = f[11].parse().unwrap_or(0) + f[12].parse().unwrap_or(0);
                self.ctx.extra("process_cpu_s", json!(ticks as f64 / 100.0));
            }
        }
    }
}

/// Replay document → (target name, params, input), if it belongs to binary `bin`.
pub fn replay_case(ctx: &Ctx, bin: &str) -> Option<(String, Params, Vec<u8>)> {
    let doc = ctx.replay.as_ref()?;
    let d = doc.get("detail")?;
    if d.get("bin")?.as_str()? != bin {
        return None;
    }
    let hexs = d.get("minimal_input_hex").and_then(|v| v.as_str()).or_else(|| d.get("input_hex").and_then(|v| v.as_str()))?;
    Some((d.get("target")?.as_str()?.to_string(), Params::from_json(d.get("params")?)?, hex::decode(hexs)?))
}
