//! C08 — the extended square is a two-dimensional erasure code.
//!
//! Workload: valid original data squares of width 1..64 (realistic layout from `vgen::square`,
//! random row-major-sorted squares, and squares that are only row-wise/column-wise sorted) are
//! extended with the real `ExtendedDataSquare::from_ods`.
//!
//! Oracle (restates the property text on the raw bytes of the produced square):
//!  * first quadrant == the ODS given, parity flags exactly outside the first quadrant;
//!  * every row and every column is a codeword: after erasing exactly half of its shares
//!    (random and structured patterns) `leopard_codec::reconstruct` returns that axis;
//!  * `DataAvailabilityHeader::from_eds` roots == NMT roots computed independently (`vcore::sha`);
//!  * malformed inputs of the five classes named by the property (+ empty) are rejected by
//!    `from_ods` / `new` with an error (not a panic).

use celestia_types::consts::appconsts::{AppVersion, SHARE_SIZE};
use celestia_types::nmt::{NS_SIZE, Namespace, NamespacedHashExt};
use celestia_types::{DataAvailabilityHeader, ExtendedDataSquare};
use vcore::sha::{PARITY_NS, nmt_root};
use vcore::{ChaCha8Rng, Ctx, Rng, SliceRandom, guard, hex, json, panic_site};
use vgen::square::{gen_ods, padding_share, random_app_version, random_user_namespace, raw_share};

fn ns_of(share: &[u8]) -> [u8; NS_SIZE] {
    share[..NS_SIZE].try_into().unwrap()
}

/// Is a w×w namespace matrix non-decreasing along every row and every column?
fn tableau_sorted(ods: &[Vec<u8>], w: usize) -> bool {
    for r in 0..w {
        for c in 0..w {
            let here = ns_of(&ods[r * w + c]);
            if c + 1 < w && ns_of(&ods[r * w + c + 1]) < here {
                return false;
            }
            if r + 1 < w && ns_of(&ods[(r + 1) * w + c]) < here {
                return false;
            }
        }
    }
    true
}

fn pool_namespaces(rng: &mut ChaCha8Rng, n: usize) -> Vec<Namespace> {
    let cluster = rng.gen_bool(0.5);
    let mut v: Vec<Namespace> = (0..n).map(|_| random_user_namespace(rng, cluster)).collect();
    if rng.gen_bool(0.3) {
        v.push(Namespace::TRANSACTION);
    }
    if rng.gen_bool(0.3) {
        v.push(Namespace::PAY_FOR_BLOB);
    }
    if rng.gen_bool(0.3) {
        v.push(Namespace::TAIL_PADDING);
    }
    v.sort();
    v.dedup();
    v
}

fn share_in(rng: &mut ChaCha8Rng, ns: &Namespace) -> Vec<u8> {
    if rng.gen_bool(0.15) {
        padding_share(ns)
    } else {
        let info = rng.gen_range(0..2u8);
        raw_share(rng, ns, info)
    }
}

/// Random shares, namespaces non-decreasing in row-major order.
fn gen_rowmajor(rng: &mut ChaCha8Rng, w: usize) -> Vec<Vec<u8>> {
    let n = rng.gen_range(1..=6);
    let pool = pool_namespaces(rng, n);
    let mut picks: Vec<usize> = (0..w * w).map(|_| rng.gen_range(0..pool.len())).collect();
    picks.sort();
    picks.iter().map(|i| share_in(rng, &pool[*i])).collect()
}

/// Random shares whose namespaces are sorted along rows and along columns only
/// (`ns[r][c] >= max(ns[r-1][c], ns[r][c-1])`), which is all the constructor's contract asks for.
fn gen_tableau(rng: &mut ChaCha8Rng, w: usize) -> Vec<Vec<u8>> {
    let n = rng.gen_range(2..=8);
    let pool = pool_namespaces(rng, n);
    let mut idx = vec![0usize; w * w];
    for r in 0..w {
        for c in 0..w {
            let up = if r > 0 { idx[(r - 1) * w + c] } else { 0 };
            let left = if c > 0 { idx[r * w + c - 1] } else { 0 };
            let base = up.max(left);
            let bump = if rng.gen_bool(0.25) { rng.gen_range(0..=2) } else { 0 };
            idx[r * w + c] = (base + bump).min(pool.len() - 1);
        }
    }
    idx.iter().map(|i| share_in(rng, &pool[*i])).collect()
}

struct Pattern;
impl Pattern {
    /// A set of exactly `k` erased positions out of `2k`.
    fn make(rng: &mut ChaCha8Rng, k: usize, kind: usize) -> (Vec<bool>, &'static str) {
        let n = 2 * k;
        let mut erased = vec![false; n];
        let name = match kind {
            0 => {
                for e in erased.iter_mut().take(k) {
                    *e = true;
                }
                "data-half"
            }
            1 => {
                for e in erased.iter_mut().skip(k) {
                    *e = true;
                }
                "parity-half"
            }
            2 => {
                let off = rng.gen_range(0..2);
                for (i, e) in erased.iter_mut().enumerate() {
                    *e = i % 2 == off;
                }
                "alternating"
            }
            3 => {
                // a contiguous window crossing the middle
                let start = rng.gen_range(0..=k);
                for e in erased.iter_mut().skip(start).take(k) {
                    *e = true;
                }
                "window"
            }
            _ => {
                let mut pos: Vec<usize> = (0..n).collect();
                pos.shuffle(rng);
                for p in pos.into_iter().take(k) {
                    erased[p] = true;
                }
                "random"
            }
        };
        debug_assert_eq!(erased.iter().filter(|e| **e).count(), k);
        (erased, name)
    }
}

fn check_square(ctx: &Ctx, rng: &mut ChaCha8Rng, case: u64, w: usize, genk: &str, ods: Vec<Vec<u8>>, app: AppVersion) {
    ctx.eval();
    ctx.count(&format!("squares_w{w}"));
    ctx.count(&format!("squares_gen_{genk}"));
    let detail = |extra: vcore::Value| {
        json!({"case": case, "ods_width": w, "generator": genk, "app_version": app.as_u64(), "what": extra})
    };
    let eds = match guard(|| ExtendedDataSquare::from_ods(ods.clone(), app)) {
        Err(p) => {
            ctx.violation(
                &format!("C08/from_ods/panic/{}", panic_site(&p)),
                &format!("from_ods panicked on a valid ODS of width {w}: {p}"),
                detail(json!("panic")),
            );
            return;
        }
        Ok(Err(e)) => {
            ctx.violation(
                &format!("C08/from_ods/rejects-valid-ods/{genk}"),
                &format!("from_ods rejected a valid ODS of width {w}: {e}"),
                detail(json!(e.to_string())),
            );
            return;
        }
        Ok(Ok(eds)) => eds,
    };
    let ew = 2 * w;
    if eds.square_width() as usize != ew || eds.data_square().len() != ew * ew {
        ctx.violation(
            "C08/from_ods/wrong-dimensions",
            &format!("ODS width {w}: EDS width {} with {} shares", eds.square_width(), eds.data_square().len()),
            detail(json!(null)),
        );
        return;
    }
    let cell = |r: usize, c: usize| -> &[u8; SHARE_SIZE] { eds.data_square()[r * ew + c].data() };

    // first quadrant == ODS; parity flags
    for r in 0..ew {
        for c in 0..ew {
            let in_q1 = r < w && c < w;
            let sh = &eds.data_square()[r * ew + c];
            if in_q1 && sh.data()[..] != ods[r * w + c][..] {
                ctx.violation(
                    "C08/from_ods/first-quadrant-differs",
                    &format!("share ({r},{c}) of the extended square differs from the ODS share"),
                    detail(json!({"row": r, "col": c})),
                );
                return;
            }
            if sh.is_parity() == in_q1 {
                ctx.violation(
                    "C08/from_ods/parity-flag",
                    &format!("share ({r},{c}) of a width-{ew} EDS has is_parity={}", sh.is_parity()),
                    detail(json!({"row": r, "col": c})),
                );
                return;
            }
        }
    }

    // every axis is a codeword
    let mut seen_axes = 0u64;
    for axis in 0..2usize {
        for i in 0..ew {
            let full: Vec<Vec<u8>> = (0..ew)
                .map(|j| if axis == 0 { cell(i, j).to_vec() } else { cell(j, i).to_vec() })
                .collect();
            let kinds = [4usize, (i + case as usize) % 5];
            for kind in kinds {
                let (erased, pname) = Pattern::make(rng, w, kind);
                let mut shards: Vec<Vec<u8>> = full
                    .iter()
                    .zip(&erased)
                    .map(|(s, e)| if *e { Vec::new() } else { s.clone() })
                    .collect();
                let res = guard(|| leopard_codec::reconstruct(&mut shards, w));
                ctx.count("axis_reconstructions");
                ctx.count(&format!("pattern_{pname}"));
                let half = if i < w { "ods-half" } else { "parity-half" };
                let an = if axis == 0 { "row" } else { "col" };
                let bad = match &res {
                    Ok(Ok(())) => shards != full,
                    _ => true,
                };
                if bad {
                    let first = shards.iter().zip(&full).position(|(a, b)| a != b);
                    ctx.violation(
                        &format!("C08/codeword/{an}/{half}"),
                        &format!(
                            "{an} {i} of the EDS (ods width {w}) is not reproduced from half of its shares (pattern {pname}): {:?}",
                            res.as_ref().map(|r| r.as_ref().map_err(|e| e.to_string()))
                        ),
                        detail(json!({"axis": an, "index": i, "pattern": pname,
                            "erased": erased.iter().enumerate().filter(|(_, e)| **e).map(|(p, _)| p).collect::<Vec<_>>(),
                            "first_differing_share": first})),
                    );
                    return;
                }
            }
            seen_axes += 1;
        }
    }
    ctx.count_n("axes_checked", seen_axes);

    // DAH roots against the independent NMT
    let dah = match guard(|| DataAvailabilityHeader::from_eds(&eds)) {
        Ok(d) => d,
        Err(p) => {
            ctx.violation(
                &format!("C08/dah_from_eds/panic/{}", panic_site(&p)),
                &format!("DataAvailabilityHeader::from_eds panicked: {p}"),
                detail(json!("panic")),
            );
            return;
        }
    };
    if dah.row_roots().len() != ew || dah.column_roots().len() != ew {
        ctx.violation("C08/dah_from_eds/root-count", "wrong number of roots", detail(json!(null)));
        return;
    }
    for axis in 0..2usize {
        for i in 0..ew {
            let leaves: Vec<([u8; NS_SIZE], Vec<u8>)> = (0..ew)
                .map(|j| {
                    let (r, c) = if axis == 0 { (i, j) } else { (j, i) };
                    let data = cell(r, c).to_vec();
                    let ns = if r < w && c < w { ns_of(&data) } else { PARITY_NS };
                    (ns, data)
                })
                .collect();
            let want = nmt_root(&leaves).to_bytes();
            let got = if axis == 0 { dah.row_roots()[i].to_vec() } else { dah.column_roots()[i].to_vec() };
            ctx.count("roots_compared");
            if want != got {
                let an = if axis == 0 { "row" } else { "col" };
                ctx.violation(
                    &format!("C08/dah_from_eds/{an}-root-differs"),
                    &format!("{an} root {i} differs from the independently computed NMT root"),
                    detail(json!({"index": i, "got": hex(&got), "want": hex(&want)})),
                );
                return;
            }
        }
    }
    ctx.nontrivial(&(w, vcore::hash64(&ods)));
    ctx.sample(|| {
        let mut nss: Vec<[u8; NS_SIZE]> = ods.iter().map(|s| ns_of(s)).collect();
        nss.sort();
        nss.dedup();
        json!({"case": case, "ods_width": w, "generator": genk, "app_version": app.as_u64(),
               "axes_checked": 4 * w, "distinct_namespaces": nss.len(),
               "row_root_0": hex(&dah.row_roots()[0].to_vec())})
    });
}

// ---------------------------------------------------------------------------------------------
// malformed inputs
// ---------------------------------------------------------------------------------------------

fn expect_reject(ctx: &Ctx, func: &str, class: &str, descr: vcore::Value, r: Result<Result<ExtendedDataSquare, celestia_types::Error>, String>) {
    ctx.eval();
    ctx.count(&format!("malformed_{class}"));
    match r {
        Ok(Err(_)) => {
            ctx.count(&format!("rejected_{class}"));
            ctx.count("malformed_rejected");
        }
        Ok(Ok(eds)) => ctx.violation(
            &format!("C08/{func}/accepts/{class}"),
            &format!("{func} accepted a malformed input of class {class} (EDS width {})", eds.square_width()),
            descr,
        ),
        Err(p) => ctx.violation(
            &format!("C08/{func}/panic/{}", panic_site(&p)),
            &format!("{func} panicked on a malformed input of class {class}: {p}"),
            descr,
        ),
    }
}

fn valid_ods(rng: &mut ChaCha8Rng, w: usize, app: AppVersion) -> Vec<Vec<u8>> {
    match rng.gen_range(0..3) {
        0 => gen_ods(rng, w, app).0,
        1 => gen_rowmajor(rng, w),
        _ => gen_tableau(rng, w),
    }
}

/// An ODS of width `w` (not necessarily a power of two) with sorted namespaces.
fn sorted_ods_any_width(rng: &mut ChaCha8Rng, w: usize) -> Vec<Vec<u8>> {
    if rng.gen_bool(0.5) { gen_rowmajor(rng, w) } else { gen_tableau(rng, w) }
}

fn malformed(ctx: &Ctx, rng: &mut ChaCha8Rng, case: u64) {
    let app = random_app_version(rng);
    let d = |what: &str, extra: vcore::Value| json!({"case": case, "class": what, "app_version": app.as_u64(), "input": extra});

    // --- non-square share counts
    {
        let n = loop {
            let n = rng.gen_range(2..=300usize);
            let s = (n as f64).sqrt() as usize;
            if s * s != n {
                break n;
            }
        };
        let mut shares = gen_rowmajor(rng, ((n as f64).sqrt() as usize) + 1);
        shares.truncate(n);
        let s2 = shares.clone();
        expect_reject(ctx, "from_ods", "non-square", d("non-square", json!({"shares": n})), guard(|| ExtendedDataSquare::from_ods(s2, app)));
        // for `new`: the count is not a square of anything
        let mut all: Vec<Vec<u8>> = shares;
        for s in all.iter_mut() {
            s[..NS_SIZE].copy_from_slice(Namespace::TAIL_PADDING.as_bytes());
        }
        expect_reject(ctx, "new", "non-square", d("non-square", json!({"shares": n})), guard(|| ExtendedDataSquare::new(all, "Leopard".into(), app)));
    }

    // --- square but width not a power of two
    {
        let w = *[3usize, 5, 6, 7, 9, 10, 11, 12, 13, 14, 15, 17, 24].choose(rng).unwrap();
        let ods = sorted_ods_any_width(rng, w);
        expect_reject(ctx, "from_ods", "non-power-of-two", d("non-power-of-two", json!({"ods_width": w})), guard(|| ExtendedDataSquare::from_ods(ods, app)));
        // EDS of width 2w' where the EDS width itself is not a power of two: all-tail-padding
        // first quadrant and arbitrary parity bytes pass every other check of `new`.
        let ew = *[6usize, 10, 12, 14, 18, 20, 24].choose(rng).unwrap();
        let mut shares = Vec::with_capacity(ew * ew);
        for r in 0..ew {
            for c in 0..ew {
                if r < ew / 2 && c < ew / 2 {
                    shares.push(padding_share(&Namespace::TAIL_PADDING));
                } else {
                    shares.push(vcore::rand_bytes(rng, SHARE_SIZE));
                }
            }
        }
        expect_reject(ctx, "new", "non-power-of-two", d("non-power-of-two", json!({"eds_width": ew})), guard(|| ExtendedDataSquare::new(shares, "Leopard".into(), app)));
    }

    // --- unsorted namespaces
    {
        let w = *[2usize, 4, 8, 16].choose(rng).unwrap();
        let a = Namespace::new_v0(&[1, 1]).unwrap();
        let b = Namespace::new_v0(&[1, 2]).unwrap();
        let c = Namespace::new_v0(&[1, 3]).unwrap();
        // (i) only one column is out of order, every row is sorted
        let mut nsm = vec![a; w * w];
        for r in 0..w {
            nsm[r * w + w - 1] = c;
        }
        let br = rng.gen_range(1..w);
        nsm[br * w + w - 1] = b;
        let col_only: Vec<Vec<u8>> = nsm.iter().map(|n| share_in(rng, n)).collect();
        assert!(!tableau_sorted(&col_only, w));
        expect_reject(ctx, "from_ods", "unsorted-column", d("unsorted-column", json!({"ods_width": w, "row": br})), guard(|| ExtendedDataSquare::from_ods(col_only, app)));
        // (ii) only one row is out of order, every column is sorted
        let mut nsm = vec![a; w * w];
        for cc in 0..w {
            nsm[(w - 1) * w + cc] = c;
        }
        let bc = rng.gen_range(1..w);
        nsm[(w - 1) * w + bc] = b;
        let row_only: Vec<Vec<u8>> = nsm.iter().map(|n| share_in(rng, n)).collect();
        assert!(!tableau_sorted(&row_only, w));
        expect_reject(ctx, "from_ods", "unsorted-row", d("unsorted-row", json!({"ods_width": w, "col": bc})), guard(|| ExtendedDataSquare::from_ods(row_only, app)));
        // (iii) a valid square with two shares of different namespaces exchanged
        for _ in 0..8 {
            let mut ods = valid_ods(rng, w, app);
            let i = rng.gen_range(0..w * w);
            let j = rng.gen_range(0..w * w);
            ods.swap(i, j);
            if tableau_sorted(&ods, w) {
                continue;
            }
            let full = ExtendedDataSquare::from_ods(
                {
                    let mut o = ods.clone();
                    o.swap(i, j);
                    o
                },
                app,
            )
            .expect("valid ods");
            expect_reject(ctx, "from_ods", "unsorted-swap", d("unsorted-swap", json!({"ods_width": w, "i": i, "j": j})), guard(|| ExtendedDataSquare::from_ods(ods, app)));
            // the same exchange inside an otherwise correct extended square given to `new`
            let ew = 2 * w;
            let mut shares: Vec<Vec<u8>> = full.data_square().iter().map(|s| s.to_vec()).collect();
            shares.swap((i / w) * ew + i % w, (j / w) * ew + j % w);
            expect_reject(ctx, "new", "unsorted-swap", d("unsorted-swap", json!({"ods_width": w, "i": i, "j": j})), guard(|| ExtendedDataSquare::new(shares, "Leopard".into(), app)));
            break;
        }
    }

    // --- wrong share size
    {
        let w = *[1usize, 2, 4, 8].choose(rng).unwrap();
        let bad = *[0usize, 1, 29, 30, 64, 256, 448, 511, 513, 576, 1024].choose(rng).unwrap();
        let mut ods = valid_ods(rng, w, app);
        let i = rng.gen_range(0..w * w);
        ods[i].resize(bad, 0);
        expect_reject(ctx, "from_ods", "share-size-one", d("share-size-one", json!({"ods_width": w, "index": i, "size": bad})), guard(|| ExtendedDataSquare::from_ods(ods, app)));
        // every share of the same wrong size (multiples of 64 get through the codec)
        let bad_all = *[64usize, 128, 256, 448, 576, 1024].choose(rng).unwrap();
        let mut ods = valid_ods(rng, w, app);
        for s in ods.iter_mut() {
            s.resize(bad_all, 0);
        }
        expect_reject(ctx, "from_ods", "share-size-all", d("share-size-all", json!({"ods_width": w, "size": bad_all})), guard(|| ExtendedDataSquare::from_ods(ods, app)));
        // `new`: one share of the full square (any quadrant) has a wrong size
        let full = ExtendedDataSquare::from_ods(valid_ods(rng, w, app), app).expect("valid ods");
        let mut shares: Vec<Vec<u8>> = full.data_square().iter().map(|s| s.to_vec()).collect();
        let i = rng.gen_range(0..shares.len());
        shares[i].resize(bad, 0);
        expect_reject(ctx, "new", "share-size-one", d("share-size-one", json!({"ods_width": w, "index": i, "size": bad})), guard(|| ExtendedDataSquare::new(shares, "Leopard".into(), app)));
    }

    // --- empty / below the minimum
    expect_reject(ctx, "from_ods", "empty", d("empty", json!([])), guard(|| ExtendedDataSquare::from_ods(Vec::new(), app)));
    expect_reject(ctx, "new", "empty", d("empty", json!([])), guard(|| ExtendedDataSquare::new(Vec::new(), "Leopard".into(), app)));
    expect_reject(ctx, "new", "empty", d("one-share", json!(1)), guard(|| ExtendedDataSquare::new(vec![padding_share(&Namespace::TAIL_PADDING)], "Leopard".into(), app)));
}

/// Squares beyond the upper bound of the app version. Only app versions whose bound (128) is
/// below what the codec can extend at all are used, so that "too large" is the only defect.
fn oversized(ctx: &Ctx, rng: &mut ChaCha8Rng) {
    let app = *[AppVersion::V1, AppVersion::V2, AppVersion::V3, AppVersion::V4, AppVersion::V5].choose(rng).unwrap();
    // `new`: 512x512 entries (> 256x256); content irrelevant, the bound comes first
    let n = 512 * 512;
    let shares = vec![Vec::<u8>::new(); n];
    expect_reject(ctx, "new", "too-large", json!({"class": "too-large", "shares": n, "app_version": app.as_u64()}), guard(|| ExtendedDataSquare::new(shares, "Leopard".into(), app)));
    let shares = vec![padding_share(&Namespace::TAIL_PADDING); n];
    expect_reject(ctx, "new", "too-large", json!({"class": "too-large", "shares": n, "well_formed_shares": true, "app_version": app.as_u64()}), guard(|| ExtendedDataSquare::new(shares, "Leopard".into(), app)));
    // `from_ods`: ODS of width 256 (EDS 512 > 256)
    let ods = vec![padding_share(&Namespace::TAIL_PADDING); 256 * 256];
    expect_reject(ctx, "from_ods", "too-large", json!({"class": "too-large", "ods_width": 256, "app_version": app.as_u64()}), guard(|| ExtendedDataSquare::from_ods(ods, app)));
}

pub fn run(ctx: &Ctx) {
    ctx.rule(
        "Valid ODS of width 1,2,4,..,64 from three generators (realistic layout; random row-major sorted; \
         sorted along rows and columns only) x app versions V1..V7, extended by from_ods. Non-trivial = a \
         square for which every one of its 4w axes was reconstructed from exactly half of its shares \
         (2 erasure patterns per axis: random + one of data-half/parity-half/alternating/window/random), \
         the first quadrant and parity flags were compared with the ODS and all 4w DAH roots were compared \
         with an independent NMT; distinct by hash of the ODS bytes. Malformed inputs: non-square counts, \
         non-power-of-two widths, unsorted rows/columns/swapped shares, wrong share sizes, empty, too large.",
    );
    ctx.assume("leopard_codec::reconstruct (dependency, not code under test) decides 'this half reconstructs the axis'");
    ctx.assume("vcore::sha::nmt_root is the specification of the Celestia NMT root (ignore-max-namespace)");
    ctx.assume("a square whose namespaces are non-decreasing along every row and column is a valid ODS (contract of ExtendedDataSquare::new)");

    // (width, quick count, thorough count)
    let plan: [(usize, u64, u64); 7] = [
        (1, 12, 200),
        (2, 24, 500),
        (4, 30, 900),
        (8, 30, 900),
        (16, 30, 800),
        (32, 20, 500),
        (64, 12, 250),
    ];
    let mut jobs: Vec<(usize, u64)> = Vec::new();
    for (w, q, t) in plan {
        for i in 0..ctx.scale(q, t) {
            jobs.push((w, i));
        }
    }
    // interleave sizes so that shards are balanced
    jobs.sort_by_key(|(w, i)| (*i, std::cmp::Reverse(*w)));
    let shards = ctx.cores();
    ctx.par(shards, |shard| {
        for (n, (w, i)) in jobs.iter().enumerate() {
            if n % shards != shard {
                continue;
            }
            let case = (*w as u64) << 32 | *i;
            let mut rng = ctx.rng(1, case);
            let app = random_app_version(&mut rng);
            let (genk, ods) = if *w == 1 {
                ("realistic", gen_ods(&mut rng, 1, app).0)
            } else {
                match i % 3 {
                    0 => ("realistic", gen_ods(&mut rng, *w, app).0),
                    1 => ("rowmajor", gen_rowmajor(&mut rng, *w)),
                    _ => ("tableau", gen_tableau(&mut rng, *w)),
                }
            };
            debug_assert!(tableau_sorted(&ods, *w));
            check_square(ctx, &mut rng, case, *w, genk, ods, app);
        }
    });

    let mal = ctx.scale(150u64, 3_000u64);
    ctx.par(shards, |shard| {
        for case in (shard as u64..mal).step_by(shards) {
            let mut rng = ctx.rng(2, case);
            malformed(ctx, &mut rng, case);
        }
    });
    for case in 0..ctx.scale(1u64, 5u64) {
        let mut rng = ctx.rng(3, case);
        oversized(ctx, &mut rng);
    }

    for (w, q, _) in plan {
        ctx.floor(&format!("squares_w{w}"), q);
    }
    ctx.floor("axes_checked", 2_000);
    ctx.floor("roots_compared", 2_000);
    for class in [
        "non-square",
        "non-power-of-two",
        "unsorted-column",
        "unsorted-row",
        "unsorted-swap",
        "share-size-one",
        "share-size-all",
        "empty",
        "too-large",
    ] {
        ctx.floor(&format!("malformed_{class}"), if class == "too-large" { 3 } else { 30 });
    }
}
