//! C46 — Public data types round-trip through their wire (protobuf) and JSON forms.
//!
//! Workload: *valid* values built from vgen ground-truth generators (multi-validator signed
//! headers, realistic squares) and from lumina's own constructors (`Blob::new`,
//! `DataAvailabilityHeader::from_eds`, NMT proofs of the real row/column trees, `row_proof`,
//! a bad-encoding fraud proof over a really mis-encoded square that `validate`s against its
//! header). Oracle: `decode(encode(v)) == v` with `PartialEq` of the public type, for the
//! protobuf form and for JSON through four serde_json decoders (from_str, from_slice,
//! from_value, from_reader). `BlockRanges` is in the `vn` half (vn/src/c46.rs).
//!
//! Decisions where the text leaves freedom (see report): the bare `Share` JSON/proto form carries
//! no parity flag, so parity shares are round-tripped inside their wire containers (`Sample`,
//! `Row`) and only *observed* in the bare form; the protobuf `BlobProto` has no `index` field,
//! so blobs are compared modulo `index` there (and fully when `index` is `None`).

use std::cell::{Cell, RefCell};
use std::collections::BTreeMap;
use std::fmt::{Debug, Display};
use std::time::Duration;

use bytes::BytesMut;
use celestia_proto::proof::pb::Proof as RawProof;
use celestia_proto::share::eds::byzantine::pb::{BadEncoding as RawBefp, Share as RawShareWithProof};
use celestia_types::blob::RawBlob;
use celestia_types::consts::appconsts::AppVersion;
use celestia_types::fraud_proof::{BadEncodingFraudProof, Proof as FraudProofEnum};
use celestia_types::nmt::{NS_SIZE, Namespace, NamespaceMerkleHasher, NamespaceProof, NamespacedHash, NamespacedSha2Hasher, Nmt};
use celestia_types::row::{Row, RowId};
use celestia_types::sample::{Sample, SampleId};
use celestia_types::state::AccAddress;
use celestia_types::{
    AxisType, Blob, DataAvailabilityHeader, ExtendedDataSquare, ExtendedHeader, FraudProof, MerkleProof, RawShare,
    RowProof, Share, ShareProof,
};
use prost::Message;
use serde::Serialize;
use serde::de::DeserializeOwned;
use tendermint::Time;
use tendermint_proto::Protobuf;
use vcore::{ChaCha8Rng, Ctx, Rng, guard, hex, json, panic_site};
use vgen::chain::{ChainGen, Flag, random_powers};
use vgen::square::{gen_eds, random_app_version, random_user_namespace};

type NmtNamespaceProof = nmt_rs::nmt_proof::NamespaceProof<NamespacedSha2Hasher, NS_SIZE>;

struct Mon<'a> {
    ctx: &'a Ctx,
    counts: RefCell<BTreeMap<String, u64>>,
    evals: Cell<u64>,
}

impl Drop for Mon<'_> {
    fn drop(&mut self) {
        self.ctx.evals(self.evals.get());
        for (k, v) in self.counts.borrow().iter() {
            self.ctx.count_n(k, *v);
        }
    }
}

fn short(s: &str) -> String {
    if s.len() > 1500 { format!("{}..(+{}B)", &s[..1500], s.len() - 1500) } else { s.to_string() }
}

impl<'a> Mon<'a> {
    fn new(ctx: &'a Ctx) -> Self {
        Mon { ctx, counts: RefCell::new(BTreeMap::new()), evals: Cell::new(0) }
    }
    fn count(&self, name: &str) {
        *self.counts.borrow_mut().entry(name.to_string()).or_insert(0) += 1;
    }
    fn eval(&self) {
        self.evals.set(self.evals.get() + 1);
    }

    fn sig(ty: &str, form: &str, kind: &str, class: &str) -> String {
        if class.is_empty() { format!("C46/{ty}/{form}/{kind}") } else { format!("C46/{ty}/{form}/{kind}/{class}") }
    }

    /// Generic comparison of the outcome of one encode/decode path.
    fn judge<T: PartialEq + Debug>(
        &self,
        ty: &str,
        form: &str,
        class: &str,
        v: &T,
        r: Result<Result<T, String>, String>,
        wire: &dyn Fn() -> String,
    ) -> bool {
        self.eval();
        match r {
            Ok(Ok(back)) if &back == v => {
                self.count(&format!("{ty}.{form}.ok"));
                true
            }
            Ok(Ok(back)) => {
                self.ctx.violation(
                    &Self::sig(ty, form, "not-equal", class),
                    &format!("{ty}: decode(encode(v)) != v through {form}"),
                    json!({"type": ty, "form": form, "class": class, "value": short(&format!("{v:?}")), "decoded": short(&format!("{back:?}")), "wire": wire()}),
                );
                false
            }
            Ok(Err(e)) => {
                self.ctx.violation(
                    &Self::sig(ty, form, "decode-error", class),
                    &format!("{ty}: own encoding does not decode through {form}: {e}"),
                    json!({"type": ty, "form": form, "class": class, "value": short(&format!("{v:?}")), "wire": wire()}),
                );
                false
            }
            Err(p) => {
                self.ctx.violation(
                    &format!("C46/{ty}/{form}/panic/{}", panic_site(&p)),
                    &format!("{ty}: {form} round trip panicked: {p}"),
                    json!({"type": ty, "form": form, "class": class, "value": short(&format!("{v:?}"))}),
                );
                false
            }
        }
    }

    /// Protobuf round trip through the `Protobuf<R>` trait (plain and length-delimited).
    fn proto<T, R>(&self, ty: &str, class: &str, v: &T) -> bool
    where
        T: Protobuf<R> + Clone + PartialEq + Debug + TryFrom<R>,
        R: Message + From<T> + Default,
        <T as TryFrom<R>>::Error: Display,
    {
        let bytes = RefCell::new(Vec::new());
        let r = guard(|| {
            let b = v.clone().encode_vec();
            *bytes.borrow_mut() = b.clone();
            T::decode_vec(&b).map_err(|e| e.to_string())
        });
        let a = self.judge(ty, "proto", class, v, r, &|| hex(&bytes.borrow()));
        let r = guard(|| {
            let b = v.clone().encode_length_delimited_vec();
            T::decode_length_delimited_vec(&b).map_err(|e| e.to_string())
        });
        // same conversion code as the plain form: judged only when that one agrees, so that one
        // defect keeps one signature
        let b = if a { self.judge(ty, "proto-length-delimited", class, v, r, &|| hex(&bytes.borrow())) } else { false };
        a && b
    }

    /// JSON round trip through four serde_json decoders.
    fn json_rt<T>(&self, ty: &str, class: &str, v: &T) -> bool
    where
        T: Serialize + DeserializeOwned + PartialEq + Debug,
    {
        self.eval();
        let text = match guard(|| serde_json::to_string(v).map_err(|e| e.to_string())) {
            Ok(Ok(t)) => t,
            Ok(Err(e)) => {
                self.ctx.violation(
                    &Self::sig(ty, "json", "encode-error", class),
                    &format!("{ty}: valid value does not serialize: {e}"),
                    json!({"type": ty, "class": class, "value": short(&format!("{v:?}"))}),
                );
                return false;
            }
            Err(p) => {
                self.ctx.violation(
                    &format!("C46/{ty}/json/panic/{}", panic_site(&p)),
                    &format!("{ty}: serialization panicked: {p}"),
                    json!({"type": ty, "class": class, "value": short(&format!("{v:?}"))}),
                );
                return false;
            }
        };
        let wire = || short(&text);
        let mut ok = self.judge(ty, "json", class, v, guard(|| serde_json::from_str::<T>(&text).map_err(|e| e.to_string())), &wire);
        // the other decoders only matter when the plain one works (else one defect, one signature)
        if ok {
            ok &= self.judge(
                ty,
                "json-slice",
                class,
                v,
                guard(|| serde_json::from_slice::<T>(text.as_bytes()).map_err(|e| e.to_string())),
                &wire,
            );
            ok &= self.judge(
                ty,
                "json-value",
                class,
                v,
                guard(|| {
                    let val = serde_json::to_value(v).map_err(|e| e.to_string())?;
                    serde_json::from_value::<T>(val).map_err(|e| e.to_string())
                }),
                &wire,
            );
            ok &= self.judge(
                ty,
                "json-reader",
                class,
                v,
                guard(|| serde_json::from_reader::<_, T>(std::io::Cursor::new(text.as_bytes())).map_err(|e| e.to_string())),
                &wire,
            );
            ok &= self.judge(
                ty,
                "json-pretty",
                class,
                v,
                guard(|| {
                    let p = serde_json::to_string_pretty(v).map_err(|e| e.to_string())?;
                    serde_json::from_str::<T>(&p).map_err(|e| e.to_string())
                }),
                &wire,
            );
        }
        ok
    }
}

// ---------------------------------------------------------------------------------------------
// generators
// ---------------------------------------------------------------------------------------------

fn chain_id(rng: &mut ChaCha8Rng) -> String {
    const CH: &[u8] = b"abcdefghijklmnopqrstuvwxyz0123456789-";
    let n = match rng.gen_range(0..4) {
        0 => 1,
        1 => 50,
        _ => rng.gen_range(2..30),
    };
    let mut s: String = (0..n).map(|_| CH[rng.gen_range(0..CH.len())] as char).collect();
    if s.starts_with('-') {
        s.replace_range(0..1, "c");
    }
    s
}

fn rand_time(rng: &mut ChaCha8Rng) -> Time {
    let secs: i64 = match rng.gen_range(0..6) {
        0 => 1,
        1 => 1_700_000_000,
        2 => 4_102_444_800,                // 2100-01-01
        3 => 253_402_300_799 - 100_000,    // close to 9999-12-31
        4 => rng.gen_range(1..2_000_000_000),
        _ => rng.gen_range(1..253_000_000_000),
    };
    let nanos: u32 = match rng.gen_range(0..6) {
        0 => 0,
        1 => 1,
        2 => 999_999_999,
        3 => 500_000_000,
        4 => rng.gen_range(0..1000) * 1_000_000,
        _ => rng.gen_range(0..1_000_000_000),
    };
    Time::from_unix_timestamp(secs, nanos).expect("time in range")
}

/// A few consecutive valid headers (real signatures from every committing validator).
fn gen_headers(rng: &mut ChaCha8Rng, dah: Option<DataAvailabilityHeader>, app: AppVersion) -> Vec<(ExtendedHeader, &'static str)> {
    let n_vals = rng.gen_range(1..=6usize);
    let (powers, flags, class): (Vec<u64>, Vec<Flag>, &'static str) = match rng.gen_range(0..4) {
        // a minority that is absent / votes nil (equal powers, at most floor((n-1)/3) deviating)
        0 if n_vals >= 4 => {
            let mut f = vec![Flag::Commit; n_vals];
            let dev = (n_vals - 1) / 3;
            for i in 0..dev {
                f[n_vals - 1 - i] = if rng.r#gen() { Flag::Absent } else { Flag::Nil };
            }
            (vec![rng.gen_range(1..1000); n_vals], f, "minority-absent-or-nil")
        }
        1 => (vec![1; n_vals], vec![], "unit-powers"),
        _ => (random_powers(rng, n_vals), vec![], "all-commit"),
    };
    let start_height = match rng.gen_range(0..5) {
        0 => 1,
        1 => 2,
        2 => i64::MAX as u64 - 3,
        3 => rng.gen_range(1..1 << 32),
        _ => rng.gen_range(1..10_000),
    };
    let block_time = Duration::from_millis(rng.gen_range(1..20_000));
    let id = chain_id(rng);
    let start = rand_time(rng);
    let app_u64 = app as u64;
    let seed: [u8; 32] = rng.r#gen();
    let mut cg = ChainGen::new(
        <ChaCha8Rng as vcore::SeedableRng>::from_seed(seed),
        &id,
        app_u64,
        &powers,
        start_height,
        start,
        block_time,
    );
    let mut out = Vec::new();
    out.push((cg.next_with(dah, None, &flags), class));
    out.push((cg.next_with(None, None, &flags), class));
    out
}

fn rand_signer(rng: &mut ChaCha8Rng) -> AccAddress {
    let mut id = [0u8; 20];
    match rng.gen_range(0..4) {
        0 => {}
        1 => id = [0xff; 20],
        _ => rng.fill(&mut id),
    }
    AccAddress::from(id)
}

fn blob_len(rng: &mut ChaCha8Rng) -> usize {
    match rng.gen_range(0..6) {
        0 => 1,
        1 => *[477usize, 478, 479, 458, 459, 482, 483, 960, 961].get(rng.gen_range(0..9)).unwrap(),
        2 => rng.gen_range(1..64),
        3 => rng.gen_range(1..2000),
        4 => 478 + 482 * rng.gen_range(0..6) + rng.gen_range(0..3),
        _ => rng.gen_range(1..6000),
    }
}

fn rand_namespace(rng: &mut ChaCha8Rng) -> Namespace {
    match rng.gen_range(0..8) {
        0 => Namespace::TRANSACTION,
        1 => Namespace::PAY_FOR_BLOB,
        2 => Namespace::PRIMARY_RESERVED_PADDING,
        3 => Namespace::TAIL_PADDING,
        4 => Namespace::PARITY_SHARE,
        5 => Namespace::const_v255(rng.r#gen()),
        6 => Namespace::new_v0(&[rng.r#gen()]).unwrap(),
        _ => random_user_namespace(rng, false),
    }
}

/// Increment a version-0 namespace by one (None if not possible).
fn ns_succ(ns: &Namespace) -> Option<Namespace> {
    if ns.version() != 0 {
        return None;
    }
    let mut b: [u8; 29] = ns.as_bytes().try_into().unwrap();
    for i in (19..29).rev() {
        if b[i] != 0xff {
            b[i] += 1;
            return Namespace::from_raw(&b).ok();
        }
        b[i] = 0;
    }
    None
}

fn wrap_presence(proof: nmt_rs::simple_merkle::proof::Proof<NamespacedSha2Hasher>, ignore_max_ns: bool) -> NamespaceProof {
    NamespaceProof::from(NmtNamespaceProof::PresenceProof { proof, ignore_max_ns })
}

fn proof_class(p: &NamespaceProof) -> &'static str {
    if p.is_of_absence() {
        if p.leaf().is_some() { "absence" } else { "absence-without-leaf" }
    } else {
        "presence"
    }
}

struct Square {
    eds: ExtendedDataSquare,
    dah: DataAvailabilityHeader,
    app: AppVersion,
    ods_width: usize,
    namespaces: Vec<Namespace>,
}

fn gen_square(rng: &mut ChaCha8Rng, max_width: usize) -> Square {
    let app = random_app_version(rng);
    let widths: Vec<usize> = [1usize, 2, 4, 8, 16, 32].into_iter().filter(|w| *w <= max_width).collect();
    let ods_width = widths[rng.gen_range(0..widths.len())];
    let (eds, _ods, info) = gen_eds(rng, ods_width, app);
    let dah = DataAvailabilityHeader::from_eds(&eds);
    Square { eds, dah, app, ods_width, namespaces: info.namespaces }
}

// ---------------------------------------------------------------------------------------------
// per-type drivers
// ---------------------------------------------------------------------------------------------

fn drive_headers(mon: &Mon, rng: &mut ChaCha8Rng, sq: &Square) {
    let dah = if rng.gen_bool(0.7) { Some(sq.dah.clone()) } else { None };
    for (h, class) in gen_headers(rng, dah, sq.app) {
        mon.eval();
        match guard(|| h.validate()) {
            Ok(Ok(())) => {}
            other => {
                // generator did not produce a valid header: harness problem, not a finding
                mon.count("gen.header_not_valid");
                mon.ctx.sample(|| json!({"generator_header_invalid": format!("{other:?}")}));
                continue;
            }
        }
        let a = mon.proto("ExtendedHeader", "", &h);
        let b = mon.json_rt("ExtendedHeader", "", &h);
        if a && b {
            mon.ctx.nontrivial(&("hdr", h.hash().as_bytes()));
            mon.count(&format!("ExtendedHeader.class.{class}"));
            if h.height() == 1 {
                mon.count("ExtendedHeader.class.height-1");
            }
        }
        mon.ctx.sample(|| json!({"type": "ExtendedHeader", "height": h.height(), "chain_id": h.chain_id().as_str(), "validators": h.validator_set.validators().len(), "time": h.time().to_rfc3339(), "square_width": h.dah.square_width(), "class": class}));
    }
}

fn rand_nhash(rng: &mut ChaCha8Rng) -> NamespacedHash {
    let (a, b) = (rand_namespace(rng), rand_namespace(rng));
    let (min, max) = if a <= b { (a, b) } else { (b, a) };
    let mut raw = Vec::with_capacity(90);
    raw.extend_from_slice(min.as_bytes());
    raw.extend_from_slice(max.as_bytes());
    let h: [u8; 32] = rng.r#gen();
    raw.extend_from_slice(&h);
    NamespacedHash::try_from(raw.as_slice()).expect("90 bytes")
}

fn drive_dah(mon: &Mon, rng: &mut ChaCha8Rng, sq: &Square) {
    let a = mon.proto("DataAvailabilityHeader", "", &sq.dah);
    let b = mon.json_rt("DataAvailabilityHeader", "", &sq.dah);
    if a && b {
        mon.ctx.nontrivial(&("dah", sq.dah.hash().as_bytes()));
        mon.count("DataAvailabilityHeader.class.from-eds");
    }
    // synthetic roots (valid by `validate_basic`): width 2..=16
    let w = 1usize << rng.gen_range(1..5);
    let rows: Vec<_> = (0..w).map(|_| rand_nhash(rng)).collect();
    let cols: Vec<_> = (0..w).map(|_| rand_nhash(rng)).collect();
    if let Ok(dah) = DataAvailabilityHeader::new(rows, cols, sq.app) {
        let a = mon.proto("DataAvailabilityHeader", "", &dah);
        let b = mon.json_rt("DataAvailabilityHeader", "", &dah);
        if a && b {
            mon.ctx.nontrivial(&("dah", dah.hash().as_bytes()));
            mon.count("DataAvailabilityHeader.class.random-roots");
        }
    }
}

fn drive_blobs(mon: &Mon, rng: &mut ChaCha8Rng) {
    for _ in 0..4 {
        let app = random_app_version(rng);
        let signer = if app >= AppVersion::V3 && rng.gen_bool(0.5) { Some(rand_signer(rng)) } else { None };
        let ns = match rng.gen_range(0..4) {
            0 => Namespace::new_v0(&[1, 0]).unwrap(), // smallest user namespace
            1 => Namespace::new_v0(&[0xff; 10]).unwrap(),
            _ => {
                let cluster = rng.r#gen();
                random_user_namespace(rng, cluster)
            }
        };
        let len = blob_len(rng);
        let data = vcore::rand_bytes(rng, len);
        mon.eval();
        let mut blob = match guard(|| Blob::new(ns, data.clone(), signer, app)) {
            Ok(Ok(b)) => b,
            other => {
                mon.count("gen.blob_new_failed");
                mon.ctx.sample(|| json!({"blob_new_failed": format!("{:?}", other.map(|r| r.map(|_| ()))), "ns": hex(ns.as_bytes()), "len": data.len()}));
                continue;
            }
        };
        blob.index = match rng.gen_range(0..6) {
            0 => Some(0),
            1 => Some(rng.gen_range(0..512 * 512)),
            2 => Some(i64::MAX as u64),
            3 => Some(rng.gen_range(0..u32::MAX as u64)),
            _ => None,
        };
        let class = match (signer.is_some(), blob.index.is_some()) {
            (false, false) => "v0",
            (false, true) => "v0-index",
            (true, false) => "v1-signer",
            (true, true) => "v1-signer-index",
        };
        // JSON: full equality
        let j = mon.json_rt("Blob", "", &blob);
        // protobuf: BlobProto (no index, no commitment; commitment is recomputed by from_raw)
        let bytes = RefCell::new(Vec::new());
        let r = guard(|| {
            let raw = RawBlob::from(blob.clone());
            let b = raw.encode_to_vec();
            *bytes.borrow_mut() = b.clone();
            let raw2 = RawBlob::decode(b.as_slice()).map_err(|e| e.to_string())?;
            Blob::from_raw(raw2, app).map_err(|e| e.to_string())
        });
        // compare modulo `index`, which the protobuf schema does not carry
        let mut expect = blob.clone();
        let mut dropped = false;
        if let Ok(Ok(back)) = &r {
            if back.index.is_none() && blob.index.is_some() {
                expect.index = None;
                dropped = true;
            }
        }
        let p = mon.judge("Blob", "proto", "", &expect, r, &|| hex(&bytes.borrow()));
        if dropped {
            mon.count("observed.blob_proto_drops_index");
        }
        if j && p {
            mon.ctx.nontrivial(&("blob", blob.commitment.hash()));
            mon.count(&format!("Blob.class.{class}"));
        }
        mon.ctx.sample(|| json!({"type": "Blob", "class": class, "len": blob.data.len(), "index": blob.index, "app": app as u64}));
    }
    // serialization of an index above i64::MAX fails (JSON uses -1 for "none"): observed only
    if let Ok(mut b) = Blob::new(random_user_namespace(rng, false), vec![1, 2, 3], None, AppVersion::V2) {
        b.index = Some(u64::MAX);
        match serde_json::to_string(&b) {
            Ok(_) => mon.count("observed.blob_index_u64max_serializes"),
            Err(_) => mon.count("observed.blob_index_u64max_encode_error"),
        }
    }
}

fn drive_shares(mon: &Mon, rng: &mut ChaCha8Rng, sq: &Square) {
    let w = sq.eds.square_width();
    let ods = w / 2;
    // ODS shares: bare proto (shwap.Share) and JSON
    for _ in 0..8 {
        let (r, c) = (rng.gen_range(0..ods), rng.gen_range(0..ods));
        let share = sq.eds.share(r, c).unwrap().clone();
        let bytes = RefCell::new(Vec::new());
        let res = guard(|| {
            let b = RawShare::from(share.clone()).encode_to_vec();
            *bytes.borrow_mut() = b.clone();
            let raw = RawShare::decode(b.as_slice()).map_err(|e| e.to_string())?;
            Share::try_from(raw).map_err(|e| e.to_string())
        });
        let a = mon.judge("Share", "proto", "ods", &share, res, &|| hex(&bytes.borrow()));
        let b = mon.json_rt("Share", "ods", &share);
        if a && b {
            mon.ctx.nontrivial(&("share", share.data().as_slice()));
            mon.count("Share.class.ods");
        }
    }
    // parity shares, bare form: observed only (no parity flag in that form)
    {
        let (r, c) = (rng.gen_range(ods..w), rng.gen_range(0..w));
        let share = sq.eds.share(r, c).unwrap().clone();
        debug_assert!(share.is_parity());
        match serde_json::to_string(&share).ok().and_then(|s| serde_json::from_str::<Share>(&s).ok()) {
            Some(back) if back == share => mon.count("observed.parity_share_bare_json.equal"),
            Some(_) => mon.count("observed.parity_share_bare_json.decodes_as_non_parity"),
            None => mon.count("observed.parity_share_bare_json.decode_error"),
        }
    }
    // shares of every quadrant inside their wire containers
    for _ in 0..6 {
        let (r, c) = (rng.gen_range(0..w), rng.gen_range(0..w));
        let axis = if rng.r#gen() { AxisType::Row } else { AxisType::Col };
        let height = rng.gen_range(1..u64::MAX);
        mon.eval();
        let res = guard(|| -> Result<(), String> {
            let sample = Sample::new(r, c, axis, &sq.eds).map_err(|e| format!("Sample::new: {e}"))?;
            let id = SampleId::new(r, c, height).map_err(|e| e.to_string())?;
            let mut buf = BytesMut::new();
            sample.encode(&mut buf);
            let back = Sample::decode(id, &buf).map_err(|e| format!("decode: {e}"))?;
            if back.share != sample.share || back.proof != sample.proof || back.proof_type != sample.proof_type {
                return Err(format!("decoded sample differs: share equal {} (parity {} -> {}), proof equal {}, axis {:?} -> {:?}",
                    back.share == sample.share, sample.share.is_parity(), back.share.is_parity(), back.proof == sample.proof, sample.proof_type, back.proof_type));
            }
            Ok(())
        });
        let quadrant = match (r < ods, c < ods) {
            (true, true) => "q1",
            (true, false) => "q2",
            (false, true) => "q3",
            (false, false) => "q4",
        };
        match res {
            Ok(Ok(())) => {
                mon.count(&format!("Sample.proto.ok.{quadrant}"));
                mon.ctx.nontrivial(&("sample", sq.dah.hash().as_bytes(), r, c, axis as i32));
            }
            Ok(Err(e)) => mon.ctx.violation(
                &Mon::sig("Sample", "proto", "not-equal", if quadrant == "q1" { "ods" } else { "parity" }),
                &e,
                json!({"row": r, "col": c, "axis": format!("{axis:?}"), "square_width": w}),
            ),
            Err(p) => mon.ctx.violation(&format!("C46/Sample/proto/panic/{}", panic_site(&p)), &p, json!({"row": r, "col": c, "square_width": w})),
        }
    }
    for _ in 0..2 {
        let r = rng.gen_range(0..w);
        mon.eval();
        let res = guard(|| -> Result<(), String> {
            let row = Row::new(r, &sq.eds).map_err(|e| format!("Row::new: {e}"))?;
            let id = RowId::new(r, rng.gen_range(1..u64::MAX)).map_err(|e| e.to_string())?;
            let mut buf = BytesMut::new();
            row.encode(&mut buf);
            let back = Row::decode(id, &buf).map_err(|e| format!("decode: {e}"))?;
            if back.shares != row.shares {
                let first = back.shares.iter().zip(&row.shares).position(|(a, b)| a != b);
                return Err(format!("decoded row differs (len {} vs {}, first difference at {first:?})", back.shares.len(), row.shares.len()));
            }
            Ok(())
        });
        match res {
            Ok(Ok(())) => {
                mon.count(if r < ods { "Row.proto.ok.upper" } else { "Row.proto.ok.lower-all-parity" });
                mon.ctx.nontrivial(&("row", sq.dah.hash().as_bytes(), r));
            }
            Ok(Err(e)) => mon.ctx.violation(
                &Mon::sig("Row", "proto", "not-equal", if r < ods { "upper" } else { "lower" }),
                &e,
                json!({"row": r, "square_width": w}),
            ),
            Err(p) => mon.ctx.violation(&format!("C46/Row/proto/panic/{}", panic_site(&p)), &p, json!({"row": r, "square_width": w})),
        }
    }
}

fn drive_namespaces(mon: &Mon, rng: &mut ChaCha8Rng) {
    for _ in 0..6 {
        let ns = rand_namespace(rng);
        if mon.json_rt("Namespace", "", &ns) {
            mon.ctx.nontrivial(&("ns", ns.as_bytes()));
        }
    }
}

fn one_ns_proof(mon: &Mon, p: NamespaceProof, origin: &str) {
    let class = proof_class(&p);
    let a = mon.proto::<NamespaceProof, RawProof>("NamespaceProof", class, &p);
    let b = mon.json_rt("NamespaceProof", class, &p);
    if a && b {
        mon.ctx.nontrivial(&("nsproof", format!("{p:?}")));
    }
    mon.count(&format!("NamespaceProof.class.{class}"));
    mon.count(&format!("NamespaceProof.origin.{origin}"));
    mon.count(if p.max_ns_ignored() { "NamespaceProof.ignore_max_ns.true" } else { "NamespaceProof.ignore_max_ns.false" });
}

fn drive_ns_proofs(mon: &Mon, rng: &mut ChaCha8Rng, sq: &Square) {
    let w = sq.eds.square_width();
    let ods = w / 2;
    for _ in 0..3 {
        let idx = rng.gen_range(0..w);
        let by_row = rng.r#gen();
        let mut nmt: Nmt = if by_row { sq.eds.row_nmt(idx).unwrap() } else { sq.eds.column_nmt(idx).unwrap() };
        // arbitrary range proof
        let a = rng.gen_range(0..w as usize);
        let b = rng.gen_range(a + 1..=w as usize);
        one_ns_proof(mon, wrap_presence(nmt.build_range_proof(a..b), true), "range");
        // single leaf
        let (_, proof) = nmt.get_index_with_proof(rng.gen_range(0..w as usize));
        one_ns_proof(mon, wrap_presence(proof, true), "index");
        // namespace proofs: present, absent inside the root's range, absent outside it
        let mut cands: Vec<Namespace> = Vec::new();
        if let Some(ns) = sq.namespaces.get(rng.gen_range(0..sq.namespaces.len())) {
            cands.push(*ns);
            if let Some(s) = ns_succ(ns) {
                cands.push(s);
            }
        }
        cands.push(random_user_namespace(rng, true));
        cands.push(random_user_namespace(rng, false));
        cands.push(Namespace::new_v0(&[0]).unwrap()); // below everything but itself
        cands.push(Namespace::const_v255(0)); // above all data, below tail padding / parity
        cands.push(Namespace::PARITY_SHARE);
        for ns in cands {
            mon.eval();
            if let Ok(p) = guard(|| nmt.get_namespace_proof(*ns)) {
                one_ns_proof(mon, NamespaceProof::from(p), "namespace");
            }
        }
    }
    // a tree that does not ignore the maximal namespace (flag carried by the wire form)
    if ods >= 1 {
        let r = rng.gen_range(0..ods);
        let mut nmt = Nmt::with_hasher(NamespacedSha2Hasher::with_ignore_max_ns(false));
        let mut ok = true;
        for c in 0..ods {
            let s = sq.eds.share(r, c).unwrap();
            ok &= nmt.push_leaf(s.as_ref(), *s.namespace()).is_ok();
        }
        if ok {
            let a = rng.gen_range(0..ods as usize);
            let b = rng.gen_range(a + 1..=ods as usize);
            one_ns_proof(mon, wrap_presence(nmt.build_range_proof(a..b), false), "range-strict-max-ns");
            let ns = sq.eds.share(r, rng.gen_range(0..ods)).unwrap().namespace();
            one_ns_proof(mon, NamespaceProof::from(nmt.get_namespace_proof(*ns)), "namespace-strict-max-ns");
            if let Some(s) = ns_succ(&ns) {
                one_ns_proof(mon, NamespaceProof::from(nmt.get_namespace_proof(*s)), "namespace-strict-max-ns");
            }
        }
    }
}

fn drive_row_proofs(mon: &Mon, rng: &mut ChaCha8Rng, sq: &Square) {
    let w = sq.eds.square_width();
    for _ in 0..3 {
        let a = rng.gen_range(0..w);
        let b = match rng.gen_range(0..3) {
            0 => a,
            1 => w - 1,
            _ => rng.gen_range(a..w),
        };
        mon.eval();
        let Ok(Ok(rp)) = guard(|| sq.dah.row_proof(a..=b)) else {
            mon.count("gen.row_proof_failed");
            continue;
        };
        if rp.verify(sq.dah.hash()).is_err() {
            mon.count("gen.row_proof_does_not_verify");
            continue;
        }
        let x = mon.proto::<RowProof, _>("RowProof", "", &rp);
        let y = mon.json_rt("RowProof", "", &rp);
        if x && y {
            mon.ctx.nontrivial(&("rowproof", sq.dah.hash().as_bytes(), a, b));
            mon.count(if a == b { "RowProof.class.single-row" } else { "RowProof.class.multi-row" });
        }
    }
}

/// Merkle proofs (the component of row proofs) over leaf lists of arbitrary size: row proofs only
/// ever see power-of-two totals, a standalone proof also exercises the others.
fn drive_merkle_proofs(mon: &Mon, rng: &mut ChaCha8Rng) {
    for _ in 0..3 {
        let n = match rng.gen_range(0..4) {
            0 => rng.gen_range(1..4usize),
            1 => *[5usize, 6, 7, 9, 15, 17, 31, 33, 63, 65, 100].get(rng.gen_range(0..11)).unwrap(),
            _ => rng.gen_range(1..130usize),
        };
        let leaves: Vec<Vec<u8>> = (0..n)
            .map(|_| {
                let l = rng.gen_range(0..40);
                vcore::rand_bytes(rng, l)
            })
            .collect();
        let idx = match rng.gen_range(0..3) {
            0 => 0,
            1 => n - 1,
            _ => rng.gen_range(0..n),
        };
        mon.eval();
        let Ok(Ok((proof, root))) = guard(|| MerkleProof::new(idx, &leaves)) else {
            mon.count("gen.merkle_proof_failed");
            continue;
        };
        if proof.verify(&leaves[idx], root).is_err() {
            mon.count("gen.merkle_proof_does_not_verify");
            continue;
        }
        let a = mon.proto::<MerkleProof, _>("MerkleProof", "", &proof);
        let b = mon.json_rt("MerkleProof", "", &proof);
        if a && b {
            mon.ctx.nontrivial(&("merkle", root, idx, n));
            mon.count(if n.is_power_of_two() { "MerkleProof.class.total-power-of-two" } else { "MerkleProof.class.total-other" });
        }
    }
}

fn drive_share_proofs(mon: &Mon, rng: &mut ChaCha8Rng, sq: &Square) {
    let ods = sq.ods_width;
    for _ in 0..2 {
        let ns = sq.namespaces[rng.gen_range(0..sq.namespaces.len())];
        // rows / column ranges of `ns` in the original square (ground truth by scanning)
        let mut rows: Vec<(u16, usize, usize)> = Vec::new();
        for r in 0..ods {
            let cols: Vec<usize> =
                (0..ods).filter(|c| sq.eds.share(r as u16, *c as u16).unwrap().namespace() == ns).collect();
            if let (Some(a), Some(b)) = (cols.first(), cols.last()) {
                rows.push((r as u16, *a, *b + 1));
            }
        }
        if rows.is_empty() {
            continue;
        }
        // optionally only a sub-range of the shares (first row from a later column, fewer rows)
        if rng.gen_bool(0.4) && rows.len() > 1 {
            let keep = rng.gen_range(1..=rows.len());
            rows.truncate(keep);
        }
        if rng.gen_bool(0.3) {
            let (_, a, b) = &mut rows[0];
            *a = rng.gen_range(*a..*b);
        }
        mon.eval();
        let built = guard(|| -> Result<ShareProof, String> {
            let mut data = Vec::new();
            let mut share_proofs = Vec::new();
            for (r, a, b) in &rows {
                for c in *a..*b {
                    data.push(*sq.eds.share(*r, c as u16).unwrap().data());
                }
                let mut nmt = sq.eds.row_nmt(*r).map_err(|e| e.to_string())?;
                share_proofs.push(wrap_presence(nmt.build_range_proof(*a..*b), true));
            }
            let row_proof = sq.dah.row_proof(rows[0].0..=rows[rows.len() - 1].0).map_err(|e| e.to_string())?;
            Ok(ShareProof { data, namespace_id: ns, share_proofs, row_proof })
        });
        let Ok(Ok(sp)) = built else {
            mon.count("gen.share_proof_failed");
            continue;
        };
        if let Err(e) = sp.verify(sq.dah.hash()) {
            mon.count("gen.share_proof_does_not_verify");
            mon.ctx.sample(|| json!({"generator_share_proof_invalid": e.to_string()}));
            continue;
        }
        let x = mon.proto::<ShareProof, _>("ShareProof", "", &sp);
        let y = mon.json_rt("ShareProof", "", &sp);
        if x && y {
            mon.ctx.nontrivial(&("shareproof", sq.dah.hash().as_bytes(), ns.as_bytes(), rows.len(), rows[0].1));
            mon.count(if rows.len() == 1 { "ShareProof.class.single-row" } else { "ShareProof.class.multi-row" });
            mon.count(if ns.is_reserved() { "ShareProof.class.reserved-ns" } else { "ShareProof.class.user-ns" });
        }
        mon.ctx.sample(|| json!({"type": "ShareProof", "namespace": hex(ns.as_bytes()), "rows": rows.len(), "shares": sp.data.len(), "ods_width": ods}));
    }
}

/// A genuine bad-encoding fraud proof: re-randomise the parity half of one row/column of an honest
/// square (namespaces stay ordered), commit to the corrupted square in a signed header, and give the
/// shares of that axis with inclusion proofs (some withheld, at least half present).
fn drive_fraud_proofs(mon: &Mon, rng: &mut ChaCha8Rng, sq: &Square) {
    let w = sq.eds.square_width() as usize;
    let ods = w / 2;
    if w < 2 {
        return;
    }
    let axis = if rng.r#gen() { AxisType::Row } else { AxisType::Col };
    let index = rng.gen_range(0..w);
    let mut shares: Vec<Vec<u8>> = sq.eds.data_square().iter().map(|s| s.to_vec()).collect();
    // corrupt more than half of the parity part of the axis (payload bytes only)
    let mut corrupted = 0;
    for k in 0..w {
        let (r, c) = if axis == AxisType::Row { (index, k) } else { (k, index) };
        let is_ods = r < ods && c < ods;
        if !is_ods && (corrupted <= ods / 2 || rng.gen_bool(0.7)) {
            let s = &mut shares[r * w + c];
            let from = rng.gen_range(0..400);
            for b in &mut s[from..] {
                *b = rng.r#gen();
            }
            corrupted += 1;
        }
    }
    if corrupted == 0 {
        return;
    }
    mon.eval();
    let Ok(Ok(bad)) = guard(|| ExtendedDataSquare::new(shares, sq.eds.codec().to_string(), sq.app)) else {
        mon.count("gen.corrupted_eds_rejected");
        return;
    };
    let bad_dah = DataAvailabilityHeader::from_eds(&bad);
    let headers = gen_headers(rng, Some(bad_dah.clone()), sq.app);
    let header = &headers[0].0;

    // shares of the axis with proofs; withhold up to w - ods of them
    let mut withheld = 0usize;
    let max_withheld = if rng.gen_bool(0.5) { 0 } else { rng.gen_range(0..=w - ods) };
    let mut raw_shares = Vec::with_capacity(w);
    for k in 0..w {
        if withheld < max_withheld && rng.gen_bool(0.4) {
            withheld += 1;
            raw_shares.push(RawShareWithProof::default());
            continue;
        }
        let proof_axis = if rng.r#gen() { AxisType::Row } else { AxisType::Col };
        let (r, c) = if axis == AxisType::Row { (index, k) } else { (k, index) };
        let (mut nmt, leaf_idx) = match proof_axis {
            AxisType::Row => (bad.row_nmt(r as u16).unwrap(), c),
            AxisType::Col => (bad.column_nmt(c as u16).unwrap(), r),
        };
        let (share, proof) = nmt.get_index_with_proof(leaf_idx);
        let ns = if r < ods && c < ods { Namespace::from_raw(&share[..NS_SIZE]).unwrap() } else { Namespace::PARITY_SHARE };
        let mut data = ns.as_bytes().to_vec();
        data.extend_from_slice(&share);
        raw_shares.push(RawShareWithProof {
            data,
            proof: Some(RawProof::from(wrap_presence(proof, true))),
            proof_axis: proof_axis as i32,
        });
    }
    let raw = RawBefp {
        header_hash: header.hash().as_bytes().to_vec(),
        height: header.height(),
        shares: raw_shares,
        index: index as u32,
        axis: axis as i32,
    };
    mon.eval();
    let befp = match guard(|| BadEncodingFraudProof::try_from(raw.clone())) {
        Ok(Ok(b)) => b,
        other => {
            mon.count("gen.befp_raw_rejected");
            mon.ctx.sample(|| json!({"generator_befp_rejected": format!("{:?}", other.map(|r| r.map(|_| ()).map_err(|e| e.to_string())))}));
            return;
        }
    };
    // `validate` is only used to label the generated value (its own correctness is C07's business;
    // its unwrap on reconstructed garbage, byzantine.rs:154, is observed here and belongs to C07/C16)
    let verdict = guard(|| befp.validate(header).map_err(|e| e.to_string()));
    let genuine = matches!(verdict, Ok(Ok(())));
    mon.count(match &verdict {
        Ok(Ok(())) => "BadEncodingFraudProof.class.validates-against-header",
        Ok(Err(_)) => "BadEncodingFraudProof.class.rejected-by-validate",
        Err(_) => "BadEncodingFraudProof.class.validate-panicked(C07/C16)",
    });
    let class = "";
    let a = mon.proto::<BadEncodingFraudProof, RawBefp>("BadEncodingFraudProof", class, &befp);
    let wrapped = FraudProofEnum::BadEncoding(befp.clone());
    let b = mon.json_rt("fraud_proof::Proof", class, &wrapped);
    if a && b && genuine {
        mon.ctx.nontrivial(&("befp", header.hash().as_bytes(), index, axis as i32, withheld));
        mon.count(if withheld > 0 { "BadEncodingFraudProof.class.with-withheld-shares" } else { "BadEncodingFraudProof.class.all-shares" });
    }
    mon.ctx.sample(|| json!({"type": "BadEncodingFraudProof", "axis": format!("{axis:?}"), "index": index, "square_width": w, "withheld": withheld, "validates": genuine}));
}

pub fn run(ctx: &Ctx) {
    ctx.rule(
        "Per case: a realistic square (ODS width 1..16, quick; ..32 thorough; all app versions) and from it: 2 signed \
         multi-validator headers (1..6 validators, absent/nil minority, heights 1, 2, i64::MAX-3.., times with nanos \
         0/1/999999999, chain ids of length 1..50), the DAH (+ a DAH of random roots), 4 blobs (lengths around the share \
         capacities, with/without signer and index), 8 ODS shares (bare proto + JSON), 6 samples and 2 rows (all quadrants: \
         parity shares in their wire containers), 6 namespaces, ~30 namespace proofs (range, single leaf, present / \
         absent-in-range / absent-out-of-range namespaces, row and column trees, both ignore-max-ns settings), 3 row \
         proofs, 3 standalone merkle proofs (1..129 leaves), 2 share proofs that verify against the data root, 1 bad-encoding fraud proof over a really mis-encoded \
         axis that validates against its header. Each value: protobuf (plain + length-delimited) and JSON via from_str / \
         from_slice / from_value / from_reader / pretty; oracle decode(encode(v)) == v. Non-trivial = value that was built \
         valid (verifies/validates where the type has such a check) and compared; distinct by content hash.",
    );
    ctx.assume("vgen headers/squares are valid by construction (checked with validate()/verify() before use; invalid generator output is skipped and counted, never judged)");
    ctx.assume("PartialEq of the public types is the notion of 'equal values'");
    ctx.assume("bare Share form: parity shares are out of scope (no parity flag); protobuf BlobProto: `index` is not part of the schema and is compared modulo that field");

    let cases = ctx.scale(1_000u64, 30_000u64);
    let max_width = ctx.scale(16usize, 32usize);
    let shards = ctx.cores();
    ctx.par(shards, |shard| {
        let mon = Mon::new(ctx);
        for case in (shard as u64..cases).step_by(shards) {
            let mut rng = ctx.rng(1, case);
            // small squares most of the time (cost ~ width^2)
            let mw = if case % 8 == 0 { max_width } else { max_width.min(8) };
            let sq = gen_square(&mut rng, mw);
            drive_headers(&mon, &mut rng, &sq);
            drive_dah(&mon, &mut rng, &sq);
            drive_blobs(&mon, &mut rng);
            drive_shares(&mon, &mut rng, &sq);
            drive_namespaces(&mon, &mut rng);
            drive_ns_proofs(&mon, &mut rng, &sq);
            drive_row_proofs(&mon, &mut rng, &sq);
            drive_merkle_proofs(&mon, &mut rng);
            drive_share_proofs(&mon, &mut rng, &sq);
            drive_fraud_proofs(&mon, &mut rng, &sq);
            mon.count("cases");
        }
    });

    for (name, min) in [
        ("ExtendedHeader.proto.ok", 300),
        ("ExtendedHeader.json.ok", 300),
        ("ExtendedHeader.json-reader.ok", 300),
        ("ExtendedHeader.class.minority-absent-or-nil", 10),
        ("ExtendedHeader.class.height-1", 10),
        ("DataAvailabilityHeader.proto.ok", 300),
        ("DataAvailabilityHeader.json.ok", 300),
        ("Blob.proto.ok", 500),
        ("Blob.json.ok", 500),
        ("Blob.class.v1-signer", 30),
        ("Blob.class.v0-index", 30),
        ("Share.proto.ok", 1000),
        ("Share.json.ok", 1000),
        ("Sample.proto.ok.q1", 50),
        ("Sample.proto.ok.q2", 50),
        ("Sample.proto.ok.q3", 50),
        ("Sample.proto.ok.q4", 50),
        ("Row.proto.ok.upper", 50),
        ("Row.proto.ok.lower-all-parity", 50),
        ("Namespace.json.ok", 1000),
        ("NamespaceProof.class.presence", 1000),
        ("NamespaceProof.class.absence", 100),
        ("NamespaceProof.ignore_max_ns.false", 100),
        ("RowProof.proto.ok", 300),
        ("RowProof.json.ok", 300),
        ("MerkleProof.class.total-other", 300),
        ("MerkleProof.class.total-power-of-two", 20),
        ("ShareProof.proto.ok", 200),
        ("ShareProof.json.ok", 200),
        ("ShareProof.class.multi-row", 20),
        ("BadEncodingFraudProof.proto.ok", 100),
        ("fraud_proof::Proof.json.ok", 100),
        ("BadEncodingFraudProof.class.validates-against-header", 100),
        ("BadEncodingFraudProof.class.with-withheld-shares", 20),
    ] {
        ctx.floor(name, min);
    }
}
