//! Independent construction of the bytes a validator signs for a precommit (CometBFT
//! `CanonicalVote`, length-delimited protobuf). Built directly from the raw protobuf message of
//! `tendermint-proto`, without going through lumina's `CommitExt::vote_sign_bytes` nor
//! `tendermint::Vote`, so that the monitors own the ground truth "this key signed this vote".
#![allow(dead_code)]

use prost::Message;
use tendermint::Time;
use tendermint_proto::google::protobuf::Timestamp;
use tendermint_proto::v0_38::types::{CanonicalBlockId, CanonicalPartSetHeader, CanonicalVote};

const PRECOMMIT: i32 = 2;

pub fn canonical_vote_bytes(
    chain_id: &str,
    height: u64,
    round: u32,
    block_id: &tendermint::block::Id,
    ts: Time,
) -> Vec<u8> {
    let nanos_total = ts.unix_timestamp_nanos();
    let secs = ts.unix_timestamp();
    let nanos = (nanos_total - (secs as i128) * 1_000_000_000) as i32;
    CanonicalVote {
        r#type: PRECOMMIT,
        height: height as i64,
        round: round as i64,
        block_id: Some(CanonicalBlockId {
            hash: block_id.hash.as_bytes().to_vec(),
            part_set_header: Some(CanonicalPartSetHeader {
                total: block_id.part_set_header.total,
                hash: block_id.part_set_header.hash.as_bytes().to_vec(),
            }),
        }),
        timestamp: Some(Timestamp {
            seconds: secs,
            nanos,
        }),
        chain_id: chain_id.to_string(),
    }
    .encode_length_delimited_to_vec()
}

/// Known-answer test against sign bytes of a real chain ("private", block 1; the vector is the
/// one pinned in the repository's own unit test). Returns false if this encoder is wrong.
pub fn self_test() -> bool {
    let hash = |s: &str| -> tendermint::Hash { s.parse().unwrap() };
    let block_id = tendermint::block::Id {
        hash: hash("17F7D5108753C39714DCA67E6A73CE855C6EA9B0071BBD4FFE5D2EF7F3973BFC"),
        part_set_header: tendermint::block::parts::Header::new(
            1,
            hash("BEEBB79CDA7D0574B65864D3459FAC7F718B82496BD7FE8B6288BF0A98C8EA22"),
        )
        .unwrap(),
    };
    let ts = Time::parse_from_rfc3339("2023-06-23T10:40:48.769228056Z").unwrap();
    let got = canonical_vote_bytes("private", 1, 0, &block_id, ts);
    let want: Vec<u8> = vec![
        108u8, 8, 2, 17, 1, 0, 0, 0, 0, 0, 0, 0, 34, 72, 10, 32, 23, 247, 213, 16, 135, 83, 195,
        151, 20, 220, 166, 126, 106, 115, 206, 133, 92, 110, 169, 176, 7, 27, 189, 79, 254, 93, 46,
        247, 243, 151, 59, 252, 18, 36, 8, 1, 18, 32, 190, 235, 183, 156, 218, 125, 5, 116, 182,
        88, 100, 211, 69, 159, 172, 127, 113, 139, 130, 73, 107, 215, 254, 139, 98, 136, 191, 10,
        152, 200, 234, 34, 42, 12, 8, 176, 237, 213, 164, 6, 16, 152, 250, 229, 238, 2, 50, 7, 112,
        114, 105, 118, 97, 116, 101,
    ];
    got == want
}
