//! Independent model of Celestia's sparse-share encoding and of the blob share commitment
//! (shared by C11 and C12). Nothing here calls into lumina: byte layout from the share
//! specification, ADR-013 partition and NMT / RFC-6962 hashing on `vcore::sha` (sha2 only).
#![allow(dead_code)]

use vcore::sha::{self, NsHash};

pub const SHARE: usize = 512;
pub const NS: usize = 29;
pub const SIGNER: usize = 20;
/// namespace | info byte | payload
pub const CONT_CAP: usize = SHARE - NS - 1; // 482
/// namespace | info byte | sequence length (u32 BE) | [signer] | payload
pub const FIRST_CAP_V0: usize = SHARE - NS - 1 - 4; // 478
pub const FIRST_CAP_V1: usize = FIRST_CAP_V0 - SIGNER; // 458

pub fn first_cap(signer: bool) -> usize {
    if signer { FIRST_CAP_V1 } else { FIRST_CAP_V0 }
}

/// Number of shares a blob of `len` data bytes occupies (`len >= 1`).
pub fn share_count(len: usize, signer: bool) -> usize {
    let first = first_cap(signer);
    if len <= first {
        1
    } else {
        let rest = len - first;
        1 + (rest + CONT_CAP - 1) / CONT_CAP
    }
}

/// Smallest / largest data length that occupies exactly `n` shares.
pub fn len_range_for_shares(n: usize, signer: bool) -> (usize, usize) {
    let first = first_cap(signer);
    if n == 1 {
        (1, first)
    } else {
        (first + (n - 2) * CONT_CAP + 1, first + (n - 1) * CONT_CAP)
    }
}

/// Sparse share encoding per the share specification (share version 0 without signer,
/// share version 1 with the signer after the sequence length).
pub fn encode(ns: &[u8; NS], share_version: u8, signer: Option<&[u8; SIGNER]>, data: &[u8]) -> Vec<[u8; SHARE]> {
    let mut out = Vec::new();
    let mut pos = 0usize;
    let mut first = true;
    while pos < data.len() {
        let mut s = [0u8; SHARE];
        s[..NS].copy_from_slice(ns);
        s[NS] = (share_version << 1) | (first as u8);
        let mut off = NS + 1;
        if first {
            s[off..off + 4].copy_from_slice(&(data.len() as u32).to_be_bytes());
            off += 4;
            if let Some(sg) = signer {
                s[off..off + SIGNER].copy_from_slice(sg);
                off += SIGNER;
            }
        }
        let take = (SHARE - off).min(data.len() - pos);
        s[off..off + take].copy_from_slice(&data[pos..pos + take]);
        pos += take;
        first = false;
        out.push(s);
    }
    out
}

/// Subtree root threshold of an app version (celestia-app `SubtreeRootThreshold`, 64 in every
/// released version v1..v7).
pub fn subtree_root_threshold(app_version: u64) -> u64 {
    match app_version {
        1..=7 => 64,
        _ => 64,
    }
}

fn pow2_at_least(x: u64) -> u64 {
    let mut p = 1u64;
    while p < x {
        p <<= 1;
    }
    p
}

fn pow2_at_most(x: u64) -> u64 {
    debug_assert!(x >= 1);
    let mut p = 1u64;
    while p * 2 <= x {
        p *= 2;
    }
    p
}

/// ceil(sqrt(n)) in integers.
fn isqrt_ceil(n: u64) -> u64 {
    let mut r = 0u64;
    while r * r < n {
        r += 1;
    }
    r
}

/// ADR-013: width of the subtrees whose roots make up the commitment.
pub fn subtree_width(share_count: u64, threshold: u64) -> u64 {
    let mut s = share_count / threshold;
    if share_count % threshold != 0 {
        s += 1;
    }
    let s = pow2_at_least(s);
    let min_square = pow2_at_least(isqrt_ceil(share_count));
    s.min(min_square)
}

/// Merkle mountain range: as many full trees of `max` leaves as fit, then descending powers of two.
pub fn mmr_sizes(mut total: u64, max: u64) -> Vec<u64> {
    let mut v = Vec::new();
    while total > 0 {
        let t = if total >= max { max } else { pow2_at_most(total) };
        v.push(t);
        total -= t;
    }
    v
}

/// Share commitment: RFC-6962 root over the NMT roots of the mountain-range subtrees.
pub fn commitment(ns: &[u8; NS], shares: &[[u8; SHARE]], threshold: u64) -> [u8; 32] {
    let n = shares.len() as u64;
    let width = subtree_width(n, threshold);
    let mut roots: Vec<Vec<u8>> = Vec::new();
    let mut at = 0usize;
    for size in mmr_sizes(n, width) {
        let leaves: Vec<([u8; NS], Vec<u8>)> = shares[at..at + size as usize]
            .iter()
            .map(|s| (*ns, s.to_vec()))
            .collect();
        let r: NsHash = sha::nmt_root(&leaves);
        roots.push(r.to_bytes());
        at += size as usize;
    }
    sha::merkle_root(&roots)
}

/// Commitment of a blob straight from its fields.
pub fn blob_commitment(
    ns: &[u8; NS],
    share_version: u8,
    signer: Option<&[u8; SIGNER]>,
    data: &[u8],
    app_version: u64,
) -> [u8; 32] {
    let shares = encode(ns, share_version, signer, data);
    commitment(ns, &shares, subtree_root_threshold(app_version))
}
