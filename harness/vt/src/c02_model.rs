//! C02 — shared workload generator and executable restatement of the property text.
//!
//! Used by `vt/src/c02.rs` (ExtendedHeader::verify*, celestia-types) and `vn/src/c02.rs`
//! (`VerifiedExtendedHeaders::try_from`, lumina-node).
//!
//! Every generated header carries `Facts` recorded *at construction* (who signed with which key,
//! which header was named as parent, which validator sets were committed to, which time was
//! chosen relative to the wall clock). The predicate `linked()` is evaluated on facts only; it
//! never calls lumina's verification code.
#![allow(dead_code)]

use std::time::Duration;

use celestia_types::ExtendedHeader;
use tendermint::Time;
use vcore::{ChaCha8Rng, Rng, SliceRandom};
use vgen::chain::{Flag, HeaderSpec, Val, build_header, empty_dah, random_block_id, random_powers, sorted};

pub type Key = [u8; 32];

pub fn key_of(v: &Val) -> Key {
    v.key.verification_key().to_bytes()
}

fn set_key(vals: &[Val]) -> Vec<(Key, u64)> {
    let mut k: Vec<(Key, u64)> = vals.iter().map(|v| (key_of(v), v.power)).collect();
    k.sort();
    k
}

#[derive(Clone, Copy, Debug, PartialEq, Eq, Hash)]
pub enum Entry {
    /// Commit flag with a genuine signature of the named validator.
    Commit,
    Nil,
    Absent,
    /// Commit flag with a signature not made by the named validator.
    Forged,
}

#[derive(Clone, Debug)]
pub struct Facts {
    pub id: u64,
    pub height: u64,
    pub chain: String,
    pub time_ns: i128,
    /// constructed as now + >= 3600 s (otherwise the time is >= 1800 s in the past)
    pub far_future: bool,
    /// id of the header whose block id this header names as its parent
    pub parent: Option<u64>,
    pub vals: Vec<(Key, u64)>,
    pub next_vals: Vec<(Key, u64)>,
    /// commit entries in commit order: the validator named and how the entry was made
    pub entries: Vec<(Key, Entry)>,
    /// every Commit-flag entry genuinely signed, at most one entry per validator
    pub well_formed: bool,
}

#[derive(Clone)]
pub struct H {
    pub hdr: ExtendedHeader,
    pub f: Facts,
}

/// The conditions of the property text, in a fixed order; `Ok` or the first violated one.
pub fn linked(t: &Facts, u: &Facts) -> Result<(), &'static str> {
    if u.height <= t.height {
        return Err("height-not-greater");
    }
    if u.chain != t.chain {
        return Err("chain-id");
    }
    if u.time_ns <= t.time_ns {
        return Err("time-not-after-trusted");
    }
    if u.far_future {
        return Err("time-from-future");
    }
    if u.height == t.height + 1 {
        if u.vals != t.next_vals {
            return Err("next-validators");
        }
        if u.parent != Some(t.id) {
            return Err("parent");
        }
        return Ok(());
    }
    let (signed, total) = trusted_power(t, u);
    if 3 * signed > total {
        Ok(())
    } else {
        Err("trusted-power<=1/3")
    }
}

/// (power of distinct trusted validators with a genuine block-commit signature in `u`, total trusted power)
pub fn trusted_power(t: &Facts, u: &Facts) -> (u128, u128) {
    let total: u128 = t.vals.iter().map(|(_, p)| *p as u128).sum();
    let mut seen: Vec<Key> = Vec::new();
    let mut signed = 0u128;
    for (k, e) in &u.entries {
        if *e != Entry::Commit || seen.contains(k) {
            continue;
        }
        if let Some((_, p)) = t.vals.iter().find(|(tk, _)| tk == k) {
            seen.push(*k);
            signed += *p as u128;
        }
    }
    (signed, total)
}

/// Is the oracle exact (accept <=> linked) for this pair? Always for adjacent pairs (the commit is
/// not consulted); for non-adjacent pairs only on well-formed commits.
pub fn exact(t: &Facts, u: &Facts) -> bool {
    u.height == t.height.wrapping_add(1) || u.well_formed
}

/// Expected verdict of `trusted.verify_range(list)`; Err names the first violated condition.
pub fn range_linked(t: &Facts, list: &[&Facts]) -> Result<(), &'static str> {
    let mut prev = t;
    for (i, u) in list.iter().enumerate() {
        if i != 0 && u.height != prev.height.wrapping_add(1) {
            return Err("heights-not-consecutive");
        }
        linked(prev, u)?;
        prev = u;
    }
    Ok(())
}

pub fn adjacent_range_linked(t: &Facts, list: &[&Facts]) -> Result<(), &'static str> {
    if let Some(first) = list.first() {
        if first.height != t.height.wrapping_add(1) {
            return Err("first-not-adjacent-to-trusted");
        }
    }
    range_linked(t, list)
}

pub fn range_exact(t: &Facts, list: &[&Facts]) -> bool {
    let mut prev = t;
    for u in list {
        if !exact(prev, u) {
            return false;
        }
        prev = u;
    }
    true
}

// ---------------------------------------------------------------------------------------------
// world
// ---------------------------------------------------------------------------------------------

pub struct Spec<'a> {
    pub chain: &'a str,
    pub height: u64,
    pub time: Time,
    pub far_future: bool,
    /// header named as parent (None: a random block id, or no block id at height 1)
    pub parent: Option<&'a H>,
    pub vals: &'a [Val],
    pub next_vals: &'a [Val],
    /// behaviour of each validator (looked up by key; default Commit)
    pub flags: &'a [(Key, Flag)],
}

pub struct World {
    pub rng: ChaCha8Rng,
    pub chain_id: String,
    pub app: u64,
    pub block_time: Duration,
    /// the honest chain
    pub chain: Vec<H>,
    /// validators of `chain[i]` / of the block after it
    pub vals_at: Vec<Vec<Val>>,
    pub next_vals_at: Vec<Vec<Val>>,
    next_id: u64,
}

fn time_ns(t: Time) -> i128 {
    t.unix_timestamp_nanos()
}

impl World {
    pub fn build(&mut self, spec: Spec<'_>) -> H {
        let order = sorted(spec.vals);
        let flags: Vec<Flag> = order
            .iter()
            .map(|v| {
                let k = key_of(v);
                spec.flags.iter().find(|(fk, _)| *fk == k).map(|(_, f)| *f).unwrap_or(Flag::Commit)
            })
            .collect();
        let chain_id: tendermint::chain::Id = spec.chain.try_into().unwrap();
        let last_block_id = match spec.parent {
            Some(p) => Some(p.hdr.commit.block_id),
            None if spec.height == 1 => None,
            None => Some(random_block_id(&mut self.rng)),
        };
        let hdr = build_header(
            &mut self.rng,
            HeaderSpec {
                chain_id: &chain_id,
                height: spec.height,
                time: spec.time,
                app_version: self.app,
                last_block_id,
                vals: spec.vals,
                next_vals: spec.next_vals,
                dah: empty_dah(),
                flags: &flags,
            },
        );
        let id = self.next_id;
        self.next_id += 1;
        let entries: Vec<(Key, Entry)> = order
            .iter()
            .zip(flags.iter())
            .map(|(v, f)| {
                (
                    key_of(v),
                    match f {
                        Flag::Commit => Entry::Commit,
                        Flag::Nil => Entry::Nil,
                        Flag::Absent => Entry::Absent,
                        Flag::Forged => Entry::Forged,
                    },
                )
            })
            .collect();
        let well_formed = !flags.contains(&Flag::Forged);
        H {
            hdr,
            f: Facts {
                id,
                height: spec.height,
                chain: spec.chain.to_string(),
                time_ns: time_ns(spec.time),
                far_future: spec.far_future,
                parent: spec.parent.map(|p| p.f.id),
                vals: set_key(spec.vals),
                next_vals: set_key(spec.next_vals),
                entries,
                well_formed,
            },
        }
    }

    /// Honest chain of `len` headers with validator rotation; the last header is at least three
    /// hours old.
    pub fn new(mut rng: ChaCha8Rng, case: u64, len: usize) -> World {
        let n = rng.gen_range(1..=8usize);
        let powers = match rng.gen_range(0..4) {
            0 => {
                let n = *[3usize, 6, 3, 6, 4, 5].choose(&mut rng).unwrap();
                vec![rng.gen_range(1..50); n]
            }
            1 => (0..n).map(|_| rng.gen_range(1..5)).collect(),
            _ => random_powers(&mut rng, n),
        };
        let mut vals: Vec<Val> = powers.iter().map(|p| Val::new(&mut rng, *p)).collect();
        let block_time = Duration::from_secs(rng.gen_range(1..30));
        let back = Duration::from_secs(3 * 3600 + rng.gen_range(0..50_000_000));
        let start_time = Time::now().checked_sub(block_time * (len as u32) + back).unwrap();
        let start_height = *[1u64, 1, 2, rng.gen_range(3..5_000_000)].choose(&mut rng).unwrap();
        let mut w = World {
            rng,
            chain_id: format!("c02-{case}"),
            app: 0,
            block_time,
            chain: Vec::new(),
            vals_at: Vec::new(),
            next_vals_at: Vec::new(),
            next_id: 1,
        };
        w.app = w.rng.gen_range(1..=7);
        let rotate_p = *[0u32, 20, 40, 70].choose(&mut w.rng).unwrap();
        for k in 0..len {
            let next_vals = if w.rng.gen_range(0..100) < rotate_p { w.rotate(&vals) } else { vals.clone() };
            // a few nil / absent votes that keep more than 2/3 committing
            let mut flags: Vec<(Key, Flag)> = Vec::new();
            if w.rng.gen_range(0..4) == 0 {
                let total: u128 = vals.iter().map(|v| v.power as u128).sum();
                let mut committing = total;
                for v in &vals {
                    if w.rng.gen_range(0..4) == 0 && 3 * (committing - v.power as u128) > 2 * total {
                        committing -= v.power as u128;
                        flags.push((key_of(v), if w.rng.r#gen() { Flag::Nil } else { Flag::Absent }));
                    }
                }
            }
            let time = start_time.checked_add(block_time * k as u32).unwrap();
            let chain_id = w.chain_id.clone();
            let parent = w.chain.last().cloned();
            let h = w.build(Spec {
                chain: &chain_id,
                height: start_height + k as u64,
                time,
                far_future: false,
                parent: parent.as_ref(),
                vals: &vals,
                next_vals: &next_vals,
                flags: &flags,
            });
            w.chain.push(h);
            w.vals_at.push(vals.clone());
            w.next_vals_at.push(next_vals.clone());
            vals = next_vals;
        }
        w
    }

    /// A successor validator set with 0..100 % overlap, possibly changed powers.
    pub fn rotate(&mut self, vals: &[Val]) -> Vec<Val> {
        let mut out: Vec<Val> = Vec::new();
        let keep_p = *[0u32, 30, 50, 70, 90, 100].choose(&mut self.rng).unwrap();
        for v in vals {
            if self.rng.gen_range(0..100) < keep_p {
                let mut v = v.clone();
                if self.rng.gen_range(0..5) == 0 {
                    v.power = (v.power / 2).max(1) + self.rng.gen_range(0..3);
                }
                out.push(v);
            }
        }
        let total: u64 = out.iter().map(|v| v.power).sum();
        let typical = (vals.iter().map(|v| v.power).sum::<u64>() / vals.len() as u64).max(1);
        let add = if out.is_empty() { self.rng.gen_range(1..=3) } else { self.rng.gen_range(0..=2) };
        for _ in 0..add {
            if out.len() >= 8 {
                break;
            }
            let p = (typical / 2).max(1) + self.rng.gen_range(0..=typical);
            if total + 3 * (typical + typical / 2 + 1) < celestia_types::ValidatorSet::MAX_TOTAL_VOTING_POWER {
                out.push(Val::new(&mut self.rng, p));
            }
        }
        if out.is_empty() {
            out.push(vals[0].clone());
        }
        out
    }

    pub fn outsiders(&mut self, n: usize, typical: u64) -> Vec<Val> {
        (0..n)
            .map(|_| {
                let p = typical.max(1) + self.rng.gen_range(0..=typical.max(1));
                Val::new(&mut self.rng, p.min(1 << 40))
            })
            .collect()
    }

    /// Subsets of the trusted validators around the 1/3 boundary of the trusted power.
    /// Returns (family, insiders).
    pub fn insider_sets(&mut self, trusted: &[Val]) -> Vec<(&'static str, Vec<Val>)> {
        let total: u128 = trusted.iter().map(|v| v.power as u128).sum();
        let mut by_power: Vec<Val> = trusted.to_vec();
        if self.rng.r#gen() {
            by_power.sort_by_key(|v| std::cmp::Reverse(v.power));
        } else {
            by_power.shuffle(&mut self.rng);
        }
        let mut out = Vec::new();
        // minimal prefix crossing 1/3, and the same without its last member
        let mut acc = 0u128;
        let mut prefix = Vec::new();
        for v in &by_power {
            prefix.push(v.clone());
            acc += v.power as u128;
            if 3 * acc > total {
                break;
            }
        }
        out.push(("insiders-just-above-third", prefix.clone()));
        prefix.pop();
        out.push(("insiders-just-below-third", prefix));
        // exactly one third, if some subset has it
        let n = trusted.len();
        if total % 3 == 0 {
            let start = self.rng.gen_range(0..(1u32 << n));
            for k in 0..(1u32 << n) {
                let mask = (start + k) % (1u32 << n);
                let s: u128 = (0..n).filter(|i| mask & (1 << i) != 0).map(|i| trusted[i].power as u128).sum();
                if 3 * s == total {
                    out.push(("insiders-exactly-third", (0..n).filter(|i| mask & (1 << i) != 0).map(|i| trusted[i].clone()).collect()));
                    break;
                }
            }
        }
        out.push(("outsiders-only", vec![]));
        let mask: u32 = self.rng.r#gen();
        out.push(("insiders-random", (0..n).filter(|i| mask & (1 << i) != 0).map(|i| trusted[i].clone()).collect()));
        out.push(("insiders-all", trusted.to_vec()));
        out
    }

    /// Perturbed / forked candidates to be verified against `chain[t]`. Returns (family, header).
    pub fn candidates(&mut self, t: usize) -> Vec<(String, H)> {
        let mut out: Vec<(String, H)> = Vec::new();
        let trusted = self.chain[t].clone();
        let chain_id = self.chain_id.clone();
        let typical = (self.vals_at[t].iter().map(|v| v.power).sum::<u64>() / self.vals_at[t].len() as u64).max(1);
        let bt = self.block_time;
        let ttime = trusted.hdr.time();
        let now = Time::now();

        for d in [1u64, 2, 3, 7] {
            let height = trusted.f.height + d;
            // honest parent / validators at that height when the honest chain is long enough
            let idx = t + d as usize;
            let parent: Option<H> = self.chain.get(idx - 1).cloned();
            let (vals, next_vals) = match self.vals_at.get(idx) {
                Some(v) => (v.clone(), self.next_vals_at[idx].clone()),
                None => (self.next_vals_at[t].clone(), self.next_vals_at[t].clone()),
            };
            let time = ttime.checked_add(bt * d as u32).unwrap();
            let base = |w: &mut World, parent: Option<&H>, chain: &str, height: u64, time: Time, far: bool, vals: &[Val], next: &[Val], flags: &[(Key, Flag)]| {
                w.build(Spec { chain, height, time, far_future: far, parent, vals, next_vals: next, flags })
            };

            // an alternative block at that height by the same validators (a fork by insiders)
            out.push((format!("fork-same-validators/d{d}"), base(self, parent.as_ref(), &chain_id, height, time, false, &vals, &next_vals, &[])));
            // chain id
            out.push((format!("chain-id/d{d}"), base(self, parent.as_ref(), &format!("{chain_id}x"), height, time, false, &vals, &next_vals, &[])));
            {
                // only the chain-id field differs; the commit is still the one signed for the trusted chain
                let mut h = base(self, parent.as_ref(), &chain_id, height, time, false, &vals, &next_vals, &[]);
                let other = format!("{chain_id}z");
                h.hdr.header.chain_id = other.as_str().try_into().unwrap();
                h.f.chain = other;
                out.push((format!("chain-id-field-only/d{d}"), h));
            }
            // time
            let one_ns = Duration::from_nanos(1);
            out.push((format!("time-equal/d{d}"), base(self, parent.as_ref(), &chain_id, height, ttime, false, &vals, &next_vals, &[])));
            out.push((format!("time-1ns-before/d{d}"), base(self, parent.as_ref(), &chain_id, height, ttime.checked_sub(one_ns).unwrap(), false, &vals, &next_vals, &[])));
            out.push((format!("time-1ns-after/d{d}"), base(self, parent.as_ref(), &chain_id, height, ttime.checked_add(one_ns).unwrap(), false, &vals, &next_vals, &[])));
            out.push((format!("time-day-before/d{d}"), base(self, parent.as_ref(), &chain_id, height, ttime.checked_sub(Duration::from_secs(86_400)).unwrap(), false, &vals, &next_vals, &[])));
            out.push((format!("time-now-minus-1h/d{d}"), base(self, parent.as_ref(), &chain_id, height, now.checked_sub(Duration::from_secs(3600)).unwrap(), false, &vals, &next_vals, &[])));
            out.push((format!("time-now-plus-1h/d{d}"), base(self, parent.as_ref(), &chain_id, height, now.checked_add(Duration::from_secs(3600)).unwrap(), true, &vals, &next_vals, &[])));
            out.push((format!("time-now-plus-1y/d{d}"), base(self, parent.as_ref(), &chain_id, height, now.checked_add(Duration::from_secs(365 * 86_400)).unwrap(), true, &vals, &next_vals, &[])));
            // parent
            out.push((format!("parent-random/d{d}"), base(self, None, &chain_id, height, time, false, &vals, &next_vals, &[])));
            if t > 0 {
                let gp = self.chain[t - 1].clone();
                out.push((format!("parent-grandparent/d{d}"), base(self, Some(&gp), &chain_id, height, time, false, &vals, &next_vals, &[])));
            }
            {
                // parent = a sibling of the trusted header (same height, same signers, other content)
                let tp = if t > 0 { Some(self.chain[t - 1].clone()) } else { None };
                let tvals = self.vals_at[t].clone();
                let tnext = self.next_vals_at[t].clone();
                let sibling = base(self, tp.as_ref(), &chain_id, trusted.f.height, ttime, false, &tvals, &tnext, &[]);
                out.push((format!("parent-sibling-of-trusted/d{d}"), base(self, Some(&sibling), &chain_id, height, time, false, &vals, &next_vals, &[])));
            }
            // validators
            {
                let mut v2 = vals.clone();
                match self.rng.gen_range(0..3) {
                    0 if v2.len() > 1 => {
                        v2.pop();
                    }
                    1 => {
                        v2[0].power += 1;
                    }
                    _ => v2.extend(self.outsiders(1, typical)),
                }
                out.push((format!("validators-changed/d{d}"), base(self, parent.as_ref(), &chain_id, height, time, false, &v2, &v2, &[])));
            }
            // heights
            if d == 1 {
                let tp = if t > 0 { Some(self.chain[t - 1].clone()) } else { None };
                let later = ttime.checked_add(bt).unwrap();
                let tvals = self.vals_at[t].clone();
                out.push(("height-equal".to_string(), base(self, tp.as_ref(), &chain_id, trusted.f.height, later, false, &tvals, &tvals, &[])));
                if trusted.f.height > 1 {
                    out.push(("height-lower".to_string(), base(self, None, &chain_id, trusted.f.height - 1, later, false, &tvals, &tvals, &[])));
                }
            }
            // who signs: insiders of the trusted set around the 1/3 boundary + outsiders
            let tvals = self.vals_at[t].clone();
            for (fam, insiders) in self.insider_sets(&tvals) {
                let n_out = if insiders.is_empty() { self.rng.gen_range(1..=3) } else { self.rng.gen_range(0..=3) };
                let mut signers = insiders.clone();
                // in the new set the insiders may have other powers
                if self.rng.gen_range(0..3) == 0 {
                    for s in signers.iter_mut() {
                        s.power = (s.power / 3).max(1);
                    }
                }
                signers.extend(self.outsiders(n_out, typical));
                signers.truncate(12);
                out.push((format!("{fam}/d{d}"), base(self, parent.as_ref(), &chain_id, height, time, false, &signers, &signers, &[])));

                if !insiders.is_empty() && (fam == "insiders-just-above-third" || fam == "insiders-all") {
                    // the insiders do not commit: nil / absent / forged signatures
                    for (sub, flag) in [("nil", Flag::Nil), ("absent", Flag::Absent), ("forged", Flag::Forged)] {
                        let k = self.rng.gen_range(0..insiders.len());
                        // all insiders, or only one of them (the one that matters for "just above")
                        let which: Vec<(Key, Flag)> = if self.rng.r#gen() {
                            insiders.iter().map(|v| (key_of(v), flag)).collect()
                        } else {
                            vec![(key_of(&insiders[k]), flag)]
                        };
                        out.push((format!("{fam}-{sub}/d{d}"), base(self, parent.as_ref(), &chain_id, height, time, false, &signers, &signers, &which)));
                    }
                }
                if fam == "insiders-just-below-third" && !insiders.is_empty() && signers.len() >= 2 {
                    // double vote: another entry is replaced by a copy of an insider's genuine vote
                    let mut h = base(self, parent.as_ref(), &chain_id, height, time, false, &signers, &signers, &[]);
                    let ik = key_of(&insiders[self.rng.gen_range(0..insiders.len())]);
                    let src = h.f.entries.iter().position(|(k, _)| *k == ik).unwrap();
                    let copies = self.rng.gen_range(1..=3usize);
                    let mut done = 0;
                    for dst in 0..h.f.entries.len() {
                        if dst != src && done < copies && !insiders.iter().any(|v| key_of(v) == h.f.entries[dst].0) {
                            h.hdr.commit.signatures[dst] = h.hdr.commit.signatures[src].clone();
                            h.f.entries[dst] = h.f.entries[src];
                            done += 1;
                        }
                    }
                    if done > 0 {
                        h.f.well_formed = false;
                        out.push((format!("double-vote/d{d}"), h));
                    }
                }
            }
        }
        out
    }

    /// Lists to be range-verified against `chain[t]`. Returns (family, list).
    pub fn lists(&mut self, t: usize) -> Vec<(String, Vec<H>)> {
        let mut out: Vec<(String, Vec<H>)> = Vec::new();
        let len = self.chain.len();
        out.push(("empty".into(), vec![]));
        if t + 1 >= len {
            return out;
        }
        let chain_id = self.chain_id.clone();
        // honest slices starting adjacent / non-adjacent
        let mut starts = vec![t + 1];
        if t + 2 < len {
            starts.push(self.rng.gen_range(t + 2..len));
        }
        for a in starts {
            let b = self.rng.gen_range(a + 1..=len);
            let slice: Vec<H> = self.chain[a..b].to_vec();
            let tag = if a == t + 1 { "adjacent-start" } else { "later-start" };
            out.push((format!("honest/{tag}"), slice.clone()));
            if slice.len() >= 2 {
                let i = self.rng.gen_range(0..slice.len() - 1);
                let mut l = slice.clone();
                l.swap(i, i + 1);
                out.push((format!("swapped/{tag}"), l));
                let mut l = slice.clone();
                l.insert(i + 1, slice[i].clone());
                out.push((format!("duplicated/{tag}"), l));
                let mut l = slice.clone();
                l.reverse();
                out.push((format!("reversed/{tag}"), l));
            }
            if slice.len() >= 3 {
                let i = self.rng.gen_range(1..slice.len() - 1);
                let mut l = slice.clone();
                l.remove(i);
                out.push((format!("gapped/{tag}"), l));
            }
            // one element replaced by an alternative header
            let i = self.rng.gen_range(0..slice.len());
            let idx = a + i;
            let parent = if idx > 0 { Some(self.chain[idx - 1].clone()) } else { None };
            let vals = self.vals_at[idx].clone();
            let next = self.next_vals_at[idx].clone();
            let time = slice[i].hdr.time();
            for fam in ["fork", "chain-id", "time-equal-prev", "parent-random", "validators-changed", "future"] {
                let pos = if i + 1 == slice.len() { "last" } else { "inner" };
                let h = match fam {
                    "fork" => self.build(Spec { chain: &chain_id, height: slice[i].f.height, time, far_future: false, parent: parent.as_ref(), vals: &vals, next_vals: &next, flags: &[] }),
                    "chain-id" => self.build(Spec { chain: &format!("{chain_id}y"), height: slice[i].f.height, time, far_future: false, parent: parent.as_ref(), vals: &vals, next_vals: &next, flags: &[] }),
                    "time-equal-prev" => {
                        let Some(p) = parent.as_ref() else { continue };
                        self.build(Spec { chain: &chain_id, height: slice[i].f.height, time: p.hdr.time(), far_future: false, parent: parent.as_ref(), vals: &vals, next_vals: &next, flags: &[] })
                    }
                    "parent-random" => self.build(Spec { chain: &chain_id, height: slice[i].f.height, time, far_future: false, parent: None, vals: &vals, next_vals: &next, flags: &[] }),
                    "validators-changed" => {
                        let mut v2 = vals.clone();
                        v2[0].power += 1;
                        self.build(Spec { chain: &chain_id, height: slice[i].f.height, time, far_future: false, parent: parent.as_ref(), vals: &v2, next_vals: &next, flags: &[] })
                    }
                    _ => self.build(Spec { chain: &chain_id, height: slice[i].f.height, time: Time::now().checked_add(Duration::from_secs(7200)).unwrap(), far_future: true, parent: parent.as_ref(), vals: &vals, next_vals: &next, flags: &[] }),
                };
                let mut l = slice.clone();
                l[i] = h;
                out.push((format!("replaced-{fam}-{pos}/{tag}"), l));
            }
        }
        out
    }
}
