#![allow(clippy::all)]
use vcore::Ctx;

include!(concat!(env!("OUT_DIR"), "/dispatch.rs"));

fn main() {
    let ctx = Ctx::from_args();
    if !dispatch(&ctx) {
        eprintln!("unknown property {}", ctx.prop);
        std::process::exit(2);
    }
    std::process::exit(ctx.finish());
}
