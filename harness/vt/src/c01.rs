//! C01 — Header validation binds signatures, validator set and DAH.
//!
//! Workload: multi-validator signed chains (`vgen::chain`, 1..8 validators, random / boundary
//! powers, app versions 1..7, DAHs of real extended squares of width 2..64, validator rotation,
//! some nil/absent votes). Every header is observed through the real `ExtendedHeader::validate()`
//! and `ExtendedHeader::decode_and_validate(encode())`:
//!  * unmutated  => must be accepted (also when re-signed over independently built sign bytes);
//!  * every single-field mutation family of the property text (each hash-covered header field, DAH
//!    roots, validator keys/powers, commit block id/height/round, each commit signature /
//!    timestamp / validator address) => must be rejected. Besides the raw mutation, "relinked"
//!    variants recompute what an attacker can recompute without keys (data hash, validators hash,
//!    commit block-id hash), so that every validation step is the last line of defence for some
//!    input.
//!
//! Commit-signature mutations are classified by the position of the mutated entry relative to
//! the *quorum point* (first index, in set order, at which the power of the block-commit votes
//! exceeds 2/3 of the total): `commit_sig-upto-quorum` vs `commit_sig-after-quorum`.
//! Things the text does not clearly demand (address / proposer / total power of the validator-set
//! structure, which are outside the validators hash; nil votes; flag changes that leave > 2/3
//! genuinely signing) are only recorded as observations.

#[path = "c03_vote.rs"]
mod c03_vote;

use celestia_types::consts::appconsts::AppVersion;
use celestia_types::hash::Hash;
use celestia_types::nmt::{NamespacedHash, NamespacedHashExt};
use celestia_types::{DataAvailabilityHeader, ExtendedHeader, ValidatorSet};
use tendermint::block::CommitSig;
use tendermint::{Signature, Time};
use tendermint_proto::Protobuf;
use vcore::{ChaCha8Rng, Ctx, Rng, SliceRandom, guard, json, panic_site};
use vgen::chain::{ChainGen, Flag, Val, random_hash, random_powers, sorted};
use vgen::square::gen_eds;

#[derive(Clone, Copy, PartialEq, Eq, Debug)]
enum Demand {
    /// The property text demands rejection.
    Reject,
    /// Rejection is demanded only if the flag is true (otherwise either outcome is fine).
    RejectIf(bool),
    /// Not clearly demanded by the text: record only.
    Observe,
}

struct Mutation {
    group: &'static str,
    family: String,
    variant: &'static str,
    demand: Demand,
    hdr: ExtendedHeader,
    note: String,
}

/// One honest header with its ground truth.
struct HCase {
    chain: u64,
    index: usize,
    hdr: ExtendedHeader,
    /// validators in set order (with their keys)
    vals: Vec<Val>,
    flags: Vec<Flag>,
    /// quorum point
    q: usize,
    total: u128,
    app: u64,
}

fn flip_hash(rng: &mut ChaCha8Rng, h: &Hash) -> Hash {
    match h {
        Hash::Sha256(b) => {
            let mut b = *b;
            b[rng.gen_range(0..32)] ^= 1 << rng.gen_range(0..8);
            Hash::Sha256(b)
        }
        Hash::None => random_hash(rng),
    }
}

fn flip_opt_hash(rng: &mut ChaCha8Rng, h: &Option<Hash>) -> Option<Hash> {
    match h {
        Some(h) if rng.gen_range(0..4) > 0 => Some(flip_hash(rng, h)),
        Some(_) => None,
        None => Some(random_hash(rng)),
    }
}

fn flip_address(rng: &mut ChaCha8Rng, a: &tendermint::account::Id) -> tendermint::account::Id {
    let mut b: [u8; 20] = a.as_bytes().try_into().unwrap();
    b[rng.gen_range(0..20)] ^= 1 << rng.gen_range(0..8);
    tendermint::account::Id::new(b)
}

fn relink_block_id(h: &mut ExtendedHeader) {
    h.commit.block_id.hash = h.header.hash();
}

/// Quorum point: first index at which the power of the genuinely valid block-commit votes
/// exceeds 2/3 of the total (None if never).
fn quorum_point(vals: &[Val], flags: &[Flag]) -> Option<usize> {
    let total: u128 = vals.iter().map(|v| v.power as u128).sum();
    let mut acc = 0u128;
    for (i, v) in vals.iter().enumerate() {
        if flags.get(i).copied().unwrap_or(Flag::Commit) == Flag::Commit {
            acc += v.power as u128;
            if 3 * acc > 2 * total {
                return Some(i);
            }
        }
    }
    None
}

fn commit_power(vals: &[Val], flags: &[Flag]) -> u128 {
    vals.iter()
        .enumerate()
        .filter(|(i, _)| flags.get(*i).copied().unwrap_or(Flag::Commit) == Flag::Commit)
        .map(|(_, v)| v.power as u128)
        .sum()
}

// ---------------------------------------------------------------------------------------------
// mutation families
// ---------------------------------------------------------------------------------------------

const HEADER_FIELDS: [&str; 15] = [
    "version.block",
    "version.app",
    "chain_id",
    "height",
    "time",
    "last_block_id",
    "last_commit_hash",
    "data_hash",
    "validators_hash",
    "next_validators_hash",
    "consensus_hash",
    "app_hash",
    "last_results_hash",
    "evidence_hash",
    "proposer_address",
];

fn mutate_header_field(rng: &mut ChaCha8Rng, h: &mut ExtendedHeader, field: &str) -> String {
    let hd = &mut h.header;
    match field {
        "version.block" => {
            hd.version.block = hd.version.block.wrapping_add(*[1u64, u64::MAX].choose(rng).unwrap());
            format!("block={}", hd.version.block)
        }
        "version.app" => {
            let old = hd.version.app;
            let mut new = rng.gen_range(1..=7);
            if new == old {
                new = old % 7 + 1;
            }
            hd.version.app = new;
            format!("app {old}->{new}")
        }
        "chain_id" => {
            let s = format!("{}x", hd.chain_id.as_str());
            hd.chain_id = s.as_str().try_into().unwrap();
            s
        }
        "height" => {
            let v = hd.height.value();
            let new = if v > 1 && rng.r#gen() { v - 1 } else { v + 1 };
            hd.height = new.try_into().unwrap();
            format!("height {v}->{new}")
        }
        "time" => {
            let d = *[1u64, 1_000_000_000, 3_600_000_000_000].choose(rng).unwrap();
            hd.time = if rng.r#gen() {
                hd.time.checked_add(std::time::Duration::from_nanos(d)).unwrap()
            } else {
                hd.time.checked_sub(std::time::Duration::from_nanos(d)).unwrap()
            };
            format!("time +-{d}ns")
        }
        "last_block_id" => match &mut hd.last_block_id {
            Some(id) => match rng.gen_range(0..4) {
                0 => {
                    id.hash = flip_hash(rng, &id.hash);
                    "hash flipped".into()
                }
                1 => {
                    id.part_set_header.hash = flip_hash(rng, &id.part_set_header.hash);
                    "part-set hash flipped".into()
                }
                2 => {
                    id.part_set_header.total += 1;
                    "part-set total+1".into()
                }
                _ => {
                    hd.last_block_id = None;
                    "removed".into()
                }
            },
            None => {
                hd.last_block_id = Some(vgen::chain::random_block_id(rng));
                "added".into()
            }
        },
        "last_commit_hash" => {
            hd.last_commit_hash = flip_opt_hash(rng, &hd.last_commit_hash);
            String::new()
        }
        "data_hash" => {
            hd.data_hash = flip_opt_hash(rng, &hd.data_hash);
            String::new()
        }
        "validators_hash" => {
            hd.validators_hash = flip_hash(rng, &hd.validators_hash);
            String::new()
        }
        "next_validators_hash" => {
            hd.next_validators_hash = flip_hash(rng, &hd.next_validators_hash);
            String::new()
        }
        "consensus_hash" => {
            hd.consensus_hash = flip_hash(rng, &hd.consensus_hash);
            String::new()
        }
        "app_hash" => {
            let mut b: Vec<u8> = hd.app_hash.as_bytes().to_vec();
            match rng.gen_range(0..3) {
                0 if !b.is_empty() => {
                    let i = rng.gen_range(0..b.len());
                    b[i] ^= 1 << rng.gen_range(0..8);
                }
                1 => b.push(0),
                _ => {
                    b.pop();
                }
            }
            hd.app_hash = b.try_into().unwrap();
            String::new()
        }
        "last_results_hash" => {
            hd.last_results_hash = flip_opt_hash(rng, &hd.last_results_hash);
            String::new()
        }
        "evidence_hash" => {
            hd.evidence_hash = flip_opt_hash(rng, &hd.evidence_hash);
            String::new()
        }
        "proposer_address" => {
            hd.proposer_address = flip_address(rng, &hd.proposer_address);
            String::new()
        }
        _ => unreachable!(),
    }
}

const DAH_FAMILIES: [&str; 13] = [
    "row_root.flip",
    "col_root.flip",
    "row_roots.swap",
    "col_roots.swap",
    "row_col.exchange",
    "row_roots.drop",
    "col_roots.drop",
    "both.drop",
    "row_roots.append",
    "col_roots.append",
    "both.append",
    "boundary.shift",
    "replace",
];

fn flip_root(rng: &mut ChaCha8Rng, r: &NamespacedHash) -> NamespacedHash {
    let mut b = r.to_array();
    // region: min namespace / max namespace / digest
    let (lo, hi) = *[(0usize, 29usize), (29, 58), (58, 90), (58, 90)].choose(rng).unwrap();
    b[rng.gen_range(lo..hi)] ^= 1 << rng.gen_range(0..8);
    NamespacedHash::from_raw(&b).unwrap()
}

/// Returns None when the family is not applicable (e.g. swap of equal roots).
fn mutate_dah(rng: &mut ChaCha8Rng, dah: &DataAvailabilityHeader, family: &str, other: &DataAvailabilityHeader) -> Option<DataAvailabilityHeader> {
    let mut rows = dah.row_roots().to_vec();
    let mut cols = dah.column_roots().to_vec();
    let w = rows.len();
    match family {
        "row_root.flip" => {
            let i = rng.gen_range(0..w);
            rows[i] = flip_root(rng, &rows[i]);
        }
        "col_root.flip" => {
            let i = rng.gen_range(0..w);
            cols[i] = flip_root(rng, &cols[i]);
        }
        "row_roots.swap" | "col_roots.swap" => {
            let v = if family == "row_roots.swap" { &mut rows } else { &mut cols };
            let i = rng.gen_range(0..w);
            let j = (0..w).find(|j| v[*j] != v[i])?;
            v.swap(i, j);
        }
        "row_col.exchange" => {
            let i = (0..w).find(|i| rows[*i] != cols[*i])?;
            std::mem::swap(&mut rows[i], &mut cols[i]);
        }
        "row_roots.drop" => {
            rows.pop();
        }
        "col_roots.drop" => {
            cols.pop();
        }
        "both.drop" => {
            let k = if w >= 4 && rng.r#gen() { w / 2 } else { 1 };
            rows.truncate(w - k);
            cols.truncate(w - k);
        }
        "row_roots.append" => rows.push(rows[rng.gen_range(0..w)].clone()),
        "col_roots.append" => cols.push(cols[rng.gen_range(0..w)].clone()),
        "both.append" => {
            rows.push(rows[rng.gen_range(0..w)].clone());
            cols.push(cols[rng.gen_range(0..w)].clone());
        }
        "boundary.shift" => {
            // same concatenation rows ++ cols, hence the same data hash
            if rng.r#gen() {
                let r = rows.pop().unwrap();
                cols.insert(0, r);
            } else {
                let c = cols.remove(0);
                rows.push(c);
            }
        }
        "replace" => return Some(other.clone()),
        _ => unreachable!(),
    }
    Some(DataAvailabilityHeader::new_unchecked(rows, cols))
}

fn set_sig(entry: &mut CommitSig, sig: [u8; 64]) {
    if let CommitSig::BlockIdFlagCommit { signature, .. } | CommitSig::BlockIdFlagNil { signature, .. } = entry {
        *signature = Signature::new(sig).unwrap();
    }
}

fn sig_bytes(entry: &CommitSig) -> Option<[u8; 64]> {
    match entry {
        CommitSig::BlockIdFlagCommit { signature: Some(s), .. } | CommitSig::BlockIdFlagNil { signature: Some(s), .. } => s.as_bytes().try_into().ok(),
        _ => None,
    }
}

fn entry_time(entry: &CommitSig) -> Option<Time> {
    match entry {
        CommitSig::BlockIdFlagCommit { timestamp, .. } | CommitSig::BlockIdFlagNil { timestamp, .. } => Some(*timestamp),
        _ => None,
    }
}

/// Independent sign bytes of entry `i` of the (possibly modified) commit of `h`.
fn vote_bytes(h: &ExtendedHeader, i: usize) -> Vec<u8> {
    c03_vote::canonical_vote_bytes(
        h.header.chain_id.as_str(),
        h.commit.height.value(),
        h.commit.round.value(),
        &h.commit.block_id,
        entry_time(&h.commit.signatures[i]).unwrap(),
    )
}

const SIG_FIELDS: [&str; 7] = [
    "signature.bitflip",
    "signature.forged",
    "signature.other-validator",
    "timestamp",
    "validator_address.flip",
    "validator_address.other-validator",
    "validator_address+signature.other-validator",
];

/// The signature-class field of a commit-sig family.
fn sig_field(family: &str) -> &'static str {
    if family.starts_with("validator_address+") {
        "signature"
    } else if family.starts_with("signature") {
        "signature"
    } else if family.starts_with("timestamp") {
        "timestamp"
    } else {
        "validator_address"
    }
}

fn mutate_sig(rng: &mut ChaCha8Rng, hc: &HCase, h: &mut ExtendedHeader, i: usize, family: &str) -> Option<String> {
    let n = hc.vals.len();
    let other = if n >= 2 { Some((i + 1 + rng.gen_range(0..n - 1)) % n) } else { None };
    match family {
        "signature.bitflip" => {
            let mut s = sig_bytes(&h.commit.signatures[i])?;
            s[rng.gen_range(0..64)] ^= 1 << rng.gen_range(0..8);
            set_sig(&mut h.commit.signatures[i], s);
            Some(String::new())
        }
        "signature.forged" => {
            let s = Val::new(rng, 1).key.sign(&vote_bytes(h, i)).to_bytes();
            set_sig(&mut h.commit.signatures[i], s);
            Some("signed by an unknown key".into())
        }
        "signature.other-validator" => {
            let j = other?;
            let s = hc.vals[j].key.sign(&vote_bytes(h, i)).to_bytes();
            set_sig(&mut h.commit.signatures[i], s);
            Some(format!("signed by validator {j}"))
        }
        "timestamp" => {
            let d = *[1u64, 1_000_000_000].choose(rng).unwrap();
            if let CommitSig::BlockIdFlagCommit { timestamp, .. } | CommitSig::BlockIdFlagNil { timestamp, .. } = &mut h.commit.signatures[i] {
                *timestamp = timestamp.checked_add(std::time::Duration::from_nanos(d)).unwrap();
            }
            Some(format!("+{d}ns"))
        }
        "validator_address.flip" => {
            if let CommitSig::BlockIdFlagCommit { validator_address, .. } | CommitSig::BlockIdFlagNil { validator_address, .. } = &mut h.commit.signatures[i] {
                *validator_address = flip_address(rng, validator_address);
            }
            Some(String::new())
        }
        "validator_address.other-validator" => {
            let j = other?;
            if let CommitSig::BlockIdFlagCommit { validator_address, .. } | CommitSig::BlockIdFlagNil { validator_address, .. } = &mut h.commit.signatures[i] {
                *validator_address = hc.vals[j].address();
            }
            Some(format!("address of validator {j}"))
        }
        "validator_address+signature.other-validator" => {
            // the whole entry is replaced by a genuine vote of validator j (who thereby votes twice)
            let j = other?;
            let s = hc.vals[j].key.sign(&vote_bytes(h, i)).to_bytes();
            set_sig(&mut h.commit.signatures[i], s);
            if let CommitSig::BlockIdFlagCommit { validator_address, .. } | CommitSig::BlockIdFlagNil { validator_address, .. } = &mut h.commit.signatures[i] {
                *validator_address = hc.vals[j].address();
            }
            Some(format!("entry replaced by a vote of validator {j}"))
        }
        _ => unreachable!(),
    }
}

fn mutations(rng: &mut ChaCha8Rng, hc: &HCase, other_dah: &DataAvailabilityHeader) -> Vec<Mutation> {
    let mut out = Vec::new();
    let n = hc.vals.len();

    // --- header fields (raw, and with the commit block-id hash recomputed)
    for field in HEADER_FIELDS {
        let mut h = hc.hdr.clone();
        let note = mutate_header_field(rng, &mut h, field);
        let mut h2 = h.clone();
        relink_block_id(&mut h2);
        out.push(Mutation { group: "header", family: field.into(), variant: "raw", demand: Demand::Reject, hdr: h, note: note.clone() });
        out.push(Mutation { group: "header", family: field.into(), variant: "relinked-block-id", demand: Demand::Reject, hdr: h2, note });
    }

    // --- DAH
    for family in DAH_FAMILIES {
        let Some(d) = mutate_dah(rng, &hc.hdr.dah, family, other_dah) else { continue };
        let mut h = hc.hdr.clone();
        h.dah = d;
        let mut h2 = h.clone();
        h2.header.data_hash = Some(h2.dah.hash());
        let mut h3 = h2.clone();
        relink_block_id(&mut h3);
        out.push(Mutation { group: "dah", family: family.into(), variant: "raw", demand: Demand::Reject, hdr: h, note: String::new() });
        out.push(Mutation { group: "dah", family: family.into(), variant: "relinked-data-hash", demand: Demand::Reject, hdr: h2, note: String::new() });
        out.push(Mutation { group: "dah", family: family.into(), variant: "relinked-data-hash+block-id", demand: Demand::Reject, hdr: h3, note: String::new() });
    }

    // --- validator set
    let mut idxs: Vec<usize> = (0..n).collect();
    idxs.shuffle(rng);
    idxs.truncate(3);
    let valset_mut = |out: &mut Vec<Mutation>, family: &str, note: String, infos: Vec<tendermint::validator::Info>, raw: Option<ValidatorSet>| {
        // raw: structure edited in place (total power / order untouched); relinked: a proper set
        // built from the edited members, validators hash (and block id) recomputed.
        if let Some(raw) = raw {
            let mut h = hc.hdr.clone();
            h.validator_set = raw;
            out.push(Mutation { group: "valset", family: family.into(), variant: "raw", demand: Demand::Reject, hdr: h, note: note.clone() });
        }
        if infos.is_empty() {
            return;
        }
        let total: u128 = infos.iter().map(|i| i.power() as u128).sum();
        if total > ValidatorSet::MAX_TOTAL_VOTING_POWER as u128 {
            return;
        }
        let proposer = infos.first().cloned();
        let set = ValidatorSet::new(infos, proposer);
        let mut h = hc.hdr.clone();
        h.validator_set = set;
        let mut h2 = h.clone();
        h2.header.validators_hash = h2.validator_set.hash();
        let mut h3 = h2.clone();
        relink_block_id(&mut h3);
        out.push(Mutation { group: "valset", family: family.into(), variant: "rebuilt-set", demand: Demand::Reject, hdr: h, note: note.clone() });
        out.push(Mutation { group: "valset", family: family.into(), variant: "relinked-validators-hash", demand: Demand::Reject, hdr: h2, note: note.clone() });
        out.push(Mutation { group: "valset", family: family.into(), variant: "relinked-validators-hash+block-id", demand: Demand::Reject, hdr: h3, note });
    };
    let base_infos = hc.hdr.validator_set.validators().clone();
    for &i in &idxs {
        // key
        {
            let nk = Val::new(rng, hc.vals[i].power);
            let mut infos = base_infos.clone();
            infos[i].pub_key = nk.pub_key();
            infos[i].address = nk.address();
            let mut raw = hc.hdr.validator_set.clone();
            raw.validators[i].pub_key = nk.pub_key();
            if rng.r#gen() {
                raw.validators[i].address = nk.address();
            }
            valset_mut(&mut out, "key", format!("validator {i}"), infos, Some(raw));
        }
        // power
        {
            let p = hc.vals[i].power;
            let np = match rng.gen_range(0..4) {
                0 if p > 1 => p - 1,
                1 => p * 2,
                2 => p + 1_000_000,
                _ => p + 1,
            };
            let mut infos = base_infos.clone();
            infos[i].power = np.try_into().unwrap();
            let mut raw = hc.hdr.validator_set.clone();
            raw.validators[i].power = np.try_into().unwrap();
            valset_mut(&mut out, "power", format!("validator {i}: {p}->{np}"), infos, Some(raw));
        }
    }
    // membership / order
    {
        if n >= 2 {
            let i = rng.gen_range(0..n);
            let mut infos = base_infos.clone();
            infos.remove(i);
            let mut raw = hc.hdr.validator_set.clone();
            raw.validators.remove(i);
            valset_mut(&mut out, "drop-validator", format!("validator {i}"), infos, Some(raw));
        }
        {
            let np = rng.gen_range(1..1000);
            let nv = Val::new(rng, np);
            let mut infos = base_infos.clone();
            infos.push(nv.info());
            let mut raw = hc.hdr.validator_set.clone();
            raw.validators.push(nv.info());
            valset_mut(&mut out, "add-validator", String::new(), infos, Some(raw));
        }
        if n >= 2 {
            let i = rng.gen_range(0..n - 1);
            let mut raw = hc.hdr.validator_set.clone();
            raw.validators.swap(i, i + 1);
            valset_mut(&mut out, "swap-order", format!("validators {i},{}", i + 1), vec![], Some(raw));
        }
    }
    // outside the validators hash: observations only
    {
        let i = rng.gen_range(0..n);
        let mut h = hc.hdr.clone();
        h.validator_set.validators[i].address = flip_address(rng, &h.validator_set.validators[i].address);
        out.push(Mutation { group: "valset-unhashed", family: "member-address".into(), variant: "raw", demand: Demand::Observe, hdr: h, note: format!("validator {i}") });

        let mut h = hc.hdr.clone();
        let mut p = h.validator_set.validators[rng.gen_range(0..n)].clone();
        p.power = (p.power() + 1).try_into().unwrap();
        h.validator_set.proposer = Some(p);
        out.push(Mutation { group: "valset-unhashed", family: "proposer".into(), variant: "raw", demand: Demand::Observe, hdr: h, note: String::new() });

        let mut h = hc.hdr.clone();
        let t = h.validator_set.total_voting_power().value();
        h.validator_set.total_voting_power = (if rng.r#gen() { t + 1 } else { t / 2 + 1 }).try_into().unwrap();
        out.push(Mutation { group: "valset-unhashed", family: "total_voting_power".into(), variant: "raw", demand: Demand::Observe, hdr: h, note: String::new() });
    }

    // --- commit
    {
        let mut h = hc.hdr.clone();
        h.commit.block_id.hash = flip_hash(rng, &h.commit.block_id.hash);
        out.push(Mutation { group: "commit", family: "block_id.hash".into(), variant: "raw", demand: Demand::Reject, hdr: h, note: String::new() });

        let mut h = hc.hdr.clone();
        h.commit.block_id.part_set_header.hash = flip_hash(rng, &h.commit.block_id.part_set_header.hash);
        out.push(Mutation { group: "commit", family: "block_id.part_set_header".into(), variant: "raw", demand: Demand::Reject, hdr: h, note: "hash".into() });

        let mut h = hc.hdr.clone();
        h.commit.block_id.part_set_header.total += 1;
        out.push(Mutation { group: "commit", family: "block_id.part_set_header".into(), variant: "raw", demand: Demand::Reject, hdr: h, note: "total".into() });

        let mut h = hc.hdr.clone();
        let v = h.commit.height.value();
        let nv = if v > 1 && rng.r#gen() { v - 1 } else { v + 1 };
        h.commit.height = nv.try_into().unwrap();
        let mut h2 = h.clone();
        h2.header.height = h2.commit.height;
        relink_block_id(&mut h2);
        out.push(Mutation { group: "commit", family: "height".into(), variant: "raw", demand: Demand::Reject, hdr: h, note: String::new() });
        out.push(Mutation { group: "commit", family: "height".into(), variant: "relinked-header-height+block-id", demand: Demand::Reject, hdr: h2, note: String::new() });

        let mut h = hc.hdr.clone();
        h.commit.round = (h.commit.round.value() as u16 + 1).into();
        out.push(Mutation { group: "commit", family: "round".into(), variant: "raw", demand: Demand::Reject, hdr: h, note: String::new() });

        let mut h = hc.hdr.clone();
        h.commit.signatures.pop();
        out.push(Mutation { group: "commit", family: "signatures.len".into(), variant: "raw", demand: Demand::Reject, hdr: h, note: "dropped last".into() });

        let mut h = hc.hdr.clone();
        let k = rng.gen_range(0..n);
        let e = h.commit.signatures[k].clone();
        h.commit.signatures.push(e);
        out.push(Mutation { group: "commit", family: "signatures.len".into(), variant: "raw", demand: Demand::Reject, hdr: h, note: format!("appended copy of {k}") });
    }

    // --- commit signatures
    let power_now = commit_power(&hc.vals, &hc.flags);
    for i in 0..n {
        let flag = hc.flags.get(i).copied().unwrap_or(Flag::Commit);
        match flag {
            Flag::Commit => {
                let group = if i <= hc.q { "commit_sig-upto-quorum" } else { "commit_sig-after-quorum" };
                for family in SIG_FIELDS {
                    let mut h = hc.hdr.clone();
                    let Some(note) = mutate_sig(rng, hc, &mut h, i, family) else { continue };
                    out.push(Mutation { group, family: family.into(), variant: "raw", demand: Demand::Reject, hdr: h, note: format!("entry {i} {note}").trim_end().to_string() });
                }
                // flag changes: rejection is demanded iff the remaining genuine power is insufficient
                let remaining = power_now - hc.vals[i].power as u128;
                let insufficient = 3 * remaining <= 2 * hc.total;
                for (family, nil) in [("commit-to-nil", true), ("commit-to-absent", false)] {
                    let mut h = hc.hdr.clone();
                    h.commit.signatures[i] = match (&h.commit.signatures[i], nil) {
                        (CommitSig::BlockIdFlagCommit { validator_address, timestamp, signature }, true) => CommitSig::BlockIdFlagNil {
                            validator_address: *validator_address,
                            timestamp: *timestamp,
                            signature: signature.clone(),
                        },
                        _ => CommitSig::BlockIdFlagAbsent,
                    };
                    out.push(Mutation {
                        group: "commit_sig-flag",
                        family: family.into(),
                        variant: if insufficient { "leaves<=2/3" } else { "leaves>2/3" },
                        demand: Demand::RejectIf(insufficient),
                        hdr: h,
                        note: format!("entry {i}"),
                    });
                }
            }
            Flag::Nil => {
                for family in ["signature.bitflip", "timestamp", "validator_address.flip"] {
                    let mut h = hc.hdr.clone();
                    let Some(note) = mutate_sig(rng, hc, &mut h, i, family) else { continue };
                    out.push(Mutation { group: "commit_sig-nil-vote", family: family.into(), variant: "raw", demand: Demand::Observe, hdr: h, note: format!("entry {i}: {note}") });
                }
            }
            _ => {}
        }
    }
    out
}

// ---------------------------------------------------------------------------------------------
// observation + oracle
// ---------------------------------------------------------------------------------------------

#[derive(PartialEq, Eq, Clone, Debug)]
enum Outcome {
    Accepted,
    Rejected,
    Panic(String),
}

fn observe_validate(h: &ExtendedHeader) -> Outcome {
    match guard(|| h.validate()) {
        Ok(Ok(())) => Outcome::Accepted,
        Ok(Err(_)) => Outcome::Rejected,
        Err(p) => Outcome::Panic(p),
    }
}

/// `None`: the encoding does not represent a mutation (decodes to the original header), or the
/// header cannot be encoded.
fn observe_decode(orig: &ExtendedHeader, h: &ExtendedHeader) -> (Option<Outcome>, Vec<u8>) {
    let Ok(bytes) = guard(|| h.clone().encode_vec()) else {
        return (None, vec![]);
    };
    match guard(|| ExtendedHeader::decode(bytes.as_slice())) {
        Ok(Ok(d)) if &d == orig => return (None, bytes),
        Ok(Ok(_)) => {}
        Ok(Err(_)) => return (Some(Outcome::Rejected), bytes),
        Err(p) => return (Some(Outcome::Panic(p)), bytes),
    }
    let o = match guard(|| ExtendedHeader::decode_and_validate(&bytes)) {
        Ok(Ok(_)) => Outcome::Accepted,
        Ok(Err(_)) => Outcome::Rejected,
        Err(p) => Outcome::Panic(p),
    };
    (Some(o), bytes)
}

fn describe(hc: &HCase) -> vcore::Value {
    json!({
        "chain_case": hc.chain, "header_index": hc.index, "height": hc.hdr.height(),
        "validators": hc.vals.len(),
        "powers_in_set_order": hc.vals.iter().map(|v| v.power).collect::<Vec<_>>(),
        "flags_in_set_order": hc.flags.iter().map(|f| format!("{f:?}")).collect::<Vec<_>>(),
        "quorum_point_index": hc.q, "app_version": hc.app, "square_width": hc.hdr.dah.row_roots().len(),
    })
}

/// Witness details are only materialised for the first few violations of a signature (vcore
/// keeps at most three replay files per signature anyway).
fn want_detail(sig: &str) -> bool {
    static SEEN: std::sync::OnceLock<std::sync::Mutex<std::collections::BTreeMap<String, u64>>> = std::sync::OnceLock::new();
    let mut m = SEEN.get_or_init(Default::default).lock().unwrap();
    let e = m.entry(sig.to_string()).or_insert(0);
    *e += 1;
    *e <= 3
}

fn judge(ctx: &Ctx, hc: &HCase, m: &Mutation) {
    if m.hdr == hc.hdr {
        ctx.count("noop_mutations");
        return;
    }
    let name = format!("{}/{}", m.group, m.family);
    let mem = observe_validate(&m.hdr);
    ctx.eval();
    let (dec, bytes) = if m.demand == Demand::Observe { (None, vec![]) } else { observe_decode(&hc.hdr, &m.hdr) };
    if dec.is_some() {
        ctx.eval();
    } else if m.demand != Demand::Observe {
        ctx.count("decode_path.skipped_roundtrip_equals_original_or_unencodable");
    }
    ctx.nontrivial(&(m.group, &m.family, m.variant, hc.vals.len()));
    ctx.count(&format!("mutations.{}", m.group));

    for (path, o) in [("validate", Some(mem.clone())), ("decode_and_validate", dec.clone())] {
        let Some(o) = o else { continue };
        let detail = || {
            json!({
                "seed": ctx.seed, "header": describe(hc), "path": path,
                "mutation": { "group": m.group, "family": m.family, "variant": m.variant, "note": m.note },
                "mutated_header_protobuf_hex": vcore::hex_full(&bytes),
            })
        };
        match (&o, m.demand) {
            (Outcome::Panic(p), _) => {
                ctx.count("panics");
                ctx.violation(&format!("C01/validate/panic/{}", panic_site(p)), &format!("{path} panicked on a mutated header ({name}): {p}"), detail());
            }
            (Outcome::Accepted, Demand::Reject) | (Outcome::Accepted, Demand::RejectIf(true)) => {
                ctx.count(&format!("fam.{name}.accepted"));
                ctx.count(&format!("group.{}.accepted", m.group));
                let sig = if m.group.starts_with("commit_sig-") && m.group != "commit_sig-flag" {
                    format!("C01/{}/{}", m.group, sig_field(&m.family))
                } else {
                    format!("C01/{}/{}", m.group, m.family)
                };
                let d = if want_detail(&sig) { detail() } else { vcore::Value::Null };
                ctx.violation(
                    &sig,
                    &format!("{path}() accepted a header after mutation {name} ({}; variant {})", m.note, m.variant),
                    d,
                );
            }
            (Outcome::Accepted, Demand::RejectIf(false)) => ctx.count(&format!("fam.{name}.still-quorum.accepted")),
            (Outcome::Rejected, Demand::RejectIf(false)) => ctx.count(&format!("fam.{name}.still-quorum.rejected")),
            (Outcome::Accepted, Demand::Observe) => ctx.count(&format!("obs.{name}.accepted")),
            (Outcome::Rejected, Demand::Observe) => ctx.count(&format!("obs.{name}.rejected")),
            (Outcome::Rejected, _) => {
                if path == "validate" {
                    ctx.count(&format!("fam.{name}.rejected"));
                    ctx.count(&format!("group.{}.rejected", m.group));
                    ctx.count(&format!("variant.{}.rejected", m.variant));
                } else {
                    ctx.count(&format!("group.{}.decoded.rejected", m.group));
                }
            }
        }
    }
    ctx.sample(|| {
        json!({ "header": describe(hc), "mutation": { "group": m.group, "family": m.family, "variant": m.variant, "note": m.note },
                "validate": format!("{mem:?}"), "decode_and_validate": format!("{dec:?}") })
    });
}

fn judge_honest(ctx: &Ctx, hc: &HCase) {
    let class = if hc.flags.iter().all(|f| *f == Flag::Commit) { "all-commit" } else { "with-nil-or-absent" };
    let mut variants: Vec<(&str, ExtendedHeader)> = vec![("as-generated", hc.hdr.clone())];
    // the same header with every vote signed over independently constructed sign bytes
    let mut h = hc.hdr.clone();
    for i in 0..h.commit.signatures.len() {
        if hc.flags[i] == Flag::Commit {
            let s = hc.vals[i].key.sign(&vote_bytes(&h, i)).to_bytes();
            set_sig(&mut h.commit.signatures[i], s);
        }
    }
    variants.push(("independent-sign-bytes", h));
    for (v, h) in variants {
        let mem = observe_validate(&h);
        ctx.eval();
        let bytes = h.clone().encode_vec();
        let dec = match guard(|| ExtendedHeader::decode_and_validate(&bytes)) {
            Ok(Ok(d)) => {
                if d != h {
                    ctx.count("honest.roundtrip_differs");
                }
                Outcome::Accepted
            }
            Ok(Err(_)) => Outcome::Rejected,
            Err(p) => Outcome::Panic(p),
        };
        ctx.eval();
        ctx.nontrivial(&("honest", class, v, hc.vals.len(), hc.app, hc.hdr.dah.row_roots().len()));
        for (path, o) in [("validate", mem), ("decode_and_validate", dec)] {
            match o {
                Outcome::Accepted => ctx.count(&format!("honest.{class}.{v}.accepted")),
                Outcome::Rejected => {
                    let err = if path == "validate" { h.validate().err().map(|e| e.to_string()) } else { ExtendedHeader::decode_and_validate(&bytes).err().map(|e| e.to_string()) };
                    ctx.violation(
                        &format!("C01/honest/rejected/{class}"),
                        &format!("{path}() rejected an honestly produced and signed header ({v}): {err:?}"),
                        json!({"seed": ctx.seed, "header": describe(hc), "path": path, "variant": v, "header_protobuf_hex": vcore::hex_full(&bytes)}),
                    );
                }
                Outcome::Panic(p) => ctx.violation(
                    &format!("C01/validate/panic/{}", panic_site(&p)),
                    &format!("{path} panicked on an honest header: {p}"),
                    json!({"seed": ctx.seed, "header": describe(hc), "path": path}),
                ),
            }
        }
    }
}

// ---------------------------------------------------------------------------------------------
// workload
// ---------------------------------------------------------------------------------------------

fn boundary_powers(rng: &mut ChaCha8Rng, n: usize) -> Vec<u64> {
    match rng.gen_range(0..4) {
        0 => vec![1; n],
        1 => vec![rng.gen_range(1..100); n],
        2 => {
            // first validator alone holds just above / exactly / just below 2/3
            let rest: u64 = (n as u64 - 1) * 10;
            let mut v = vec![10u64; n];
            v[0] = (2 * rest).max(1) + rng.gen_range(0..3) - if rest > 0 { 1 } else { 0 };
            v
        }
        _ => {
            let base = ValidatorSet::MAX_TOTAL_VOTING_POWER / n as u64;
            (0..n).map(|_| base - rng.gen_range(0..1000)).collect()
        }
    }
}

fn run_chain(ctx: &Ctx, case: u64) {
    let mut rng = ctx.rng(1, case);
    let n = rng.gen_range(1..=8usize);
    let powers = if rng.gen_range(0..3) == 0 { boundary_powers(&mut rng, n) } else { random_powers(&mut rng, n) };
    let app = rng.gen_range(1..=7u64);
    let app_version = AppVersion::from_u64(app).unwrap();
    let len = ctx.scale(4usize, 8);
    let start_height = *[1u64, 1, 2, rng.gen_range(3..5_000_000)].choose(&mut rng).unwrap();
    let block_time = std::time::Duration::from_secs(rng.gen_range(1..15));
    let start = ChainGen::start_time_for(len as u64, block_time, std::time::Duration::from_secs(7200 + rng.gen_range(0..100_000_000)));
    let chain_rng = ctx.rng(2, case);
    let mut chain = ChainGen::new(chain_rng, &format!("c01-{case}"), app, &powers, start_height, start, block_time);

    let widths: &[usize] = if ctx.quick() { &[1, 1, 2, 2, 4, 8, 16] } else { &[1, 1, 2, 2, 4, 8, 16, 32] };
    let mut other_dah = {
        let w = *widths.choose(&mut rng).unwrap();
        DataAvailabilityHeader::from_eds(&gen_eds(&mut rng, w, app_version).0)
    };
    for index in 0..len {
        let w = if case % 16 == 0 && index == 0 { 32 } else { *widths.choose(&mut rng).unwrap() };
        let dah = DataAvailabilityHeader::from_eds(&gen_eds(&mut rng, w, app_version).0);
        // rotation of the validator set for the next header
        let next_vals = match rng.gen_range(0..4) {
            0 => {
                let mut v = chain.vals.clone();
                if v.len() > 1 && rng.r#gen() {
                    v.remove(rng.gen_range(0..v.len()));
                }
                let sum: u64 = v.iter().map(|x| x.power).sum();
                if v.len() < 8 && rng.r#gen() && sum + 1000 <= ValidatorSet::MAX_TOTAL_VOTING_POWER {
                    let p = rng.gen_range(1..1000);
                    v.push(Val::new(&mut rng, p));
                }
                Some(v)
            }
            _ => None,
        };
        // votes: mostly everybody commits; sometimes nil/absent votes that keep > 2/3
        let vals = sorted(&chain.vals);
        let mut flags = vec![Flag::Commit; vals.len()];
        if rng.gen_range(0..10) < 4 {
            for i in 0..flags.len() {
                if rng.gen_range(0..3) == 0 {
                    let old = flags[i];
                    flags[i] = if rng.r#gen() { Flag::Nil } else { Flag::Absent };
                    if quorum_point(&vals, &flags).is_none() {
                        flags[i] = old;
                    }
                }
            }
        }
        let q = quorum_point(&vals, &flags).expect("honest header has a quorum");
        let hdr = chain.next_with(Some(dah.clone()), next_vals, &flags);
        let total: u128 = vals.iter().map(|v| v.power as u128).sum();
        let hc = HCase { chain: case, index, hdr, vals, flags, q, total, app };

        ctx.count("headers");
        ctx.count(&format!("headers.validators_{}", hc.vals.len()));
        ctx.count(&format!("headers.app_v{}", hc.app));
        ctx.count(&format!("headers.square_width_{}", hc.hdr.dah.row_roots().len()));
        if hc.q + 1 < hc.vals.len() {
            ctx.count("headers.with_votes_after_quorum_point");
        }
        judge_honest(ctx, &hc);
        let mut mrng = ctx.rng(3, case * 64 + index as u64);
        for m in mutations(&mut mrng, &hc, &other_dah) {
            judge(ctx, &hc, &m);
        }
        other_dah = dah;
    }
}

fn unhex(s: &str) -> Option<Vec<u8>> {
    if s.len() % 2 != 0 {
        return None;
    }
    (0..s.len()).step_by(2).map(|i| u8::from_str_radix(s.get(i..i + 2)?, 16).ok()).collect()
}

/// `--replay FILE`: validate the materialised header of a recorded witness again.
fn replay(ctx: &Ctx, r: &vcore::Value) {
    ctx.rule("replay of one recorded witness: the materialised (protobuf) header is decoded and validated again");
    let sig = r["signature"].as_str().unwrap_or("C01/replay/unknown-signature").to_string();
    let d = &r["detail"];
    let (hexs, honest) = match (d["mutated_header_protobuf_hex"].as_str(), d["header_protobuf_hex"].as_str()) {
        (Some(h), _) => (h, false),
        (None, Some(h)) => (h, true),
        _ => {
            ctx.inconclusive("replay file carries no materialised header");
            return;
        }
    };
    let Some(bytes) = unhex(hexs).filter(|b| !b.is_empty()) else {
        ctx.inconclusive("replay file: header hex is empty or malformed");
        return;
    };
    ctx.eval();
    match guard(|| ExtendedHeader::decode_and_validate(&bytes)) {
        Ok(Ok(_)) if !honest => ctx.violation(&sig, "replay: decode_and_validate() still accepts the recorded mutated header", d.clone()),
        Ok(Err(e)) if honest => ctx.violation(&sig, &format!("replay: decode_and_validate() still rejects the recorded honest header: {e}"), d.clone()),
        Err(p) => ctx.violation(&sig, &format!("replay: decode_and_validate() panics: {p}"), d.clone()),
        _ => ctx.count("replay.no_longer_reproduces"),
    }
}

pub fn run(ctx: &Ctx) {
    if let Some(r) = &ctx.replay {
        replay(ctx, r);
        return;
    }
    ctx.rule(
        "Chains of 4 (quick) / 8 (thorough) honestly signed headers: 1..8 ed25519 validators, random and boundary powers, app versions 1..7, \
         DAH of a real EDS of width 2..32 (64 in some), validator rotation, 40% of headers with nil/absent votes that keep > 2/3. \
         Each evaluation = one validate() or decode_and_validate(encode()) of the honest header or of one mutation of it: \
         15 header fields x {raw, block-id relinked}; 13 DAH families x {raw, data-hash relinked, +block-id relinked}; validator key/power/\
         membership/order x {in-place, rebuilt set, validators-hash relinked, +block-id}; commit block id/part-set/height/round/len; \
         per commit entry 7 signature/timestamp/address families and 2 flag changes. Mutations equal to the original are skipped. \
         Non-trivial = distinct (group, family, variant, validator count).",
    );
    ctx.assume("ground truth: only the generated ed25519 key of a validator makes valid signatures (vgen::chain); sha256/ed25519/tendermint-rs hashing are trusted");
    ctx.assume("rejection is demanded only for the parts listed in the property text; address/proposer/total_voting_power of the ValidatorSet structure, nil votes and flag changes leaving > 2/3 genuine power are recorded as observations");
    ctx.assume("a mutation whose protobuf round-trip equals the original header (e.g. validator order, re-sorted by the decoder) is not counted as a mutation on the decode path");

    if !c03_vote::self_test() {
        ctx.inconclusive("harness: independent CanonicalVote encoder failed its known-answer test");
        return;
    }

    let chains = ctx.scale(96u64, 640);
    let next = std::sync::atomic::AtomicU64::new(0);
    ctx.par(ctx.cores(), |_| {
        loop {
            let c = next.fetch_add(1, std::sync::atomic::Ordering::Relaxed);
            if c >= chains {
                break;
            }
            run_chain(ctx, c);
        }
    });

    // coverage floors
    ctx.floor("headers", ctx.scale(300, 4000));
    ctx.floor("headers.with_votes_after_quorum_point", 50);
    for class in ["all-commit", "with-nil-or-absent"] {
        for v in ["as-generated", "independent-sign-bytes"] {
            ctx.floor(&format!("honest.{class}.{v}.accepted"), 50);
        }
    }
    for f in HEADER_FIELDS {
        ctx.floor(&format!("fam.header/{f}.rejected"), 100);
    }
    for f in DAH_FAMILIES {
        ctx.floor(&format!("fam.dah/{f}.rejected"), 50);
    }
    for f in ["key", "power", "drop-validator", "add-validator", "swap-order"] {
        ctx.floor(&format!("fam.valset/{f}.rejected"), 50);
    }
    for f in ["block_id.hash", "block_id.part_set_header", "height", "round", "signatures.len"] {
        ctx.floor(&format!("fam.commit/{f}.rejected"), 50);
    }
    for f in ["signature.bitflip", "signature.forged", "signature.other-validator", "timestamp", "validator_address+signature.other-validator"] {
        ctx.floor(&format!("fam.commit_sig-upto-quorum/{f}.rejected"), 50);
    }
    ctx.floor("mutations.commit_sig-upto-quorum", 500);
    ctx.floor("mutations.commit_sig-after-quorum", 200);
    ctx.floor("mutations.commit_sig-flag", 200);
    for v in ["raw", "relinked-block-id", "relinked-data-hash", "relinked-data-hash+block-id", "rebuilt-set", "relinked-validators-hash", "relinked-validators-hash+block-id"] {
        ctx.floor(&format!("variant.{v}.rejected"), 100);
    }
}
