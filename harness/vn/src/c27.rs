//! C27 — verified header range requests terminate and never panic.
//!
//! The real `P2p::get_verified_headers_range` (mocked `P2p`, real `HeaderSession`) is called with
//! amounts 0, 1..600, boundary values and values near u64::MAX. The harness plays the header-ex
//! client and answers every `HeaderExRequest` command exactly like the real
//! `HeaderExClientHandler` in front of an honest network would: `InvalidRequest` for requests that
//! fail `HeaderRequestExt::is_valid` (amount 0, no data, ...), the validated consecutive headers of
//! the honest chain otherwise (a server caps at 512, the session asks for <= 64), `HeaderNotFound`
//! above the chain tip.
//!
//! Oracle (property text):
//! * no panic for any amount (each poll of the call runs under `catch_unwind`);
//! * amount 0: the call returns (any value; `Ok(v)` must be empty) — non-termination is decided
//!   logically: more than 64 requests issued by one call is a livelock, the repeated request is the
//!   witness;
//! * the network serves every requested header in full: the call returns `Ok` with exactly the
//!   headers `from+1 ..= from+amount`, within 2*ceil(amount/8)+16 requests.
//! Where the network cannot serve the range (beyond the tip, astronomically large amounts) the
//! session legitimately retries for ever; such calls are cancelled after a fixed number of requests
//! and only checked for panics.

#[path = "c26_util.rs"]
mod c26_util;

use c26_util::{Chain, describe_request, err_name, poll_once, runtime};
use celestia_proto::p2p::pb::HeaderRequest;
use celestia_proto::p2p::pb::header_request::Data;
use celestia_types::ExtendedHeader;
use lumina_node::node::{HeaderExError, P2pError};
use lumina_node::verif::{VP2p, VP2pCmd, VResponder};
use vcore::{Ctx, Rng, SliceRandom, json, panic_site};

/// Restatement of which requests the real client refuses up front (`HeaderRequestExt::is_valid`):
/// no data, amount 0, amount not addressable, head request (origin 0) or hash request for more than
/// one header, hash of the wrong size.
fn client_refuses(req: &HeaderRequest) -> bool {
    if usize::try_from(req.amount).is_err() || req.amount == 0 {
        return true;
    }
    match &req.data {
        None => true,
        Some(Data::Origin(0)) => req.amount > 1,
        Some(Data::Hash(h)) => h.len() != 32 || req.amount > 1,
        Some(Data::Origin(_)) => false,
    }
}

/// What the real client hands back for `req` when the network is honest and has `chain`.
/// `cap`: how many headers one response carries at most (512 = the server's limit).
fn client_answer(chain: &Chain, req: &HeaderRequest, cap: u64) -> Result<Vec<ExtendedHeader>, HeaderExError> {
    if client_refuses(req) {
        return Err(HeaderExError::InvalidRequest);
    }
    match &req.data {
        Some(Data::Origin(0)) => Ok(vec![chain.headers.last().unwrap().clone()]),
        Some(Data::Origin(start)) => {
            if *start < chain.first || *start > chain.tip() {
                return Err(HeaderExError::HeaderNotFound);
            }
            let avail = chain.tip() - *start + 1;
            let n = req.amount.min(cap).min(avail);
            Ok(chain.slice(*start, n))
        }
        Some(Data::Hash(h)) => chain
            .headers
            .iter()
            .find(|x| x.hash().as_bytes() == &h[..])
            .map(|x| vec![x.clone()])
            .ok_or(HeaderExError::HeaderNotFound),
        None => Err(HeaderExError::InvalidRequest),
    }
}

#[derive(Clone, Copy, Debug, PartialEq, Eq, Hash)]
enum Mode {
    /// answer every request at once, in arrival order, in full
    Exact,
    /// full answers, arbitrary order among the outstanding requests
    Reordered,
    /// arbitrary order; some answers are a non-empty proper prefix (a server that holds only part
    /// of the run) or a transient `HeaderNotFound` (finite budget)
    Partial,
}

#[derive(Clone, Copy, Debug, PartialEq, Eq, Hash)]
enum Class {
    Zero,
    /// `from.height + 1 + amount` exceeds u64::MAX + 1: the last requested height is not a u64 or
    /// the code's `height + amount` does not fit
    Overflow,
    /// the honest chain contains all requested headers
    Served,
    /// syntactically fine, but the network does not have (all of) the range
    Unserved,
    /// `from` itself does not validate (outside the statement: only "never panics" is checked)
    InvalidFrom,
}

impl Class {
    fn name(self) -> &'static str {
        match self {
            Class::Zero => "amount=0",
            Class::Overflow => "amount-overflow",
            Class::Served => "served",
            Class::Unserved => "unserved",
            Class::InvalidFrom => "invalid-from",
        }
    }
}

enum End {
    Returned(Result<Vec<ExtendedHeader>, P2pError>),
    Panicked(String),
    Stalled,
    /// stopped by the harness after `requests` requests
    Cut,
}

struct Call {
    end: End,
    requests: u64,
    /// (request text, answer text) of every request
    log: Vec<(String, String)>,
    faults: u64,
    refused_requests: u64,
}

struct Pending {
    request: HeaderRequest,
    respond_to: VResponder<Vec<ExtendedHeader>>,
}

async fn drive(chain: &Chain, from: &ExtendedHeader, amount: u64, mode: Mode, cut_after: u64, rng: &mut impl Rng) -> Call {
    let (p2p, mut handle) = VP2p::mocked();
    let mut call = Call { end: End::Stalled, requests: 0, log: Vec::new(), faults: 0, refused_requests: 0 };
    let mut outstanding: Vec<Pending> = Vec::new();
    let mut fault_budget: u64 = if mode == Mode::Partial { rng.gen_range(1..=amount.min(600) / 8 + 4) } else { 0 };
    let mut idle = 0u32;

    let fut = p2p.get_verified_headers_range(from, amount);
    let mut fut = std::pin::pin!(fut);
    loop {
        match poll_once(&mut fut).await {
            Err(p) => {
                call.end = End::Panicked(p);
                break;
            }
            Ok(std::task::Poll::Ready(r)) => {
                call.end = End::Returned(r);
                break;
            }
            Ok(std::task::Poll::Pending) => {}
        }
        while let Some(cmd) = handle.try_recv_cmd() {
            call.requests += 1;
            match cmd {
                VP2pCmd::HeaderExRequest { request, respond_to } => outstanding.push(Pending { request, respond_to }),
                other => call.log.push((format!("{other:?}").chars().take(60).collect(), "ignored".into())),
            }
        }
        if call.requests > cut_after {
            call.end = End::Cut;
            break;
        }
        if outstanding.is_empty() {
            idle += 1;
            if idle > 64 {
                call.end = End::Stalled;
                break;
            }
            tokio::task::yield_now().await;
            continue;
        }
        idle = 0;
        let n = match mode {
            Mode::Exact => outstanding.len(),
            _ => rng.gen_range(1..=outstanding.len()),
        };
        for _ in 0..n {
            let idx = if mode == Mode::Exact { 0 } else { rng.gen_range(0..outstanding.len()) };
            let p = outstanding.remove(idx);
            let mut ans = client_answer(chain, &p.request, 512);
            if ans.is_err() && client_refuses(&p.request) {
                call.refused_requests += 1;
            }
            if mode == Mode::Partial && fault_budget > 0 && rng.gen_bool(0.35) {
                if let Ok(v) = &mut ans {
                    fault_budget -= 1;
                    call.faults += 1;
                    if v.len() >= 2 && rng.gen_bool(0.7) {
                        let k = rng.gen_range(1..v.len());
                        v.truncate(k);
                    } else {
                        ans = Err(HeaderExError::HeaderNotFound);
                    }
                }
            }
            let text = match &ans {
                Ok(v) => format!("Ok({} headers)", v.len()),
                Err(e) => format!("Err({e})"),
            };
            if call.log.len() < 4096 {
                call.log.push((describe_request(&p.request), text));
            }
            let _ = p.respond_to.send(ans.map_err(P2pError::HeaderEx));
        }
        tokio::task::yield_now().await;
    }
    call
}

fn pick_amount(rng: &mut impl Rng) -> u64 {
    match rng.gen_range(0..8) {
        0 => *[1u64, 2, 7, 8, 9, 63, 64, 65, 127, 128, 129, 511, 512, 513, 520, 599, 600].choose(rng).unwrap(),
        1 | 2 => rng.gen_range(1..=70),
        _ => rng.gen_range(1..=600),
    }
}

pub fn run(ctx: &Ctx) {
    ctx.rule(
        "Calls get_verified_headers_range(from, amount): amount 0; 1..600 (boundary pool + uniform) with all \
         requested headers on the honest chain, answered exact / reordered / partially (prefixes, transient \
         not-found); ranges reaching beyond the chain tip; amounts u64::MAX-k and 2^63±k, from-heights up to \
         i64::MAX (amount overflow classes). Non-trivial = call that issued >= 1 request or belongs to the \
         zero/overflow classes; distinct by (class, from height, amount, mode).",
    );
    ctx.assume("simulated client = HeaderRequestExt::is_valid restated + honest chain prefix (<=512) + HeaderNotFound above the tip");
    ctx.assume("headers have fixed timestamps in 2023, years away from the clock-drift boundary of verify()");
    ctx.extra("profile_overflow_checks", json!(cfg!(debug_assertions)));

    let chain = Chain::generate(ctx.rng(100, 0), "verif-c27", &[10], 1, 1300);
    let hi_n = 48u64;
    let hi_chain = Chain::generate(ctx.rng(100, 1), "verif-c27-hi", &[10], i64::MAX as u64 - hi_n + 1, hi_n);
    let mut bad_from = chain.headers[10].clone();
    celestia_types::test_utils::invalidate(&mut bad_from);

    let calls = ctx.scale(2_000u64, 20_000u64);
    let shards = ctx.cores();
    ctx.par(shards, |shard| {
        let rt = runtime();
        for case in (shard as u64..calls).step_by(shards) {
            let mut rng = ctx.rng(1, case);
            // --- choose the call ---
            let high = rng.gen_bool(0.15);
            let ch = if high { &hi_chain } else { &chain };
            let n = ch.headers.len() as u64;
            let kind = case % 10;
            let (from_idx, amount, mut from): (u64, u64, ExtendedHeader);
            match kind {
                0 => {
                    from_idx = rng.gen_range(0..n);
                    amount = 0;
                }
                1 | 2 => {
                    // near / across the overflow boundary of `height + amount - 1`
                    from_idx = rng.gen_range(0..n);
                    let h1 = ch.headers[from_idx as usize].height() + 1;
                    let room = u64::MAX - h1; // largest amount with h1 + amount <= u64::MAX
                    amount = match rng.gen_range(0..6) {
                        0 => u64::MAX,
                        1 => u64::MAX - rng.gen_range(0..70),
                        2 => room + rng.gen_range(0..4), // room, room+1 (last height = u64::MAX), room+2, ..
                        3 => room.saturating_sub(rng.gen_range(0..4)),
                        4 => (1u64 << 63) + rng.gen_range(0..3) - 1,
                        _ => vcore::edge_u64(&mut rng),
                    };
                }
                3 => {
                    // beyond the tip
                    from_idx = rng.gen_range(n.saturating_sub(40)..n);
                    amount = n - 1 - from_idx + rng.gen_range(1..100);
                }
                _ => {
                    let a = pick_amount(&mut rng).min(n - 1);
                    from_idx = rng.gen_range(0..n - a);
                    amount = a;
                }
            }
            from = ch.headers[from_idx as usize].clone();
            let invalid_from = case % 97 == 5;
            if invalid_from {
                from = bad_from.clone();
            }
            let h1 = from.height() as u128 + 1;
            let class = if invalid_from {
                Class::InvalidFrom
            } else if amount == 0 {
                Class::Zero
            } else if h1 + amount as u128 > u64::MAX as u128 {
                Class::Overflow
            } else if h1 + amount as u128 - 1 <= ch.tip() as u128 {
                Class::Served
            } else {
                Class::Unserved
            };
            let mode = match class {
                Class::Served => *[Mode::Exact, Mode::Reordered, Mode::Partial].choose(&mut rng).unwrap(),
                _ => *[Mode::Exact, Mode::Reordered].choose(&mut rng).unwrap(),
            };
            let full_budget = 2 * amount.min(1 << 40).div_ceil(8) + 16;
            let cut_after = match class {
                Class::Zero | Class::InvalidFrom => 64,
                Class::Served if mode == Mode::Partial => amount + amount / 8 + 4 + 16,
                Class::Served => full_budget,
                Class::Overflow | Class::Unserved => 300,
            };

            // --- run it ---
            let call = rt.block_on(tokio::task::unconstrained(drive(ch, &from, amount, mode, cut_after, &mut rng)));
            ctx.eval();
            ctx.count("calls");
            ctx.count(&format!("class/{}", class.name()));
            ctx.count_n("requests", call.requests);
            ctx.count_n("partial_mode_faults", call.faults);
            if high {
                ctx.count("calls_from_height_near_i64max");
            }
            if call.requests > 0 || matches!(class, Class::Zero | Class::Overflow) {
                ctx.nontrivial(&(class, from.height(), amount, mode));
            }
            let detail = |call: &Call| {
                let n = call.log.len();
                json!({
                    "case": case, "from_height": from.height(), "amount": amount, "class": class.name(), "mode": format!("{mode:?}"),
                    "requests_issued": call.requests,
                    "first_requests": call.log.iter().take(4).collect::<Vec<_>>(),
                    "last_requests": call.log[n.saturating_sub(4)..].iter().collect::<Vec<_>>(),
                })
            };
            ctx.sample(|| detail(&call));

            // --- oracle ---
            match &call.end {
                End::Panicked(p) => {
                    ctx.count(&format!("panicked/{}", class.name()));
                    ctx.violation(
                        &format!("C27/{}/panic/{}", class.name(), panic_site(p)),
                        &format!(
                            "get_verified_headers_range(from.height={}, amount={amount}) panicked: {p}",
                            from.height()
                        ),
                        detail(&call),
                    );
                }
                End::Stalled => {
                    ctx.count("stalled");
                    ctx.inconclusive(&format!(
                        "call (from={}, amount={amount}) pending with no outstanding request: harness cannot decide",
                        from.height()
                    ));
                }
                End::Cut => {
                    ctx.count(&format!("cut/{}", class.name()));
                    // Is the call spinning on one request that the client refuses?
                    let n = call.log.len();
                    let tail = &call.log[n.saturating_sub(32)..];
                    let spinning_refused = tail.len() >= 32
                        && tail.iter().all(|x| x == &tail[0])
                        && tail[0].1.contains("Invalid request");
                    match class {
                        Class::Zero => {
                            let sig = if spinning_refused {
                                "C27/amount=0/livelock-retrying-InvalidRequest"
                            } else {
                                "C27/amount=0/does-not-return"
                            };
                            ctx.violation(
                                sig,
                                &format!(
                                    "amount 0 does not return: {} requests issued, the last 32 all `{}` answered `{}`",
                                    call.requests, tail[0].0, tail[0].1
                                ),
                                detail(&call),
                            );
                        }
                        Class::Served if mode != Mode::Partial => {
                            ctx.violation(
                                "C27/served/request-budget-exceeded",
                                &format!(
                                    "all {amount} headers were served in full on every request, yet the call issued {} requests (> 2*ceil(amount/8)+16) without returning",
                                    call.requests
                                ),
                                detail(&call),
                            );
                        }
                        Class::Served => {
                            // partial answers: served "eventually"; bound = amount + faults + 16
                            ctx.violation(
                                "C27/served-partially/request-budget-exceeded",
                                &format!(
                                    "every answer was a non-empty prefix or one of {} transient not-founds, yet the call issued {} requests (> amount + faults + 16)",
                                    call.faults, call.requests
                                ),
                                detail(&call),
                            );
                        }
                        Class::Overflow => {
                            // No panic: that is all the text asks for such amounts. Record what happened.
                            if spinning_refused {
                                ctx.count("observed/overflow-wrapped-to-empty-range-spins-on-refused-request");
                            } else {
                                ctx.count("observed/overflow-amount-retries-not-found");
                            }
                        }
                        Class::Unserved => ctx.count("observed/unserved-retries-until-cancelled"),
                        Class::InvalidFrom => ctx.count("observed/invalid-from-does-not-return"),
                    }
                }
                End::Returned(res) => {
                    ctx.count(&format!(
                        "returned/{}/{}",
                        class.name(),
                        match res {
                            Ok(_) => "Ok".to_string(),
                            Err(e) => err_name(e),
                        }
                    ));
                    match (class, res) {
                        (Class::Zero, Ok(v)) if !v.is_empty() => ctx.violation(
                            "C27/amount=0/returns-headers",
                            &format!("amount 0 returned {} headers", v.len()),
                            detail(&call),
                        ),
                        (Class::Served, Ok(v)) => {
                            let want = ch.slice(from.height() + 1, amount);
                            if *v != want {
                                let got_h: Vec<u64> = v.iter().map(|h| h.height()).collect();
                                ctx.violation(
                                    "C27/served/wrong-headers-returned",
                                    &format!(
                                        "expected exactly heights {}..={}, got {} headers (first {:?}, last {:?})",
                                        from.height() + 1,
                                        from.height() + amount,
                                        v.len(),
                                        got_h.first(),
                                        got_h.last()
                                    ),
                                    detail(&call),
                                );
                            }
                        }
                        (Class::Served, Err(e)) if mode != Mode::Partial => ctx.violation(
                            &format!("C27/served/returned-error/{}", err_name(e)),
                            &format!("every requested header was served in full, but the call returned Err({e})"),
                            detail(&call),
                        ),
                        _ => {}
                    }
                }
            }
        }
    });

    ctx.floor("class/amount=0", calls / 12);
    ctx.floor("class/amount-overflow", calls / 16);
    ctx.floor("class/served", calls / 2);
    ctx.floor("class/unserved", calls / 16);
    ctx.floor("calls_from_height_near_i64max", calls / 12);
    ctx.floor("returned/served/Ok", calls * 2 / 5);
}
