//! C25 — the syncer never re-requests history behind a pruned window edge.
//!
//! The REAL `Syncer` worker runs over a mocked `P2p` and a `LoggedStore<InMemoryStore>` in tokio
//! virtual time. The harness is the network (honest answers, random delays / order / prefixes,
//! header-sub announcements of new heads) and the pruner (removes stored headers through the
//! store, in particular the header that bounds the sampling window).
//!
//! Oracle (offline, over one ordered log): for every batch the syncer starts
//! (`FetchingHeadersStarted`) and every range request it sends (`HeaderExRequest`), the lowest
//! synced (stored or pruned) height above the requested range must not be older than the sampling
//! window. "Synced" is rebuilt from the logged store mutations, header age is ground truth of the
//! generated chain (every header is >= 2 h away from the window boundary).

#[path = "c25_net.rs"]
pub mod c25_net;

use std::collections::BTreeSet;
use std::time::Duration;

use c25_net::*;
use lumina_node::store::Store;
use vcore::{Ctx, Rng, SliceRandom, json};
use vnode::{StoreEvent, StoreOp, StoreRet};

#[derive(Clone, Copy, Debug, PartialEq, Eq, Hash)]
enum Prefill {
    None,
    /// One old range strictly below the window edge.
    OldRange,
    /// An old range plus a stale in-window range (node restarted after a while).
    OldAndRecent,
    /// A stored range that starts old and reaches into the window.
    Straddling,
}

#[derive(Clone, Copy, Debug, PartialEq, Eq, Hash)]
enum PruneMode {
    /// Control: nothing is pruned; the syncer must stop at the stored old header.
    Nothing,
    /// Remove exactly the header bounding the window (lowest header of the top synced range).
    Edge,
    /// Like the real pruner: every stored old height, highest first, in bursts.
    TopDown,
    /// The old part of the top range, lowest first.
    BottomUp,
    /// Random stored old heights in random order (the edge with probability 1/2).
    RandomOld,
}

#[derive(Clone, Debug)]
struct Params {
    n_vals: usize,
    n_old: u64,
    n_new: u64,
    batch: u64,
    bt_s: u64,
    extra_window_s: u64,
    /// pruning window relative to the sampling window: -1 shorter, 0 equal, 1 longer
    pruning_rel: i32,
    prefill: Prefill,
    mode: PruneMode,
    /// start pruning at a random early moment instead of after the sync went quiet
    early: bool,
    /// additionally remove sampled in-window interior heights
    interior: bool,
    prefix_pct: u32,
    max_delay_ms: u64,
    /// the harness also plays the daser: percentage of unsampled in-window stored heights marked
    /// as sampled at every network tick (0 = no daser, the syncer's slow-sync throttle stays shut)
    daser_pct: u32,
    /// the whole chain (network head included) is older than the sampling window
    stalled: bool,
}

fn gen_params(rng: &mut impl Rng, case: u64) -> Params {
    if case == 0 {
        // The minimal scripted history of the report: 20 old + 20 recent heights, batch 16.
        return Params {
            n_vals: 1,
            n_old: 20,
            n_new: 20,
            batch: 16,
            bt_s: 1,
            extra_window_s: 3600,
            pruning_rel: 1,
            prefill: Prefill::None,
            mode: PruneMode::Edge,
            early: false,
            interior: false,
            prefix_pct: 0,
            max_delay_ms: 50,
            daser_pct: 100,
            stalled: false,
        };
    }
    let batch = *[8u64, 16, 16, 32, 32, 64, 64, 128, 512].choose(rng).unwrap();
    let n_old = (batch as f64 * rng.gen_range(0.4..2.6)) as u64 + rng.gen_range(3..20);
    let n_new = (batch as f64 * rng.gen_range(0.3..3.0)) as u64 + rng.gen_range(2..30);
    Params {
        n_vals: rng.gen_range(1..=2),
        n_old,
        n_new,
        batch,
        bt_s: rng.gen_range(1..=3),
        extra_window_s: *[0u64, 3600, 36_000, 30 * 86_400].choose(rng).unwrap(),
        pruning_rel: rng.gen_range(-1..=1),
        prefill: *[Prefill::None, Prefill::None, Prefill::OldRange, Prefill::OldAndRecent, Prefill::Straddling].choose(rng).unwrap(),
        mode: *[PruneMode::Nothing, PruneMode::Edge, PruneMode::Edge, PruneMode::TopDown, PruneMode::TopDown, PruneMode::BottomUp, PruneMode::RandomOld]
            .choose(rng)
            .unwrap(),
        early: rng.gen_bool(0.25),
        interior: rng.gen_bool(0.3),
        prefix_pct: *[0u32, 10, 30].choose(rng).unwrap(),
        max_delay_ms: *[30u64, 500, 2500].choose(rng).unwrap(),
        daser_pct: *[0u32, 100, 100, 100, 100, 60].choose(rng).unwrap(),
        // every 8th run: an old / stalled chain, where the window must be measured against the
        // local clock and not against the chain's own head
        stalled: case % 8 == 5,
    }
}

const T_TICK: u32 = 1;
const T_PRUNE: u32 = 2;
const T_END: u32 = 3;
const TAIL_MS: u64 = 200_000;
/// The observation after the last removal also ends after this many further range requests
/// (a re-request loop produces thousands within the 200 virtual seconds; a healthy syncer a few dozen).
const TAIL_REQS: u64 = 400;
/// If the history sync never goes quiet (it may legitimately idle in slow-sync), the pruner starts anyway.
const QUIET_GIVE_UP_MS: u64 = 400_000;
const QUIET_MS: u64 = 30_000;
const MAX_TICKS: u64 = 140;

struct RunOut {
    log: Vec<Rec>,
    layout: Layout,
    alive: bool,
    watchdog: bool,
    removed: Vec<u64>,
    panic: Option<String>,
}

async fn simulate(p: &Params, rng: &mut vcore::ChaCha8Rng, wall: Duration) -> Result<RunOut, String> {
    let bt = Duration::from_secs(p.bt_s);
    let layout = if p.stalled {
        Layout::new_stalled(p.n_old, p.n_new + MAX_TICKS + 4, bt, Duration::from_secs(p.extra_window_s))
    } else {
        Layout::new(p.n_old, p.n_new + MAX_TICKS + 4, bt, Duration::from_secs(p.extra_window_s))
    };
    let h0 = p.n_old + p.n_new;
    let mut chains = Chains::new(rng, layout.clone(), p.n_vals, h0, false);
    let window = layout.window;
    let pruning_window = match p.pruning_rel {
        -1 => window / 2,
        0 => window,
        _ => window + Duration::from_secs(3600),
    };

    let mut prefill = Vec::new();
    match p.prefill {
        Prefill::None => {}
        Prefill::OldRange | Prefill::OldAndRecent => {
            let a = rng.gen_range(1..=p.n_old.max(2) - 1);
            let b = rng.gen_range(a..=(a + 12).min(p.n_old - 1).max(a));
            prefill.push(chains.range(Src::Honest, a, b - a + 1));
            if p.prefill == Prefill::OldAndRecent && p.n_new > 6 {
                let c = p.n_old + rng.gen_range(2..p.n_new / 2 + 2);
                let d = (c + rng.gen_range(0..p.n_new / 3 + 1)).min(h0 - 2);
                if d >= c {
                    prefill.push(chains.range(Src::Honest, c, d - c + 1));
                }
            }
        }
        Prefill::Straddling => {
            // often exactly the last old height: the header bounding the window is then the only old one
            let a = if rng.gen_bool(0.3) { p.n_old } else { rng.gen_range(2..=p.n_old) };
            let b = p.n_old + rng.gen_range(1..=(p.n_new / 2).max(1));
            prefill.push(chains.range(Src::Honest, a, b - a + 1));
        }
    }

    let mut sim = Sim::start(SimArgs {
        batch_size: p.batch,
        sampling_window: window,
        pruning_window,
        wall_budget: wall,
        prefill,
    })
    .await?;

    sim.set_peers(rng.gen_range(1..4), 0);
    sim.after(rng.gen_range(0..1500), Timer::Custom(9, 0));
    sim.after(6_000, Timer::Custom(T_TICK, 0));
    if p.early && p.mode != PruneMode::Nothing {
        sim.after(rng.gen_range(2_000..15_000), Timer::Custom(T_PRUNE, 0));
    }
    // Hard end of the run in virtual time (never reached on sane runs).
    sim.after(3 * 3600 * 1000, Timer::Custom(T_END, 1));

    let mut ticks = 0u64;
    let mut pruning_started = p.early || p.mode == PruneMode::Nothing;
    let mut prune_plan: Option<Vec<Vec<u64>>> = None;
    let mut removed: Vec<u64> = Vec::new();
    let mut end_armed = false;
    let mut head_answered = false;
    let mut watchdog = false;
    let mut interior_done = !p.interior;
    // last request for history (heights up to the initial head); catching up with new heads does not count
    let mut last_hist_req_ms = 0u64;
    let mut reqs_at_end_armed: Option<u64> = None;
    let mut plans_done = 0u32;

    loop {
        match sim.next().await {
            Incoming::Watchdog => {
                watchdog = true;
                break;
            }
            Incoming::Closed => break,
            Incoming::Other | Incoming::InitSub(_) => {}
            Incoming::Head(id) => {
                let d = rng.gen_range(1..=p.max_delay_ms);
                sim.after(d, Timer::Respond(id));
            }
            Incoming::Range(id) => {
                if sim.pending.get(&id).is_some_and(|r| r.origin <= h0) {
                    last_hist_req_ms = sim.now_ms();
                }
                if reqs_at_end_armed.is_some_and(|n| sim.range_reqs > n + TAIL_REQS) {
                    sim.log.push(Ev::Mark("request budget after the last removal used up"));
                    break;
                }
                let d = rng.gen_range(1..=p.max_delay_ms);
                sim.after(d, Timer::Respond(id));
            }
            Incoming::Timer(Timer::Respond(id)) => {
                let Some(req) = sim.pending.get(&id) else { continue };
                if req.origin == 0 {
                    let head = chains.get(Src::Honest, chains.head()).unwrap().clone();
                    sim.respond(&chains, id, "head:honest", PeerAnswer::Valid(vec![head])).await;
                    head_answered = true;
                } else {
                    let (o, n) = (req.origin, req.amount);
                    let avail = chains.head().saturating_sub(o - 1).min(n);
                    if avail == 0 {
                        sim.respond(&chains, id, "not-found", PeerAnswer::Wire(vec![wire_status(celestia_proto::p2p::pb::StatusCode::NotFound)])).await;
                    } else if avail > 1 && rng.gen_range(0..100) < p.prefix_pct {
                        let k = rng.gen_range(1..avail);
                        sim.respond(&chains, id, "honest:prefix", PeerAnswer::Valid(chains.range(Src::Honest, o, k))).await;
                    } else {
                        sim.respond(&chains, id, "honest:full", PeerAnswer::Valid(chains.range(Src::Honest, o, avail))).await;
                    }
                }
            }
            Incoming::Timer(Timer::Custom(9, _)) => {
                let c = rng.gen_range(1..4);
                sim.set_peers(c, 1);
            }
            Incoming::Timer(Timer::Custom(T_TICK, _)) => {
                ticks += 1;
                if ticks <= MAX_TICKS && sim.sub_tx.is_some() {
                    // The network produced 1..3 new blocks; header-sub delivers the newest.
                    let mut h = chains.grow();
                    for _ in 0..rng.gen_range(0..3u32) {
                        if chains.head() < h0 + MAX_TICKS {
                            h = chains.grow();
                        }
                    }
                    sim.announce(&h);
                }
                sim.reap();
                if p.daser_pct > 0 {
                    let sampled = sim.store.inner.get_sampled_ranges().await.unwrap();
                    for h in stored_heights(&sim.store).await {
                        if !layout.is_old(h) && !sampled.contains(h) && rng.gen_range(0..100) < p.daser_pct {
                            let _ = sim.store.mark_as_sampled(h).await;
                        }
                    }
                }
                let now = sim.now_ms();
                let quiet = (head_answered && sim.pending.is_empty() && now.saturating_sub(last_hist_req_ms) >= QUIET_MS && sim.sub_tx.is_some())
                    || now >= QUIET_GIVE_UP_MS;
                if quiet && !pruning_started {
                    pruning_started = true;
                    sim.log.push(Ev::Mark("sync went quiet; pruner starts"));
                    sim.after(rng.gen_range(100..3_000), Timer::Custom(T_PRUNE, 0));
                }
                if quiet && p.mode == PruneMode::Nothing && !end_armed {
                    end_armed = true;
                    reqs_at_end_armed = Some(sim.range_reqs);
                    sim.after(TAIL_MS, Timer::Custom(T_END, 0));
                }
                sim.after(rng.gen_range(4_000..12_000), Timer::Custom(T_TICK, 0));
            }
            Incoming::Timer(Timer::Custom(T_PRUNE, _)) => {
                // Build the plan from what is really stored now.
                if prune_plan.is_none() {
                    let stored: BTreeSet<u64> = stored_heights(&sim.store).await.into_iter().collect();
                    let pruned = sim.store.inner.get_pruned_ranges().await.unwrap();
                    let synced: BTreeSet<u64> = stored.iter().copied().chain(pruned.as_ref().iter().flat_map(|r| r.clone())).collect();
                    // start of the top synced range
                    let mut edge = synced.iter().next_back().copied();
                    while let Some(e) = edge {
                        if e > 1 && synced.contains(&(e - 1)) {
                            edge = Some(e - 1);
                        } else {
                            break;
                        }
                    }
                    let old_stored: Vec<u64> = stored.iter().copied().filter(|h| layout.is_old(*h)).collect();
                    let edge_old_stored = edge.filter(|e| layout.is_old(*e) && stored.contains(e));
                    let top_old: Vec<u64> = match edge {
                        Some(e) => (e..=p.n_old).filter(|h| stored.contains(h)).collect(),
                        None => vec![],
                    };
                    let mut plan: Vec<Vec<u64>> = Vec::new();
                    match p.mode {
                        PruneMode::Nothing => {}
                        PruneMode::Edge => {
                            if let Some(e) = edge_old_stored {
                                plan.push(vec![e]);
                            }
                        }
                        PruneMode::TopDown => {
                            let mut v = old_stored.clone();
                            v.reverse();
                            let burst = rng.gen_range(1..=16usize);
                            plan.extend(v.chunks(burst).map(|c| c.to_vec()));
                        }
                        PruneMode::BottomUp => {
                            let burst = rng.gen_range(1..=8usize);
                            plan.extend(top_old.chunks(burst).map(|c| c.to_vec()));
                        }
                        PruneMode::RandomOld => {
                            let mut v = old_stored.clone();
                            v.shuffle(rng);
                            v.truncate(rng.gen_range(1..=v.len().max(1)));
                            if let Some(e) = edge_old_stored {
                                v.retain(|h| *h != e);
                                if rng.gen_bool(0.5) {
                                    let at = rng.gen_range(0..=v.len());
                                    v.insert(at, e);
                                }
                            }
                            let burst = rng.gen_range(1..=6usize);
                            plan.extend(v.chunks(burst).map(|c| c.to_vec()));
                        }
                    }
                    if !interior_done {
                        interior_done = true;
                        // sampled in-window heights that are not edges of the synced ranges
                        let cand: Vec<u64> = stored
                            .iter()
                            .copied()
                            .filter(|h| !layout.is_old(*h) && synced.contains(&(h - 1)) && synced.contains(&(h + 1)))
                            .collect();
                        let k = rng.gen_range(0..=cand.len().min(12));
                        let mut c = cand;
                        c.shuffle(rng);
                        c.truncate(k);
                        for h in &c {
                            let _ = sim.store.mark_as_sampled(*h).await;
                        }
                        if !c.is_empty() {
                            let at = rng.gen_range(0..=plan.len());
                            plan.insert(at, c);
                        }
                    }
                    plan.reverse(); // pop from the back
                    prune_plan = Some(plan);
                }
                let plan = prune_plan.as_mut().unwrap();
                if let Some(step) = plan.pop() {
                    for h in step {
                        if sim.prune(h).await {
                            removed.push(h);
                        }
                    }
                }
                if plan.is_empty() {
                    plans_done += 1;
                    if p.early && p.mode != PruneMode::Nothing && !end_armed && plans_done < 4 {
                        // early pruning found what it found; re-plan once the sync is quiet
                        let now = sim.now_ms();
                        let quiet = head_answered && sim.pending.is_empty() && now.saturating_sub(last_hist_req_ms) >= QUIET_MS;
                        if !quiet {
                            prune_plan = None;
                            interior_done = true;
                            sim.after(rng.gen_range(5_000..20_000), Timer::Custom(T_PRUNE, 0));
                            continue;
                        }
                    }
                    if !end_armed {
                        end_armed = true;
                        reqs_at_end_armed = Some(sim.range_reqs);
                        sim.log.push(Ev::Mark("last removal done; 200 virtual seconds follow"));
                        sim.after(TAIL_MS, Timer::Custom(T_END, 0));
                    }
                } else {
                    sim.after(rng.gen_range(200..6_000), Timer::Custom(T_PRUNE, 0));
                }
            }
            Incoming::Timer(Timer::Custom(T_END, _)) => break,
            Incoming::Timer(_) => {}
        }
    }
    let (log, alive) = sim.finish().await;
    Ok(RunOut { log, layout, alive, watchdog, removed, panic: None })
}

#[derive(Default)]
struct Stats {
    batches: u64,
    requests: u64,
    declined_at_stored_old: u64,
    check_hit_pruned_old: u64,
    gap_below_old_edge: bool,
}

struct Finding {
    sig: &'static str,
    msg: String,
    at: usize,
    count: u64,
}

fn check(out: &RunOut) -> (Vec<Finding>, Stats) {
    let mut m = Model::default();
    let mut st = Stats::default();
    let mut found: Vec<Finding> = Vec::new();
    let lay = &out.layout;
    let flag = |found: &mut Vec<Finding>, m: &Model, what: &str, a: u64, b: u64, at: usize| {
        let Some(n) = m.lowest_synced_above(b) else { return };
        if !lay.is_old(n) {
            return;
        }
        let sig = if m.pruned.contains(&n) { "C25/refetch-below-pruned-edge" } else { "C25/fetch-below-stored-old-header" };
        if let Some(f) = found.iter_mut().find(|f| f.sig == sig) {
            f.count += 1;
            return;
        }
        found.push(Finding {
            sig,
            msg: format!(
                "{what} [{a}..={b}] lies below synced height {n}, which is older than the sampling window ({}); {}",
                if m.pruned.contains(&n) { "pruned" } else { "still stored" },
                m.ranges()
            ),
            at,
            count: 1,
        });
    };
    // (range, signature it was flagged with) of the batch the syncer announced last
    let mut cur: Option<(u64, u64, Option<&'static str>)> = None;
    for (i, r) in out.log.iter().enumerate() {
        match &r.ev {
            Ev::Node(NodeEv::Started(a, b)) => {
                st.batches += 1;
                let before: Vec<(&'static str, u64)> = found.iter().map(|f| (f.sig, f.count)).collect();
                flag(&mut found, &m, "batch", *a, *b, i);
                let sig = found.iter().find(|f| !before.contains(&(f.sig, f.count))).map(|f| f.sig);
                cur = Some((*a, *b, sig));
            }
            Ev::Req { origin, amount, .. } if *origin > 0 && *origin != u64::MAX => {
                st.requests += 1;
                let (lo, hi) = (*origin, origin + amount - 1);
                match cur {
                    // a request of the announced batch shares the batch's verdict (the synced set above
                    // it cannot change while the batch is in flight; only its stored/pruned split can)
                    Some((a, b, sig)) if a <= lo && hi <= b => {
                        if let Some(f) = sig.and_then(|s| found.iter_mut().find(|f| f.sig == s)) {
                            f.count += 1;
                        }
                    }
                    _ => flag(&mut found, &m, "header-ex request outside any announced batch", lo, hi, i),
                }
            }
            Ev::Store(StoreEvent::Return { op: StoreOp::GetByHeight(h), ret, .. }) => match ret {
                StoreRet::Header(..) if lay.is_old(*h) => st.declined_at_stored_old += 1,
                StoreRet::Err("NotFound") if lay.is_old(*h) && m.pruned.contains(h) => st.check_hit_pruned_old += 1,
                _ => {}
            },
            _ => {}
        }
        m.apply(&r.ev);
        if !st.gap_below_old_edge {
            // antecedent of the property is live: an old synced header with unsynced heights below
            if let Some(lo) = m.stored.keys().chain(m.pruned.iter()).filter(|h| lay.is_old(**h)).min() {
                if *lo > 1 {
                    st.gap_below_old_edge = true;
                }
            }
        }
    }
    (found, st)
}

pub fn run(ctx: &Ctx) {
    ctx.rule(
        "Each run: honest chain of n_old heights older than the sampling window (>= 2 h outside) followed by \
         n_new heights inside it (>= 2 h inside), 1-2 validators, syncer batch size 8..512, optional pre-filled \
         store (old range / old + stale recent range / straddling range); the fake network answers every \
         header-ex request honestly with random delay, order and prefix truncation and announces new heads every \
         4-12 virtual seconds; the harness-pruner removes stored headers (only the window-bounding header / all \
         old heights highest-first like the real pruner / old part bottom-up / random old heights / plus sampled \
         in-window interior heights), early or after the sync went quiet, then 200 virtual seconds follow. \
         Non-trivial run = an old synced header with unsynced heights below it existed while the syncer was \
         triggered; distinct by parameter vector. Run 0 is the minimal scripted history.",
    );
    ctx.assume("header age relative to the sampling window is ground truth of the generated chain (>= 2 h margin to wall-clock now)");
    ctx.assume("tokio paused clock; InMemoryStore; mocked P2p command channel = boundary of the real P2p worker");
    ctx.assume("synced set = heights whose insertion the logged store acknowledged (stored or removed since)");

    let runs = ctx.scale(64u64, 2000u64);
    let shards = ctx.cores();
    let wall = Duration::from_secs(ctx.scale(60, 240));
    let only: Option<u64> = std::env::var("VERIF_CASE").ok().and_then(|s| s.parse().ok());
    // Run 0 (the minimal scripted history) goes first and alone, so that its witness is always among
    // the replay files kept per signature.
    ctx.par(shards + 1, |shard| {
        let cases: Vec<u64> = if shard == 0 { vec![0] } else { ((shard as u64)..runs).step_by(shards).collect() };
        if shard != 0 {
            // let run 0 record its findings first
            let t0 = std::time::Instant::now();
            while ctx.counter("runs") == 0 && ctx.counter("run0_done") == 0 && t0.elapsed() < Duration::from_secs(20) {
                std::thread::sleep(Duration::from_millis(20));
            }
        }
        for case in cases {
            if only.is_some_and(|c| c != case) {
                if case == 0 {
                    ctx.count("run0_done");
                }
                continue;
            }
            let mut rng = ctx.rng(1, case);
            let p = gen_params(&mut rng, case);
            vcore::take_last_panic();
            let res = vcore::guard(|| run_paused(simulate(&p, &mut rng, wall)));
            let panic = vcore::take_last_panic();
            let mut out = match res {
                Ok(Ok(o)) => o,
                Ok(Err(e)) => {
                    ctx.inconclusive(&format!("harness setup failed in run {case}: {e}"));
                    continue;
                }
                Err(e) => {
                    ctx.inconclusive(&format!("harness panicked in run {case}: {e}"));
                    continue;
                }
            };
            out.panic = panic;
            ctx.eval();
            ctx.count("runs");
            if out.watchdog {
                ctx.count("runs_watchdog");
                ctx.inconclusive(&format!("wall-clock watchdog fired in run {case}"));
                continue;
            }
            if let Some(pn) = &out.panic {
                if !pn.contains("VERIF-WATCHDOG") {
                    ctx.count("runs_with_panic_in_worker");
                    ctx.extra("worker_panic", json!(pn));
                }
            }
            if !out.alive {
                ctx.count("runs_syncer_dead_at_end");
            }
            let (found, st) = check(&out);
            if p.stalled {
                ctx.count("runs_stalled_chain_all_heights_old");
                ctx.count_n("stalled_chain_window_checks_at_stored_old_header", st.declined_at_stored_old);
            }
            if std::env::var("VERIF_DEBUG").is_ok() {
                let end = out.log.last().map(|r| r.vt_ms).unwrap_or(0);
                eprintln!(
                    "case {case} old={} new={} batch={} prefill={:?} mode={:?} early={} interior={} daser={} -> batches={} reqs={} declined={} hit_pruned={} removed={} end={}s findings={:?}",
                    p.n_old, p.n_new, p.batch, p.prefill, p.mode, p.early, p.interior, p.daser_pct, st.batches, st.requests, st.declined_at_stored_old,
                    st.check_hit_pruned_old, out.removed.len(), end / 1000, found.iter().map(|f| (f.sig, f.count)).collect::<Vec<_>>()
                );
                if std::env::var("VERIF_DEBUG").unwrap() == "log" {
                    for r in out.log.iter().filter(|r| essential(r)) {
                        eprintln!("   {}", render(r));
                    }
                }
            }
            ctx.count_n("batches_checked", st.batches);
            ctx.count_n("range_requests_checked", st.requests);
            ctx.count_n("window_check_saw_stored_old_header", st.declined_at_stored_old);
            ctx.count_n("window_check_saw_pruned_old_header", st.check_hit_pruned_old);
            ctx.count_n("heights_removed_by_pruner", out.removed.len() as u64);
            ctx.count(&format!("mode_{:?}", p.mode));
            ctx.count(&format!("prefill_{:?}", p.prefill));
            if st.gap_below_old_edge {
                ctx.count("runs_with_gap_below_old_synced_header");
                if st.declined_at_stored_old > 0 {
                    ctx.count("runs_syncer_stopped_at_stored_old_edge");
                }
                if st.check_hit_pruned_old > 0 {
                    ctx.count("runs_triggered_with_pruned_old_edge");
                }
                ctx.nontrivial(&(p.n_old, p.n_new, p.batch, p.prefill, p.mode, p.early, p.interior, p.bt_s));
            }
            let pj = json!({
                "case": case, "n_vals": p.n_vals, "n_old": p.n_old, "n_new": p.n_new, "batch": p.batch, "block_time_s": p.bt_s,
                "sampling_window_s": out.layout.window.as_secs(), "pruning_rel": p.pruning_rel, "prefill": format!("{:?}", p.prefill),
                "prune_mode": format!("{:?}", p.mode), "early": p.early, "interior": p.interior, "daser_pct": p.daser_pct, "removed": out.removed,
            });
            ctx.sample(|| json!({"params": pj, "batches": st.batches, "requests": st.requests,
                "declined_at_stored_old": st.declined_at_stored_old, "check_hit_pruned_old": st.check_hit_pruned_old,
                "findings": found.iter().map(|f| f.sig).collect::<Vec<_>>()}));
            for f in found {
                ctx.violation(
                    f.sig,
                    &f.msg,
                    json!({"params": pj, "occurrences_in_run": f.count, "history_before_first": tail_history(&out.log, f.at, 60)}),
                );
            }
        }
    });
    // Coverage floors qualify a "held" verdict; they must not turn found violations into "inconclusive".
    if ctx.violation_count() == 0 {
        ctx.floor("runs_stalled_chain_all_heights_old", ctx.scale(6, 200));
        ctx.floor("stalled_chain_window_checks_at_stored_old_header", ctx.scale(6, 200));
        ctx.floor("runs_with_gap_below_old_synced_header", ctx.scale(30, 1000));
        ctx.floor("runs_syncer_stopped_at_stored_old_edge", ctx.scale(25, 800));
        ctx.floor("runs_triggered_with_pruned_old_edge", ctx.scale(12, 550));
        ctx.floor("batches_checked", ctx.scale(150, 20_000));
    }
}
