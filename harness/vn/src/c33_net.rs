//! Shared harness of C33 / C34: drives the REAL `Daser` worker over a `LoggedStore<InMemoryStore>`
//! in tokio virtual time and plays every other party (network, syncer, pruner, peer tracker).
//!
//! The result of one run is ONE totally ordered log (`Vec<Ev>`, order = vector order) holding
//!  * every `Store` call / return the daser (and the harness, for insert / remove) performed,
//!  * every node event the daser published (drained from the `EventSubscriber` *before* each store
//!    event and before each harness event is appended, so the relative order is exact),
//!  * every network / pruner / connectivity action of the harness,
//! plus the ground truth of the generated chain (square width and window class per height).
//! The oracles in `c33.rs` / `c34.rs` are offline checkers over that log.

#![allow(dead_code)]

use std::collections::{BTreeMap, BTreeSet};
use std::sync::{Arc, Mutex, OnceLock};
use std::time::Duration;

use bytes::BytesMut;
use celestia_proto::bitswap::Block;
use celestia_types::consts::appconsts::AppVersion;
use celestia_types::sample::{Sample, SampleId};
use celestia_types::{AxisType, DataAvailabilityHeader, ExtendedDataSquare, ExtendedHeader};
use cid::Cid;
use lumina_node::events::{EventSubscriber, NodeEvent};
use lumina_node::node::{P2pError, PeerTrackerInfo};
use lumina_node::store::{InMemoryStore, Store};
use lumina_node::verif::{self, VDaser, VEventChannel, VP2p, VP2pCmd, VP2pHandle, VResponder};
use prost::Message;
use tendermint::Time;
use futures::FutureExt;
use tokio::task::unconstrained;
use vcore::rand::seq::SliceRandom;
use vcore::{ChaCha8Rng, Ctx, Rng, SeedableRng, json};
use vgen::chain::ChainGen;
use vnode::{Clock, EventLog, LoggedStore, Sink, StoreEvent, StoreOp, StoreRet};

pub const MAX_SAMPLES: usize = 16;
pub const PRUNER_THRESHOLD: u64 = 512;
/// ODS widths of the generated squares (EDS width = 2x): "square widths 1..64".
pub const ODS_WIDTHS: [usize; 7] = [1, 2, 4, 8, 16, 32, 64];
const VARIANTS_PER_WIDTH: usize = 2;

/// A real extended square with its DAH (cached: generation dominates the run time).
pub struct Square {
    pub ods_width: usize,
    pub eds: ExtendedDataSquare,
    pub dah: DataAvailabilityHeader,
}

impl Square {
    pub fn eds_width(&self) -> u16 {
        self.eds.square_width()
    }
}

static SQUARES: OnceLock<Vec<Arc<Square>>> = OnceLock::new();

/// Pool of squares: `VARIANTS_PER_WIDTH` per ODS width, generated once per process from the
/// run seed (deterministic).
pub fn squares(ctx: &Ctx) -> &'static Vec<Arc<Square>> {
    SQUARES.get_or_init(|| {
        let mut out = Vec::new();
        // tiny mode (interpreters): only the two smallest widths
        let n_widths = if ctx.tiny() { 2 } else { ODS_WIDTHS.len() };
        for (i, w) in ODS_WIDTHS.iter().enumerate().take(n_widths) {
            for v in 0..VARIANTS_PER_WIDTH {
                let mut rng = ctx.rng(900, (i * 16 + v) as u64);
                let app = [AppVersion::V2, AppVersion::V3, AppVersion::V6][(i + v) % 3];
                let (eds, _ods, _info) = vgen::square::gen_eds(&mut rng, *w, app);
                let dah = DataAvailabilityHeader::from_eds(&eds);
                out.push(Arc::new(Square {
                    ods_width: *w,
                    eds,
                    dah,
                }));
            }
        }
        out
    })
}

// ---------------------------------------------------------------------------------------------
// Log
// ---------------------------------------------------------------------------------------------

#[derive(Clone, Debug)]
pub enum NodeEv {
    Started { h: u64, width: u16, shares: Vec<(u16, u16)> },
    Share { h: u64, row: u16, col: u16, timed_out: bool },
    Result { h: u64, timed_out: bool },
    Fatal(String),
}

#[derive(Clone, Debug)]
pub enum NetEv {
    /// A `GetShwapCid` command taken from the mocked P2p. `recorded`: was the cid in the store's
    /// sampling metadata of its height when the harness received the request (None: the cid is
    /// not a sample cid or the height is not stored).
    Request { rid: u64, cid: Cid, recorded: Option<bool> },
    /// Harness answered request `rid` with a well-formed, verified sample block.
    /// `delivered` = the requester was still waiting (oneshot accepted the value).
    AnswerOk { rid: u64, delivered: bool },
    /// Harness answered request `rid` with `Err(P2pError::RequestTimedOut)` (bitswap-level timeout).
    AnswerTimeout { rid: u64, delivered: bool },
    /// Harness observed that the requester gave up on `rid` (lumina-side timeout in virtual time,
    /// or the sampling was aborted).
    Closed { rid: u64 },
    /// `set_peer_tracker_info(num_connected_peers = n)`.
    Peers { n: u64 },
    /// A virtual sleep of the harness returned: the runtime was idle before the clock moved, hence
    /// everything the harness did before this marker has been fully absorbed by the daser.
    Settled,
    /// Pruner reports (logged before the command is sent).
    ReportHp(u64),
    ReportNb(u64),
    WtpSent { h: u64 },
    WtpReply { h: u64, granted: bool },
    Advance { ms: u64 },
    Stop,
}

#[derive(Clone, Debug)]
pub enum Ev {
    Store(StoreEvent),
    Node(NodeEv),
    Net(NetEv),
}

pub fn ev_str(e: &Ev) -> String {
    match e {
        Ev::Store(StoreEvent::Call { op, .. }) => format!("store call {}", op_str(op)),
        Ev::Store(StoreEvent::Return { op, ret, .. }) => {
            format!("store ret  {} -> {}", op_str(op), ret_str(ret))
        }
        Ev::Node(n) => format!("node {n:?}"),
        Ev::Net(NetEv::Request { rid, cid, recorded }) => {
            format!("net Request rid={rid} {:?} recorded={recorded:?}", decode_sample_cid(cid))
        }
        Ev::Net(n) => format!("net {n:?}"),
    }
}

fn op_str(op: &StoreOp) -> String {
    match op {
        StoreOp::UpdateSamplingMetadata(h, cids) => {
            let coords: Vec<_> = cids.iter().map(decode_sample_cid).collect();
            format!("update_sampling_metadata({h}, {coords:?})")
        }
        StoreOp::Insert(v) => format!("insert({:?})", v.iter().map(|x| x.0).collect::<Vec<_>>()),
        other => format!("{other:?}"),
    }
}

fn ret_str(r: &StoreRet) -> String {
    match r {
        StoreRet::Header(h, _) => format!("Header({h})"),
        StoreRet::Ranges(r) => format!("{r}"),
        other => format!("{other:?}"),
    }
}

/// Independent decoding of a sample CID: CIDv1, codec 0x7810, multihash code 0x7811, digest =
/// height u64 BE | row u16 BE | column u16 BE. Returns (height, row, col).
pub fn decode_sample_cid(cid: &Cid) -> Option<(u64, u16, u16)> {
    if cid.codec() != 0x7810 || cid.hash().code() != 0x7811 {
        return None;
    }
    let d = cid.hash().digest();
    if d.len() != 12 {
        return None;
    }
    let h = u64::from_be_bytes(d[0..8].try_into().unwrap());
    let r = u16::from_be_bytes(d[8..10].try_into().unwrap());
    let c = u16::from_be_bytes(d[10..12].try_into().unwrap());
    Some((h, r, c))
}

// ---------------------------------------------------------------------------------------------
// Run configuration and ground truth
// ---------------------------------------------------------------------------------------------

#[derive(Clone, Debug)]
pub struct Profile {
    /// Probability that a height's sampling is sabotaged by a timeout when answering.
    pub p_timeout: f64,
    /// Relative weights of the harness actions.
    pub w_answer: u32,
    pub w_answer_block: u32,
    pub w_timeout_err: u32,
    pub w_sleep_short: u32,
    pub w_sleep_long: u32,
    pub w_insert_head: u32,
    pub w_backfill: u32,
    pub w_report: u32,
    pub w_wtp: u32,
    pub w_remove: u32,
    pub w_toggle: u32,
    pub max_limit: usize,
    pub max_allowance: usize,
}

#[derive(Clone, Debug)]
pub struct RunCfg {
    pub limit: usize,
    pub allowance: usize,
    pub window: Duration,
    /// Total heights of the generated chain (1..=n).
    pub n: u64,
    /// Heights 1..=n_old are older than the sampling window.
    pub n_old: u64,
    pub steps: usize,
    pub profile: Profile,
}

#[derive(Clone, Debug)]
pub struct BlockTruth {
    /// EDS width (= `header.square_width()`).
    pub width: u16,
    pub square: usize,
    /// Header time is inside the sampling window (by construction >= 60 s inside / >= 10 min outside).
    pub in_window: bool,
    /// Seconds left inside the window at generation time (negative: outside).
    pub remaining_s: i64,
}

pub struct RunOut {
    pub cfg: RunCfg,
    pub log: Vec<Ev>,
    pub truth: BTreeMap<u64, BlockTruth>,
    pub wall: Duration,
    /// Harness-side problem (never a verdict about lumina): run is discarded.
    pub harness_err: Option<String>,
    pub daser_fatal: Option<String>,
}

pub fn gen_cfg(rng: &mut ChaCha8Rng, profile: &Profile, steps: (usize, usize), tiny: bool) -> RunCfg {
    if tiny {
        return RunCfg {
            limit: rng.gen_range(1..=2),
            allowance: rng.gen_range(0..=1),
            window: Duration::from_secs(20 * 60),
            n: rng.gen_range(5..=7),
            n_old: rng.gen_range(0..=1),
            steps: rng.gen_range(15..=25),
            profile: profile.clone(),
        };
    }
    let limit = rng.gen_range(1..=profile.max_limit);
    let allowance = rng.gen_range(0..=profile.max_allowance);
    let window = Duration::from_secs(*[20 * 60u64, 2 * 3600, 12 * 3600].choose(rng).unwrap());
    let n = rng.gen_range(8..=36u64);
    let n_old = if rng.gen_bool(0.5) { rng.gen_range(0..=n / 3) } else { 0 };
    RunCfg {
        limit,
        allowance,
        window,
        n,
        n_old,
        steps: rng.gen_range(steps.0..=steps.1),
        profile: profile.clone(),
    }
}

// ---------------------------------------------------------------------------------------------
// Driver
// ---------------------------------------------------------------------------------------------

#[derive(Default)]
struct Shadow {
    /// Heights whose sampling the daser started and that may still be in progress (conservative).
    started: BTreeSet<u64>,
    fatal: Option<String>,
}

struct Pending {
    rid: u64,
    cid: Cid,
    h: u64,
    respond_to: VResponder<Vec<u8>>,
}

/// The network side of the mocked P2p, shared with the log sink: the command queue is emptied
/// (and every request logged) before *every* log entry, so a request the daser sent before a
/// store call is logged before that store call.
struct Inbox {
    handle: VP2pHandle,
    arrived: Vec<Pending>,
    next_rid: u64,
    unexpected: Option<String>,
}

struct Driver<'a> {
    rng: ChaCha8Rng,
    cfg: RunCfg,
    squares: &'a [Arc<Square>],
    headers: Vec<ExtendedHeader>, // headers[i] has height i+1
    truth: BTreeMap<u64, BlockTruth>,
    store: Arc<LoggedStore<InMemoryStore>>,
    inbox: Arc<Mutex<Inbox>>,
    daser: VDaser,
    log: Arc<EventLog<Ev>>,
    drain: Arc<dyn Fn() + Send + Sync>,
    shadow: Arc<Mutex<Shadow>>,
    pending: Vec<Pending>,
    connected: bool,
    granted: BTreeSet<u64>,
    /// Per height: is its current sampling sabotaged with a timeout? Drawn with `p_timeout` when
    /// first asked, re-drawn after every disconnection and after a removal of the height.
    sabotage: BTreeMap<u64, bool>,
    harness_err: Option<String>,
    max_timeout: Duration,
}

fn build_block(cid: &Cid, sq: &Square, col_axis: bool) -> Result<Vec<u8>, String> {
    let id = SampleId::try_from(cid).map_err(|e| format!("cid is not a sample id: {e}"))?;
    let axis = if col_axis { AxisType::Col } else { AxisType::Row };
    let sample = Sample::new(id.row_index(), id.column_index(), axis, &sq.eds)
        .map_err(|e| format!("Sample::new: {e}"))?;
    let mut buf = BytesMut::new();
    sample.encode(&mut buf);
    let block = Block {
        cid: cid.to_bytes(),
        container: buf.to_vec(),
    }
    .encode_to_vec();
    // Self-check of the harness: the block is what the real bitswap path would deliver (wrapper
    // accepted by `get_block_container`, container decodes and verifies against the block's DAH,
    // which is exactly what `ShwapMultihasher` demands).
    let cont = verif::shwap::get_block_container(cid, &block)?;
    let dec = Sample::decode(id, &cont).map_err(|e| format!("Sample::decode: {e}"))?;
    dec.verify(id, &sq.dah).map_err(|e| format!("Sample::verify: {e}"))?;
    Ok(block)
}

impl Driver<'_> {
    fn net(&self, e: NetEv) {
        (self.drain)();
        self.log.push(Ev::Net(e));
    }

    fn fatal(&self) -> bool {
        self.shadow.lock().unwrap().fatal.is_some()
    }

    async fn stored(&self) -> lumina_node::store::BlockRanges {
        unconstrained(self.store.inner.get_stored_header_ranges()).await.unwrap()
    }

    async fn sampled(&self) -> lumina_node::store::BlockRanges {
        unconstrained(self.store.inner.get_sampled_ranges()).await.unwrap()
    }

    /// Take every command currently queued at the mocked P2p; notice abandoned requests.
    async fn drain_cmds(&mut self) {
        (self.drain)();
        {
            let mut inbox = self.inbox.lock().unwrap();
            self.pending.append(&mut inbox.arrived);
            if let Some(e) = inbox.unexpected.take() {
                self.harness_err = Some(e);
            }
        }
        let mut i = 0;
        while i < self.pending.len() {
            if self.pending[i].respond_to.is_closed() {
                let p = self.pending.swap_remove(i);
                self.net(NetEv::Closed { rid: p.rid });
            } else {
                i += 1;
            }
        }
    }

    /// Answer pending request `idx` honestly. Returns false (request stays pending, at the same
    /// index) when no honest answer exists: height not in the chain or coordinate outside the
    /// square -- the oracle judges the chosen coordinates, the request just stays open.
    fn answer_ok(&mut self, idx: usize) -> bool {
        let (h, cid) = (self.pending[idx].h, self.pending[idx].cid);
        let Some(t) = self.truth.get(&h) else {
            return false;
        };
        let sq = &self.squares[t.square];
        let col_axis = self.rng.gen_bool(0.5);
        let Ok(block) = build_block(&cid, sq, col_axis) else {
            return false;
        };
        let p = self.pending.swap_remove(idx);
        let delivered = p.respond_to.send(Ok(block)).is_ok();
        self.net(NetEv::AnswerOk { rid: p.rid, delivered });
        true
    }

    fn answer_timeout(&mut self, idx: usize) {
        let p = self.pending.swap_remove(idx);
        let delivered = p.respond_to.send(Err(P2pError::RequestTimedOut)).is_ok();
        self.net(NetEv::AnswerTimeout { rid: p.rid, delivered });
    }

    async fn settle(&mut self, dur: Duration) {
        self.net(NetEv::Advance { ms: dur.as_millis() as u64 });
        tokio::time::sleep(dur).await;
        self.net(NetEv::Settled);
    }

    fn set_peers(&mut self, n: u64) {
        self.net(NetEv::Peers { n });
        self.inbox.lock().unwrap().handle.set_peer_tracker_info(PeerTrackerInfo {
            num_connected_peers: n,
            num_connected_trusted_peers: n.min(1),
            ..Default::default()
        });
        self.connected = n > 0;
    }

    async fn insert(&mut self, from: u64, to: u64) {
        if from < 1 || to > self.cfg.n || from > to {
            return;
        }
        let batch: Vec<ExtendedHeader> = self.headers[(from - 1) as usize..=(to - 1) as usize].to_vec();
        // errors (constraints not met) are legal outcomes for a random insertion
        let _ = unconstrained(self.store.insert(batch)).await;
    }

    async fn remove(&mut self, h: u64) {
        let _ = unconstrained(self.store.remove_height(h)).await;
        self.sabotage.remove(&h);
    }

    async fn step(&mut self) {
        let p = self.cfg.profile.clone();
        let weights = [
            p.w_answer,
            p.w_answer_block,
            p.w_timeout_err,
            p.w_sleep_short,
            p.w_sleep_long,
            p.w_insert_head,
            p.w_backfill,
            p.w_report,
            p.w_wtp,
            p.w_remove,
            p.w_toggle,
        ];
        let total: u32 = weights.iter().sum();
        let mut x = self.rng.gen_range(0..total);
        let mut action = 0;
        for (i, w) in weights.iter().enumerate() {
            if x < *w {
                action = i;
                break;
            }
            x -= *w;
        }
        match action {
            // answer 1..4 random pending requests honestly (arbitrary order)
            0 => {
                let k = self.rng.gen_range(1..=4);
                for _ in 0..k {
                    if self.pending.is_empty() {
                        break;
                    }
                    let idx = self.rng.gen_range(0..self.pending.len());
                    let h = self.pending[idx].h;
                    if self.sabotaged(h) && self.rng.gen_bool(0.5) {
                        continue;
                    }
                    self.answer_ok(idx);
                }
            }
            // answer all pending requests of one height (unless sabotaged: all but one)
            1 => {
                if !self.pending.is_empty() {
                    let h = self.pending[self.rng.gen_range(0..self.pending.len())].h;
                    let mut keep_one = self.sabotaged(h);
                    let mut i = 0;
                    while i < self.pending.len() {
                        if self.pending[i].h == h {
                            if keep_one {
                                keep_one = false;
                                i += 1;
                                continue;
                            }
                            if !self.answer_ok(i) {
                                i += 1;
                            }
                        } else {
                            i += 1;
                        }
                    }
                }
            }
            // bitswap-level timeout for one pending request (preferably of a sabotaged height)
            2 => {
                if !self.pending.is_empty() {
                    let sab: Vec<usize> = (0..self.pending.len())
                        .filter(|i| self.sabotage.get(&self.pending[*i].h) == Some(&true))
                        .collect();
                    let idx = if !sab.is_empty() {
                        sab[self.rng.gen_range(0..sab.len())]
                    } else if self.rng.gen_bool(0.3) {
                        self.rng.gen_range(0..self.pending.len())
                    } else {
                        return;
                    };
                    self.answer_timeout(idx);
                }
            }
            3 => {
                let ms = *[1u64, 1, 20, 100, 1_000, 9_000, 11_000].choose(&mut self.rng).unwrap();
                self.settle(Duration::from_millis(ms)).await;
            }
            // long sleeps: report interval (60 s) and the per-share timeouts (>= 60 s, up to hours)
            4 => {
                let max = self.max_timeout.as_secs();
                let s = match self.rng.gen_range(0..4) {
                    0 => 61,
                    1 => self.rng.gen_range(60..=150),
                    2 => self.rng.gen_range(60..=max.max(61)),
                    _ => max + 120,
                };
                self.settle(Duration::from_secs(s)).await;
            }
            // new head(s), contiguous or leaving a gap
            5 => {
                let stored = self.stored().await;
                let head = stored.head().unwrap_or(0);
                if head < self.cfg.n {
                    let gap = if self.rng.gen_bool(0.2) { self.rng.gen_range(1..=3) } else { 0 };
                    let from = (head + 1 + gap).min(self.cfg.n);
                    let k = if self.rng.gen_bool(0.7) { 1 } else { self.rng.gen_range(2..=3) };
                    let to = (from + k - 1).min(self.cfg.n);
                    self.insert(from, to).await;
                }
            }
            // backfill below / above an existing range (also re-inserts removed heights)
            6 => {
                let stored = self.stored().await;
                let rs: Vec<_> = stored.as_ref().to_vec();
                if !rs.is_empty() {
                    let r = &rs[self.rng.gen_range(0..rs.len())];
                    let k = self.rng.gen_range(1..=4u64);
                    if self.rng.gen_bool(0.7) {
                        let to = *r.start() - 1;
                        if to >= 1 {
                            let mut from = to.saturating_sub(k - 1).max(1);
                            while from <= to && stored.contains(from) {
                                from += 1;
                            }
                            // do not overlap the range below
                            let lo = (from..=to).rev().take_while(|h| !stored.contains(*h)).last();
                            if let Some(lo) = lo {
                                self.insert(lo, to).await;
                            }
                        }
                    } else {
                        let from = *r.end() + 1;
                        let hi = (from..from + k).take_while(|h| *h <= self.cfg.n && !stored.contains(*h)).last();
                        if let Some(hi) = hi {
                            self.insert(from, hi).await;
                        }
                    }
                }
            }
            // pruner reports
            7 => {
                if self.rng.gen_bool(0.5) {
                    let v = match self.rng.gen_range(0..5) {
                        0 => 0,
                        1 => self.cfg.n_old,
                        2 => self.rng.gen_range(1..=self.cfg.n),
                        3 => self.stored().await.head().unwrap_or(1),
                        _ => self.cfg.n + 5,
                    };
                    self.net(NetEv::ReportHp(v));
                    if unconstrained(self.daser.update_highest_prunable_block(v)).await.is_err() {
                        return;
                    }
                } else {
                    let v = *[0u64, 100, 511, 512, 512, 513, 5_000, 1 << 40].choose(&mut self.rng).unwrap();
                    self.net(NetEv::ReportNb(v));
                    if unconstrained(self.daser.update_number_of_prunable_blocks(v)).await.is_err() {
                        return;
                    }
                }
            }
            // pruner asks for permission (any height: stored, in progress, unknown)
            8 => {
                let stored = self.stored().await;
                let h = if self.rng.gen_bool(0.8) && !stored.is_empty() {
                    let all: Vec<u64> = stored.clone().collect();
                    if self.rng.gen_bool(0.5) {
                        // prefer the old / lowest area like the real pruner
                        all[self.rng.gen_range(0..all.len().min(4))]
                    } else {
                        all[self.rng.gen_range(0..all.len())]
                    }
                } else {
                    self.rng.gen_range(1..=self.cfg.n + 3)
                };
                self.net(NetEv::WtpSent { h });
                match self.daser.want_to_prune(h).await {
                    Ok(granted) => {
                        self.net(NetEv::WtpReply { h, granted });
                        if granted {
                            self.granted.insert(h);
                        }
                    }
                    Err(_) => {}
                }
            }
            // removals: legal pruner (sampled or granted) or rough (queued, unsampled, not in progress)
            9 => {
                let stored = self.stored().await;
                if stored.is_empty() {
                    return;
                }
                let sampled = self.sampled().await;
                let in_progress = self.shadow.lock().unwrap().started.clone();
                let all: Vec<u64> = stored.clone().collect();
                let cands: Vec<u64> = match self.rng.gen_range(0..10) {
                    0..=3 => all.iter().copied().filter(|h| sampled.contains(*h)).collect(),
                    4..=7 => all.iter().copied().filter(|h| self.granted.contains(h)).collect(),
                    _ => all.clone(),
                };
                let cands: Vec<u64> = cands.into_iter().filter(|h| !in_progress.contains(h)).collect();
                if let Some(h) = cands.choose(&mut self.rng).copied() {
                    // a removal must never hit a height with open requests of a live sampling
                    self.remove(h).await;
                }
            }
            // connectivity
            _ => {
                if self.connected {
                    if self.rng.gen_bool(0.4) {
                        // peer count changes but stays > 0: must have no effect
                        let n = self.rng.gen_range(1..=5);
                        self.set_peers(n);
                    } else {
                        self.set_peers(0);
                        if self.rng.gen_bool(0.5) && !self.pending.is_empty() {
                            let idx = self.rng.gen_range(0..self.pending.len());
                            self.answer_ok(idx);
                        }
                        self.settle(Duration::from_millis(1)).await;
                        // every reconnection re-draws which heights are sabotaged
                        self.sabotage.clear();
                    }
                } else {
                    let n = self.rng.gen_range(1..=3);
                    self.set_peers(n);
                }
            }
        }
    }

    fn sabotaged(&mut self, h: u64) -> bool {
        let p = self.cfg.profile.p_timeout;
        let rng = &mut self.rng;
        *self.sabotage.entry(h).or_insert_with(|| rng.gen_bool(p))
    }
}

fn node_ev(e: NodeEvent) -> Option<NodeEv> {
    match e {
        NodeEvent::SamplingStarted {
            height,
            square_width,
            shares,
        } => Some(NodeEv::Started {
            h: height,
            width: square_width,
            shares,
        }),
        NodeEvent::ShareSamplingResult {
            height,
            row,
            column,
            timed_out,
            ..
        } => Some(NodeEv::Share {
            h: height,
            row,
            col: column,
            timed_out,
        }),
        NodeEvent::SamplingResult {
            height, timed_out, ..
        } => Some(NodeEv::Result { h: height, timed_out }),
        NodeEvent::FatalDaserError { error } => Some(NodeEv::Fatal(error)),
        _ => None,
    }
}

/// Header times: heights 1..=n_old are >= 10 min older than the window; the others are inside,
/// with `remaining` (time left in the window) increasing from >= 60 s to at most
/// min(window - 120 s, 3 h), all >= 60 s in the past (header verification clock drift).
fn header_times(rng: &mut ChaCha8Rng, cfg: &RunCfg, now: Time) -> (Vec<Time>, Vec<i64>, Duration) {
    let w = cfg.window.as_secs() as i64;
    let r_max = (w - 120).min(3 * 3600);
    let n_in = (cfg.n - cfg.n_old) as usize;
    let mut rem: BTreeSet<i64> = BTreeSet::new();
    // some runs have short timeouts only (so that they expire with short virtual sleeps)
    let hi = if rng.gen_bool(0.4) { (60 + 2 * n_in as i64 + 120).min(r_max) } else { r_max };
    while rem.len() < n_in {
        rem.insert(rng.gen_range(60..=hi));
    }
    let mut times = Vec::new();
    let mut remaining = Vec::new();
    for i in 0..cfg.n_old {
        let back = w + 600 + (cfg.n_old - i) as i64 * 12;
        times.push(now.checked_sub(Duration::from_secs(back as u64)).unwrap());
        remaining.push(w - back);
    }
    for r in rem.iter() {
        times.push(now.checked_sub(Duration::from_secs((w - r) as u64)).unwrap());
        remaining.push(*r);
    }
    let max_timeout = Duration::from_secs(rem.iter().next_back().copied().unwrap_or(60) as u64);
    (times, remaining, max_timeout)
}

async fn drive(rng: ChaCha8Rng, cfg: RunCfg, squares: &[Arc<Square>]) -> RunOut {
    let wall = std::time::Instant::now();
    let mut rng = rng;
    let clock = Clock::new();
    let log: Arc<EventLog<Ev>> = EventLog::new();
    let events = VEventChannel::new();
    let sub: Arc<Mutex<EventSubscriber>> = Arc::new(Mutex::new(events.subscribe()));
    let shadow: Arc<Mutex<Shadow>> = Arc::new(Mutex::new(Shadow::default()));

    let (p2p, handle) = VP2p::mocked();
    let inbox = Arc::new(Mutex::new(Inbox {
        handle,
        arrived: Vec::new(),
        next_rid: 0,
        unexpected: None,
    }));
    let store_slot: Arc<Mutex<Option<Arc<LoggedStore<InMemoryStore>>>>> = Arc::new(Mutex::new(None));

    let drain: Arc<dyn Fn() + Send + Sync> = {
        let (sub, log, shadow, inbox, store_slot) = (sub.clone(), log.clone(), shadow.clone(), inbox.clone(), store_slot.clone());
        Arc::new(move || {
            let mut s = sub.lock().unwrap();
            while let Ok(info) = s.try_recv() {
                if let Some(ev) = node_ev(info.event) {
                    match &ev {
                        NodeEv::Result { h, timed_out: true } => {
                            shadow.lock().unwrap().started.remove(h);
                        }
                        NodeEv::Fatal(e) => shadow.lock().unwrap().fatal = Some(e.clone()),
                        _ => {}
                    }
                    log.push(Ev::Node(ev));
                }
            }
            let mut inbox = inbox.lock().unwrap();
            while let Some(cmd) = inbox.handle.try_recv_cmd() {
                match cmd {
                    VP2pCmd::GetShwapCid { cid, respond_to } => {
                        let rid = inbox.next_rid;
                        inbox.next_rid += 1;
                        let dec = decode_sample_cid(&cid);
                        // direct look into the (unwrapped) store; `None` when it cannot be had
                        // without waiting
                        let slot = store_slot.lock().unwrap();
                        let recorded = match (dec, slot.as_ref()) {
                            (Some((h, _, _)), Some(store)) => {
                                match store.inner.get_sampling_metadata(h).now_or_never() {
                                    Some(Ok(Some(m))) => Some(m.cids.contains(&cid)),
                                    Some(Ok(None)) => Some(false),
                                    _ => None,
                                }
                            }
                            _ => None,
                        };
                        log.push(Ev::Net(NetEv::Request { rid, cid, recorded }));
                        inbox.arrived.push(Pending {
                            rid,
                            cid,
                            h: dec.map(|d| d.0).unwrap_or(0),
                            respond_to,
                        });
                    }
                    other => {
                        inbox.unexpected = Some(format!("unexpected P2p command from the daser: {other:?}"));
                    }
                }
            }
        })
    };
    let sink: Sink<StoreEvent> = {
        let (drain, log, shadow) = (drain.clone(), log.clone(), shadow.clone());
        Arc::new(move |e: StoreEvent| {
            drain();
            match &e {
                StoreEvent::Call {
                    op: StoreOp::UpdateSamplingMetadata(h, _),
                    ..
                } => {
                    shadow.lock().unwrap().started.insert(*h);
                }
                StoreEvent::Return {
                    op: StoreOp::MarkAsSampled(h),
                    ..
                } => {
                    shadow.lock().unwrap().started.remove(h);
                }
                _ => {}
            }
            log.push(Ev::Store(e));
        })
    };
    let store = Arc::new(LoggedStore::new(InMemoryStore::new(), clock.clone(), sink));
    *store_slot.lock().unwrap() = Some(store.clone());

    // chain with real squares
    let now = Time::now();
    let (times, remaining, max_timeout) = header_times(&mut rng, &cfg, now);
    let mut chain = ChainGen::new(
        ChaCha8Rng::from_seed(rng.r#gen()),
        "c33net",
        3,
        &[1],
        1,
        times[0],
        Duration::from_secs(1),
    );
    let mut truth = BTreeMap::new();
    let mut headers = Vec::new();
    for i in 0..cfg.n as usize {
        // bias towards small squares, but every width regularly
        let nw = squares.len() / VARIANTS_PER_WIDTH;
        let wi = if rng.gen_bool(0.5) { rng.gen_range(0..nw.min(3)) } else { rng.gen_range(0..nw) };
        let si = wi * VARIANTS_PER_WIDTH + rng.gen_range(0..VARIANTS_PER_WIDTH);
        chain.time = times[i];
        let hdr = chain.next_with(Some(squares[si].dah.clone()), None, &[]);
        truth.insert(
            hdr.height(),
            BlockTruth {
                width: squares[si].eds_width(),
                square: si,
                in_window: remaining[i] > 0,
                remaining_s: remaining[i],
            },
        );
        headers.push(hdr);
    }

    let daser = match VDaser::start(&p2p, store.clone(), &events, cfg.window, cfg.limit, cfg.allowance) {
        Ok(d) => d,
        Err(e) => {
            return RunOut {
                cfg,
                log: vec![],
                truth,
                wall: wall.elapsed(),
                harness_err: Some(format!("Daser::start: {e}")),
                daser_fatal: None,
            };
        }
    };

    let mut d = Driver {
        rng,
        cfg: cfg.clone(),
        squares,
        headers,
        truth,
        store,
        inbox,
        daser,
        log: log.clone(),
        drain: drain.clone(),
        shadow,
        pending: Vec::new(),
        connected: false,
        granted: BTreeSet::new(),
        sabotage: BTreeMap::new(),
        harness_err: None,
        max_timeout,
    };

    // initial store content: a contiguous range (sometimes reaching into the old area)
    let lo = if d.rng.gen_bool(0.5) { 1 } else { d.rng.gen_range(1..=cfg.n / 2 + 1) };
    let hi = d.rng.gen_range(lo..=(cfg.n * 2 / 3).max(lo));
    d.insert(lo, hi).await;
    if d.rng.gen_bool(0.3) {
        // pruner state known before the first connection
        let v = d.rng.gen_range(1..=cfg.n);
        d.net(NetEv::ReportHp(v));
        let _ = d.daser.update_highest_prunable_block(v).await;
        let v = *[100u64, 512, 1000].choose(&mut d.rng).unwrap();
        d.net(NetEv::ReportNb(v));
        let _ = d.daser.update_number_of_prunable_blocks(v).await;
    }
    if d.rng.gen_bool(0.8) {
        d.set_peers(1);
    }

    for _ in 0..cfg.steps {
        d.drain_cmds().await;
        if d.fatal() || d.harness_err.is_some() {
            break;
        }
        d.step().await;
        match d.rng.gen_range(0..10) {
            0..=5 => tokio::task::yield_now().await,
            6..=7 => d.settle(Duration::from_millis(1)).await,
            _ => {}
        }
    }

    // final phase: connected, no more sabotage for most runs; let the daser finish what it can
    if !d.fatal() && d.harness_err.is_none() {
        if !d.connected {
            d.set_peers(1);
        }
        let generous = d.rng.gen_bool(0.7);
        let mut idle = 0;
        for _ in 0..400 {
            d.drain_cmds().await;
            if d.fatal() {
                break;
            }
            if d.pending.is_empty() {
                idle += 1;
                if idle > 2 {
                    break;
                }
            } else {
                idle = 0;
            }
            while !d.pending.is_empty() {
                let idx = d.rng.gen_range(0..d.pending.len());
                let h = d.pending[idx].h;
                if !generous && d.sabotaged(h) && d.rng.gen_bool(0.3) {
                    d.answer_timeout(idx);
                } else {
                    if !d.answer_ok(idx) {
                        // unanswerable request (outside the square): give it a timeout
                        d.answer_timeout(idx);
                    }
                }
            }
            d.settle(Duration::from_millis(1)).await;
        }
    }
    d.net(NetEv::Stop);
    d.daser.stop();
    d.daser.join().await;
    (d.drain)();

    // break the sink -> store -> sink reference cycle
    *store_slot.lock().unwrap() = None;
    let daser_fatal = d.shadow.lock().unwrap().fatal.clone();
    RunOut {
        cfg,
        log: log.snapshot(),
        truth: d.truth,
        wall: wall.elapsed(),
        harness_err: d.harness_err,
        daser_fatal,
    }
}

/// One complete run in its own paused current-thread runtime.
pub fn run_one(rng: ChaCha8Rng, cfg: RunCfg, squares: &[Arc<Square>]) -> RunOut {
    let rt = tokio::runtime::Builder::new_current_thread()
        .enable_time()
        .start_paused(true)
        .build()
        .expect("runtime");
    rt.block_on(drive(rng, cfg, squares))
}

/// Log excerpt for a witness: control events plus everything mentioning height `h`, up to `upto`.
pub fn excerpt(log: &[Ev], upto: usize, h: u64, rid_height: &BTreeMap<u64, u64>) -> Vec<String> {
    let mut out = Vec::new();
    for (i, e) in log.iter().enumerate().take(upto + 1) {
        let keep = match e {
            Ev::Store(StoreEvent::Call { op, .. }) | Ev::Store(StoreEvent::Return { op, .. }) => match op {
                StoreOp::UpdateSamplingMetadata(x, _)
                | StoreOp::MarkAsSampled(x)
                | StoreOp::RemoveHeight(x)
                | StoreOp::GetByHeight(x) => *x == h,
                StoreOp::Insert(v) => v.iter().any(|y| y.0 == h),
                StoreOp::GetStoredHeaderRanges => true,
                StoreOp::GetSampledRanges => matches!(e, Ev::Store(StoreEvent::Return { .. })),
                _ => false,
            },
            Ev::Node(NodeEv::Started { h: x, .. })
            | Ev::Node(NodeEv::Share { h: x, .. })
            | Ev::Node(NodeEv::Result { h: x, .. }) => *x == h,
            Ev::Node(NodeEv::Fatal(_)) => true,
            Ev::Net(NetEv::Request { cid, .. }) => decode_sample_cid(cid).map(|d| d.0) == Some(h),
            Ev::Net(NetEv::AnswerOk { rid, .. })
            | Ev::Net(NetEv::AnswerTimeout { rid, .. })
            | Ev::Net(NetEv::Closed { rid }) => rid_height.get(rid) == Some(&h),
            Ev::Net(NetEv::Advance { .. }) => false,
            Ev::Net(_) => true,
        };
        if keep {
            out.push(format!("{i}: {}", ev_str(e)));
        }
    }
    let n = out.len();
    if n > 120 {
        out.drain(..n - 120);
    }
    out
}

pub fn cfg_json(cfg: &RunCfg) -> vcore::Value {
    json!({
        "concurrency_limit": cfg.limit,
        "additional_headersub_concurrency": cfg.allowance,
        "sampling_window_s": cfg.window.as_secs(),
        "chain_heights": cfg.n,
        "heights_older_than_window": cfg.n_old,
        "steps": cfg.steps,
    })
}
