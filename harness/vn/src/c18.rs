//! C18 — store insertion constraints admit exactly the legal ranges.
//!
//! Code under observation: `BlockRanges::check_insertion_constraints` (public), the gate every
//! `Store::insert` implementation has to call.
//!
//! Oracle = the property text evaluated on an independent interval-set model (`ISet`, u128
//! arithmetic): a candidate `a..=b` is admitted  <=>  it is a valid range (1 <= a <= b), shares no
//! height with the stored set, and (nothing is stored  OR  a > highest stored height  OR  a-1 is
//! stored  OR  b+1 is stored). For an admitted candidate the returned pair must be
//! (a-1 is stored, b+1 is stored). The *kind* of error of a refused candidate is not part of the
//! text and is only counted.

use lumina_node::block_ranges::{BlockRanges, BlockRangesError};
use vcore::{Ctx, Rng, guard, json, panic_site, serde_json};

const MAX: u128 = u64::MAX as u128;

/// Model: sorted, disjoint, non-adjacent inclusive intervals over 1..=u64::MAX (copied from c17.rs).
#[derive(Clone, Debug, PartialEq, Eq, Hash, Default)]
pub struct ISet(pub Vec<(u64, u64)>);

impl ISet {
    pub fn normalize(mut v: Vec<(u64, u64)>) -> ISet {
        v.retain(|(a, b)| a <= b && *b >= 1);
        for x in v.iter_mut() {
            if x.0 == 0 {
                x.0 = 1;
            }
        }
        v.sort();
        let mut out: Vec<(u64, u64)> = Vec::new();
        for (a, b) in v {
            if let Some(last) = out.last_mut() {
                if (a as u128) <= last.1 as u128 + 1 {
                    if b > last.1 {
                        last.1 = b;
                    }
                    continue;
                }
            }
            out.push((a, b));
        }
        ISet(out)
    }
    pub fn from_mask(mask: u32) -> ISet {
        let mut v = Vec::new();
        for h in 1..=31u64 {
            if mask & (1 << h) != 0 {
                v.push((h, h));
            }
        }
        ISet::normalize(v)
    }
    /// Membership of a height given in u128 (so that `a-1` / `b+1` never wrap); 0 and values
    /// above u64::MAX are not heights.
    pub fn has(&self, h: u128) -> bool {
        h >= 1 && h <= MAX && self.0.iter().any(|(a, b)| (*a as u128) <= h && h <= (*b as u128))
    }
    pub fn head(&self) -> Option<u64> {
        self.0.last().map(|x| x.1)
    }
    /// Does the set share a height with a..=b (a <= b)?
    pub fn meets(&self, a: u64, b: u64) -> bool {
        self.0.iter().any(|(s, e)| *s.max(&a) <= *e.min(&b))
    }
}

fn from_model(m: &ISet) -> BlockRanges {
    BlockRanges::from_vec(m.0.iter().map(|(a, b)| *a..=*b).collect()).expect("model is normalized")
}

/// What the property text says about candidate a..=b on stored set `m`.
#[derive(Clone, Copy, Debug, PartialEq, Eq)]
enum Want {
    Refuse(&'static str),
    Admit(bool, bool, &'static str),
}

fn spec(m: &ISet, a: u64, b: u64) -> Want {
    if a == 0 || a > b {
        return Want::Refuse("invalid-range");
    }
    if m.meets(a, b) {
        return Want::Refuse("overlaps-stored");
    }
    let below = m.has(a as u128 - 1);
    let above = m.has(b as u128 + 1);
    match m.head() {
        None => Want::Admit(false, false, "empty-store"),
        Some(h) if a > h => Want::Admit(below, above, if below { "new-head-adjacent" } else { "new-head-with-gap" }),
        Some(_) => match (below, above) {
            (false, false) => Want::Refuse("detached-below-head"),
            (true, false) => Want::Admit(true, false, "extends-upwards"),
            (false, true) => Want::Admit(false, true, "extends-downwards"),
            (true, true) => Want::Admit(true, true, "fills-gap"),
        },
    }
}

#[derive(Default)]
struct Local {
    /// (counter name, count); looked up by the address of the literal (hot path), merged by name on flush
    counts: Vec<(&'static str, u64)>,
    evals: u64,
}

impl Local {
    fn c(&mut self, k: &'static str) {
        for e in self.counts.iter_mut() {
            if std::ptr::eq(e.0.as_ptr(), k.as_ptr()) && e.0.len() == k.len() {
                e.1 += 1;
                return;
            }
        }
        self.counts.push((k, 1));
    }
    fn flush(self, ctx: &Ctx) {
        ctx.evals(self.evals);
        for (k, v) in self.counts {
            ctx.count_n(k, v);
        }
    }
}

fn check(ctx: &Ctx, loc: &mut Local, m: &ISet, r: &BlockRanges, a: u64, b: u64) {
    loc.evals += 1;
    let want = spec(m, a, b);
    let at_max = b == u64::MAX || m.head() == Some(u64::MAX);
    let suffix = if at_max { "-at-u64max" } else { "" };
    let detail = || json!({"stored": format!("{:?}", m.0), "candidate": format!("{a}..={b}"), "text_says": format!("{want:?}"),
        "replay": {"stored_ranges": m.0, "a": a, "b": b}});
    let got = match guard(|| r.check_insertion_constraints(a..=b)) {
        Ok(v) => v,
        Err(p) => {
            ctx.violation(
                &format!("C18/check_insertion_constraints/panic/{}", panic_site(&p)),
                &format!("panicked on stored {:?}, candidate {a}..={b}: {p}", m.0),
                detail(),
            );
            return;
        }
    };
    // workload class (from the model, independent of what the code answered)
    loc.c(match want {
        Want::Admit(_, _, "empty-store") => "legal_empty_store",
        Want::Admit(_, _, "new-head-adjacent") => "legal_new_head_adjacent",
        Want::Admit(_, _, "new-head-with-gap") => "legal_new_head_with_gap",
        Want::Admit(_, _, "extends-upwards") => "legal_extends_upwards",
        Want::Admit(_, _, "extends-downwards") => "legal_extends_downwards",
        Want::Admit(..) => "legal_fills_gap",
        Want::Refuse("invalid-range") => "illegal_invalid_range",
        Want::Refuse("overlaps-stored") => "illegal_overlap",
        Want::Refuse(_) => "illegal_detached_below_head",
    });
    loc.c(if got.is_ok() { "code_admitted" } else { "code_refused" });
    match (&got, want) {
        (Ok((p, n)), Want::Admit(wp, wn, class)) => {
            if (*p, *n) != (wp, wn) {
                ctx.violation(
                    &format!("C18/check_insertion_constraints/wrong-flags/{class}{suffix}"),
                    &format!(
                        "stored {:?}, candidate {a}..={b}: returned (below stored, above stored) = ({p},{n}), set says ({wp},{wn})",
                        m.0
                    ),
                    detail(),
                );
            }
        }
        (Err(e), Want::Refuse(class)) => {
            // error kind: not demanded by the text, only recorded
            let kind_ok = matches!(
                (class, e),
                ("invalid-range", BlockRangesError::InvalidBlockRange(_))
                    | ("overlaps-stored", BlockRangesError::BlockRangeOverlap(..))
                    | ("detached-below-head", BlockRangesError::NoAdjacentNeighbors(_))
            );
            if !kind_ok {
                loc.c("refused_with_unexpected_error_kind");
            }
        }
        (Ok((p, n)), Want::Refuse(class)) => {
            ctx.violation(
                &format!("C18/check_insertion_constraints/admits-illegal/{class}{suffix}"),
                &format!("stored {:?}: candidate {a}..={b} ({class}) admitted with flags ({p},{n})", m.0),
                detail(),
            );
        }
        (Err(e), Want::Admit(_, _, class)) => {
            ctx.violation(
                &format!("C18/check_insertion_constraints/refuses-legal/{class}{suffix}"),
                &format!("stored {:?}: legal candidate {a}..={b} ({class}) refused: {e}", m.0),
                detail(),
            );
        }
    }
    if at_max {
        loc.c("cases_touching_u64max");
    }
}

fn pool(rng: &mut impl Rng) -> u64 {
    match rng.gen_range(0..10) {
        0 => rng.gen_range(1..4),
        1 => rng.gen_range(1..40),
        2 => u64::MAX - rng.gen_range(0..6),
        3 => u64::MAX,
        4 => (1u64 << 32) - 2 + rng.gen_range(0..4),
        5 => rng.gen_range(1..1000),
        6 => u64::MAX / 2 + rng.gen_range(0..4),
        7 => 0,
        _ => rng.gen_range(1..200),
    }
}

fn random_set(rng: &mut impl Rng) -> ISet {
    let n = rng.gen_range(0..6);
    let mut v = Vec::new();
    for _ in 0..n {
        let a = pool(rng).max(1);
        let l = match rng.gen_range(0..4) {
            0 => 0,
            1 => rng.gen_range(0..5),
            2 => rng.gen_range(0..100),
            _ => rng.r#gen::<u64>() >> rng.gen_range(0..64),
        };
        v.push((a, a.saturating_add(l)));
    }
    ISet::normalize(v)
}

/// An endpoint near the structure of the set (range edges +-2), or from the pool.
fn endpoint(rng: &mut impl Rng, m: &ISet) -> u64 {
    if m.0.is_empty() || rng.gen_range(0..5) == 0 {
        return pool(rng);
    }
    let (s, e) = m.0[rng.gen_range(0..m.0.len())];
    let base = if rng.gen_bool(0.5) { s } else { e };
    let d = rng.gen_range(0..5u64);
    if rng.gen_bool(0.5) { base.saturating_add(d.min(2)) } else { base.saturating_sub(d.min(2)) }
}

pub fn run(ctx: &Ctx) {
    ctx.rule(
        "(a) every stored subset of heights 1..=N (N=10 quick, 12 thorough) x every candidate a..=b with a,b in \
         0..=N+2 (includes height 0 and inverted ranges), plus the candidates ending at u64::MAX; (b) random \
         stored sets over the pool {small, 2^32±, 2^63±, u64::MAX-k, u64::MAX} with candidates whose endpoints \
         sit within ±2 of range edges or come from the pool. Every call is compared with the property text \
         evaluated on the ISet model; counters legal_*/illegal_* give the class of each call according to the model (floors: every class occurs). Non-trivial = stored set \
         (small universe) / (stored set, candidate) (random).",
    );
    ctx.assume("ISet interval model (u128 arithmetic) is the specification of 'set of stored heights'");
    ctx.assume("the kind of error returned for a refused range is not part of the property (recorded only)");

    // --replay FILE: re-observe exactly the recorded witness
    if let Some(w) = ctx.replay.as_ref().map(|r| &r["detail"]["replay"]) {
        match (serde_json::from_value::<Vec<(u64, u64)>>(w["stored_ranges"].clone()), w["a"].as_u64(), w["b"].as_u64()) {
            (Ok(v), Some(a), Some(b)) => {
                let m = ISet::normalize(v);
                let mut loc = Local::default();
                check(ctx, &mut loc, &m, &from_model(&m), a, b);
                loc.flush(ctx);
            }
            _ => ctx.inconclusive("replay file carries no C18 witness"),
        }
        return;
    }

    let n = ctx.scale(10u32, 12u32);
    let top = n as u64 + 2;
    let shards = ctx.cores();
    let masks: Vec<u32> = (0..(1u32 << n)).map(|m| m << 1).collect();
    ctx.par(shards, |shard| {
        let mut loc = Local::default();
        for (i, mask) in masks.iter().enumerate() {
            if i % shards != shard {
                continue;
            }
            let m = ISet::from_mask(*mask);
            let r = from_model(&m);
            for a in 0..=top {
                for b in 0..=top {
                    check(ctx, &mut loc, &m, &r, a, b);
                }
                check(ctx, &mut loc, &m, &r, a, u64::MAX);
                check(ctx, &mut loc, &m, &r, a, u64::MAX - 1);
            }
            check(ctx, &mut loc, &m, &r, u64::MAX, u64::MAX);
            ctx.nontrivial(&("small", mask));
            loc.c("small_universe_sets");
        }
        loc.flush(ctx);
    });
    ctx.extra("small_universe_heights", json!(n));
    ctx.extra("small_universe_exhaustive", json!(true));

    let cases = ctx.scale(800_000u64, 30_000_000u64);
    let per = 12;
    ctx.par(shards, |shard| {
        let mut loc = Local::default();
        for case in (shard as u64..cases).step_by(shards) {
            let mut rng = ctx.rng(1, case);
            let m = random_set(&mut rng);
            let r = from_model(&m);
            for _ in 0..per {
                let a = endpoint(&mut rng, &m);
                let b = match rng.gen_range(0..4) {
                    0 => a,
                    1 => a.saturating_add(rng.gen_range(0..4)),
                    _ => endpoint(&mut rng, &m),
                };
                let (a, b) = if a > b && rng.gen_range(0..8) != 0 { (b, a) } else { (a, b) };
                check(ctx, &mut loc, &m, &r, a, b);
                if case % 64 == 0 {
                    ctx.nontrivial(&("rand", &m, a, b));
                }
                if case % 512 == 0 {
                    ctx.sample(|| json!({"stored": format!("{:?}", m.0), "candidate": format!("{a}..={b}"), "text_says": format!("{:?}", spec(&m, a, b))}));
                }
            }
            loc.c("random_sets");
        }
        loc.flush(ctx);
    });

    for (k, min) in [
        ("small_universe_sets", 1u64 << n),
        ("legal_empty_store", 50),
        ("legal_new_head_adjacent", 1000),
        ("legal_new_head_with_gap", 1000),
        ("legal_extends_upwards", 1000),
        ("legal_extends_downwards", 1000),
        ("legal_fills_gap", 1000),
        ("illegal_invalid_range", 1000),
        ("illegal_overlap", 1000),
        ("illegal_detached_below_head", 1000),
        ("cases_touching_u64max", 1000),
    ] {
        ctx.floor(k, min);
    }
}
