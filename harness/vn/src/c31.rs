//! C31 — network head selection follows the best-head rule.
//!
//! The real `HeaderExClientHandler` (through `VHeaderExClient`, with the recording request sender)
//! is driven in tokio *virtual* time against a real `PeerTracker` population. The harness plays the
//! network: every head request the client sends is answered according to a per-peer script (valid
//! single header of a chosen height/hash, invalid header, garbage, not-found, invalid status,
//! several headers, empty list, each `OutboundFailure`) in a random completion order, while 1..4
//! callers join at random moments.
//!
//! Oracle over the recorded history:
//!   * every head request goes to a peer that the tracker handed to the client as connected *and*
//!     trusted at that scheduling call;
//!   * when callers are answered, all callers waiting at that moment receive the same header, and
//!     that header is, among the headers *reported* (single valid header answers) since the
//!     previous resolution: the highest one reported by >= 2 peers if any header has such
//!     agreement, otherwise a highest reported one (ties between different headers of the same
//!     height: any of them);
//!   * nobody is answered with a header while nothing has been reported; nobody is left waiting
//!     when the others were answered.
//! "Validity" of an answer is known by construction (ChainGen headers vs. deliberately broken ones).

use std::collections::{BTreeMap, HashMap};
use std::sync::Arc;
use std::sync::atomic::{AtomicBool, Ordering};
use std::task::{Context, Poll, Wake, Waker};
use std::time::Duration;

use celestia_proto::p2p::pb::header_request::Data;
use celestia_proto::p2p::pb::{HeaderRequest, HeaderResponse};
use celestia_types::ExtendedHeader;
use libp2p::PeerId;
use libp2p::request_response::OutboundFailure;
use libp2p::swarm::ConnectionId;
use lumina_node::node::P2pError;
use lumina_node::verif::header_ex::{VEvent, VHeaderExClient};
use lumina_node::verif::{VEventChannel, VPeerTracker};
use tendermint_proto::Protobuf;
use tokio::sync::oneshot;
use vcore::{ChaCha8Rng, Ctx, Rng, SliceRandom, guard, json, panic_site};
use vgen::chain::ChainGen;

struct Flag(AtomicBool);
impl Wake for Flag {
    fn wake(self: Arc<Self>) {
        self.0.store(true, Ordering::SeqCst);
    }
    fn wake_by_ref(self: &Arc<Self>) {
        self.0.store(true, Ordering::SeqCst);
    }
}

fn peer_id(rng: &mut impl Rng) -> PeerId {
    // identity multihash over 32 random bytes wrapped as an ed25519 protobuf key is not needed:
    // any valid multihash with code 0x00 (identity) or 0x12 (sha2-256) is a PeerId
    let mut digest = [0u8; 32];
    rng.fill_bytes(&mut digest);
    let mut bytes = vec![0x12, 0x20];
    bytes.extend_from_slice(&digest);
    PeerId::from_bytes(&bytes).expect("sha2-256 multihash is a valid PeerId")
}

/// Poll the client until it is quiescent (Pending and nobody asked for another poll).
/// `None` = did not become quiescent within the poll budget (harness watchdog).
fn poll_all(client: &mut VHeaderExClient, flag: &Arc<Flag>) -> Option<Vec<VEvent>> {
    let waker = Waker::from(flag.clone());
    let mut cx = Context::from_waker(&waker);
    let mut evs = Vec::new();
    for _ in 0..20_000 {
        flag.0.store(false, Ordering::SeqCst);
        match client.poll(&mut cx) {
            Poll::Ready(ev) => {
                let again = ev != VEvent::SchedulePendingRequests;
                evs.push(ev);
                // a tick is handed to the caller at once (the interval would otherwise keep
                // returning Ready only after time advances, so this is just an early exit)
                if !again {
                    return Some(evs);
                }
            }
            Poll::Pending => {
                if !flag.0.load(Ordering::SeqCst) {
                    return Some(evs);
                }
            }
        }
    }
    None
}

/// Poll to real quiescence. lumina's response task uses `tokio::task::yield_now`, whose wake-up is
/// deferred until the runtime gets control, so after a Pending poll the harness yields once to the
/// runtime and polls again if that woke the client. Returns early with a scheduling tick.
async fn quiesce(client: &mut VHeaderExClient, flag: &Arc<Flag>) -> Option<Vec<VEvent>> {
    let mut all = Vec::new();
    for _ in 0..2_000 {
        let evs = poll_all(client, flag)?;
        let tick = evs.contains(&VEvent::SchedulePendingRequests);
        all.extend(evs);
        if tick {
            return Some(all);
        }
        flag.0.store(false, Ordering::SeqCst);
        tokio::task::yield_now().await;
        if !flag.0.load(Ordering::SeqCst) {
            return Some(all);
        }
    }
    None
}

fn is_head(r: &HeaderRequest) -> bool {
    matches!((&r.data, r.amount), (Some(Data::Origin(0)), 1))
}

struct Pool {
    /// valid headers: several heights, several different headers per height
    valid: Vec<ExtendedHeader>,
    valid_resp: Vec<HeaderResponse>,
    /// encoded headers that fail validation in several independent ways
    broken: Vec<HeaderResponse>,
}

#[derive(Clone, Debug)]
enum Ans {
    Valid(usize),
    Broken(usize),
    Garbage,
    EmptyBodyOk,
    NotFound,
    InvalidStatus,
    Multi(usize, usize),
    EmptyList,
    Fail(u8),
}

fn failure(k: u8) -> OutboundFailure {
    match k % 5 {
        0 => OutboundFailure::DialFailure,
        1 => OutboundFailure::Timeout,
        2 => OutboundFailure::ConnectionClosed,
        3 => OutboundFailure::UnsupportedProtocols,
        _ => OutboundFailure::Io(std::io::Error::new(std::io::ErrorKind::BrokenPipe, "harness")),
    }
}

fn ok_resp(body: Vec<u8>) -> HeaderResponse {
    HeaderResponse { body, status_code: 1 }
}

impl Ans {
    fn reported(&self) -> Option<usize> {
        match self {
            Ans::Valid(i) => Some(*i),
            _ => None,
        }
    }
    fn label(&self) -> &'static str {
        match self {
            Ans::Valid(_) => "valid",
            Ans::Broken(_) => "invalid-header",
            Ans::Garbage => "garbage",
            Ans::EmptyBodyOk => "empty-body",
            Ans::NotFound => "not-found",
            Ans::InvalidStatus => "invalid-status",
            Ans::Multi(..) => "multi-header",
            Ans::EmptyList => "empty-list",
            Ans::Fail(_) => "failure",
        }
    }
}

/// A scenario profile decides how answers are distributed so that every branch of the rule
/// (agreement high, agreement low + lone high, no agreement, ties, nothing valid) is common.
fn gen_answers(rng: &mut impl Rng, pool: &Pool, n: usize) -> Vec<Ans> {
    let nv = pool.valid.len();
    let profile = rng.gen_range(0..8);
    let bad = |rng: &mut dyn vcore::RngCore| -> Ans {
        match rng.gen_range(0..9) {
            0 => Ans::Broken(rng.gen_range(0..pool.broken.len())),
            1 => Ans::Garbage,
            2 => Ans::EmptyBodyOk,
            3 => Ans::NotFound,
            4 => Ans::InvalidStatus,
            5 => Ans::Multi(rng.gen_range(0..nv), rng.gen_range(0..nv)),
            6 => Ans::EmptyList,
            _ => Ans::Fail(rng.gen_range(0..5)),
        }
    };
    let mut v: Vec<Ans> = Vec::with_capacity(n);
    match profile {
        // nothing valid at all
        0 => {
            for _ in 0..n {
                v.push(bad(rng));
            }
        }
        // all agree
        1 => {
            let h = rng.gen_range(0..nv);
            for _ in 0..n {
                v.push(Ans::Valid(h));
            }
        }
        // an agreed header plus lone ones (possibly higher), plus junk
        2 | 3 => {
            let agreed = rng.gen_range(0..nv);
            for i in 0..n {
                v.push(if i < 2 {
                    Ans::Valid(agreed)
                } else if rng.gen_bool(0.6) {
                    Ans::Valid(rng.gen_range(0..nv))
                } else {
                    bad(rng)
                });
            }
        }
        // all different where possible (no agreement)
        4 => {
            let mut idx: Vec<usize> = (0..nv).collect();
            idx.shuffle(rng);
            for i in 0..n {
                v.push(if i < nv && rng.gen_bool(0.8) { Ans::Valid(idx[i]) } else { bad(rng) });
            }
        }
        // fully random
        _ => {
            for _ in 0..n {
                v.push(if rng.gen_bool(0.65) { Ans::Valid(rng.gen_range(0..nv)) } else { bad(rng) });
            }
        }
    }
    v.shuffle(rng);
    v
}

struct Caller {
    rx: oneshot::Receiver<Result<Vec<ExtendedHeader>, P2pError>>,
    id: usize,
}

#[derive(Clone, Debug)]
struct PeerInfo {
    trusted: bool,
    connected: bool,
}

/// The text's rule on a multiset of reports; returns the acceptable header indices and the branch.
fn acceptable(pool: &Pool, reports: &[usize]) -> (Vec<usize>, &'static str) {
    if reports.is_empty() {
        return (vec![], "nothing-reported");
    }
    let mut count: BTreeMap<usize, usize> = BTreeMap::new();
    for r in reports {
        *count.entry(*r).or_default() += 1;
    }
    let agreed: Vec<usize> = count.iter().filter(|(_, c)| **c >= 2).map(|(i, _)| *i).collect();
    let (cands, branch): (Vec<usize>, &str) = if !agreed.is_empty() {
        (agreed, "agreement")
    } else {
        (count.keys().copied().collect(), "no-agreement")
    };
    let maxh = cands.iter().map(|i| pool.valid[*i].height()).max().unwrap();
    (cands.into_iter().filter(|i| pool.valid[*i].height() == maxh).collect(), branch)
}

struct Run<'a> {
    ctx: &'a Ctx,
    log: Vec<String>,
}

impl Run<'_> {
    fn note(&mut self, s: String) {
        if self.log.len() < 400 {
            self.log.push(s);
        }
    }
    fn viol(&self, sig: &str, msg: String) {
        self.ctx.violation(sig, &msg, json!({"history": self.log}));
    }
}

/// One world: one client, one peer population, up to `max_resolutions` resolutions.
async fn world(ctx: &Ctx, pool: &Pool, rng: &mut ChaCha8Rng, flag: &Arc<Flag>) {
    let mut run = Run { ctx, log: Vec::new() };
    let events = VEventChannel::new();
    let mut tracker = VPeerTracker::new(&events);
    let mut client = VHeaderExClient::new();

    // population
    let n_peers = if rng.gen_range(0..10) == 0 { rng.gen_range(11..=14) } else { rng.gen_range(1..=10) };
    let mut peers: Vec<PeerId> = Vec::new();
    let mut next_conn = 0usize;
    let trusted_bias = *[0.5, 0.8, 1.0].choose(rng).unwrap();
    for _ in 0..n_peers {
        let p = peer_id(rng);
        let trusted = rng.gen_bool(trusted_bias);
        let connected = rng.gen_bool(0.85);
        if trusted {
            tracker.set_trusted(&p, true);
        }
        if connected {
            tracker.add_connection(&p, ConnectionId::new_unchecked(next_conn));
            next_conn += 1;
            if rng.gen_range(0..8) == 0 {
                // connected, then disconnected again: known but not connected
                tracker.remove_connection(&p, ConnectionId::new_unchecked(next_conn - 1));
            }
        } else if !trusted {
            tracker.add_peer_id(&p);
        }
        if rng.gen_range(0..4) == 0 {
            tracker.mark_as_archival(&p);
        }
        peers.push(p);
    }
    let snapshot = |t: &VPeerTracker| -> HashMap<PeerId, PeerInfo> {
        t.peers().into_iter().map(|v| (v.id, PeerInfo { trusted: v.trusted, connected: v.connected })).collect()
    };
    let usable = |t: &VPeerTracker| t.peers().iter().filter(|v| v.trusted && v.connected).count();
    run.note(format!(
        "population: {} peers, {} connected+trusted, {} connected untrusted, {} trusted not connected",
        n_peers,
        usable(&tracker),
        tracker.peers().iter().filter(|v| v.connected && !v.trusted).count(),
        tracker.peers().iter().filter(|v| !v.connected && v.trusted).count()
    ));
    if usable(&tracker) == 0 {
        ctx.count("worlds/no-usable-peer");
    }
    if usable(&tracker) > 10 {
        ctx.count("worlds/more-than-10-usable-peers");
    }

    let mut callers: Vec<Caller> = Vec::new();
    let mut next_caller = 0usize;
    let mut cancelled = 0usize;
    // outstanding sends: (req_id, peer, scripted answer)
    let mut outstanding: Vec<(u64, PeerId, Ans)> = Vec::new();
    // reports delivered to the client since the last resolution
    let mut reports: Vec<usize> = Vec::new();
    let mut delivered_since_resolution = 0usize;
    let mut resolutions = 0usize;
    let max_resolutions = rng.gen_range(1..=3);
    let total_callers = rng.gen_range(1..=4);
    let mut joined = 0usize;
    let mut rounds = 0usize;
    let mut idle_steps = 0usize;

    for step in 0..400 {
        // choose an action
        let can_join = joined < total_callers * max_resolutions && callers.len() < 4;
        if step > 12 && usable(&tracker) == 0 {
            break;
        }
        let action = if callers.is_empty() && outstanding.is_empty() {
            if can_join { 0 } else { break }
        } else {
            match rng.gen_range(0..10) {
                0 | 1 if can_join => 0,
                2..=5 if !outstanding.is_empty() => 1,
                6 if !callers.is_empty() && rng.gen_range(0..6) == 0 => 3,
                _ => 2,
            }
        };
        match action {
            // a caller joins
            0 => {
                let (tx, rx) = oneshot::channel();
                client.on_send_request(HeaderRequest { data: Some(Data::Origin(0)), amount: 1 }, tx);
                run.note(format!("step {step}: caller {next_caller} joins"));
                callers.push(Caller { rx, id: next_caller });
                next_caller += 1;
                joined += 1;
                ctx.count(if outstanding.is_empty() { "callers/joined-before-round" } else { "callers/joined-mid-round" });
            }
            // the network answers one outstanding request
            1 => {
                let i = rng.gen_range(0..outstanding.len());
                let (id, peer, ans) = outstanding.swap_remove(i);
                ctx.count(&format!("answers/{}", ans.label()));
                run.note(format!("step {step}: peer {} answers req {id}: {}", short(&peer), describe(pool, &ans)));
                match &ans {
                    Ans::Fail(k) => client.on_failure(peer, id, failure(*k)),
                    a => client.on_response_received(peer, id, responses(pool, a, rng)),
                }
                if let Some(r) = ans.reported() {
                    reports.push(r);
                }
                delivered_since_resolution += 1;
            }
            // time passes
            2 => {
                tokio::time::advance(Duration::from_millis(100)).await;
            }
            // a caller gives up
            _ => {
                let i = rng.gen_range(0..callers.len());
                let c = callers.swap_remove(i);
                run.note(format!("step {step}: caller {} cancels", c.id));
                cancelled += 1;
                drop(c);
            }
        }

        // let the client work; serve its scheduling ticks like the swarm loop does
        let mut scheduled = false;
        for _ in 0..4 {
            let Some(evs) = quiesce(&mut client, flag).await else {
                ctx.inconclusive("harness watchdog: client did not become quiescent");
                return;
            };
            if evs.contains(&VEvent::SchedulePendingRequests) {
                let snap = snapshot(&tracker);
                client.schedule_pending_requests(&tracker);
                scheduled = true;
                let sent = client.take_sent();
                if !sent.is_empty() {
                    if outstanding.is_empty() {
                        // a new round after the previous one was answered completely (possibly with
                        // no caller left to tell): its reports are what this round's answer is about
                        reports.clear();
                        delivered_since_resolution = 0;
                    }
                    rounds += 1;
                    ctx.count("rounds");
                    ctx.eval();
                    let answers = gen_answers(rng, pool, sent.len());
                    run.note(format!("step {step}: schedule -> {} head request(s)", sent.len()));
                    for ((id, peer, req), ans) in sent.into_iter().zip(answers) {
                        if !is_head(&req) {
                            run.viol("C31/send/not-a-head-request", format!("client sent {req:?} although only head requests were submitted"));
                            continue;
                        }
                        ctx.count("sends");
                        match snap.get(&peer) {
                            None => run.viol("C31/send/to-unknown-peer", format!("head request sent to {} which the tracker does not know", short(&peer))),
                            Some(i) if !i.connected => run.viol("C31/send/to-disconnected-peer", format!("head request sent to {} which is not connected", short(&peer))),
                            Some(i) if !i.trusted => run.viol("C31/send/to-untrusted-peer", format!("head request sent to {} which is not trusted", short(&peer))),
                            Some(_) => ctx.count("sends/to-connected-trusted"),
                        }
                        outstanding.push((id, peer, ans));
                    }
                }
            } else {
                break;
            }
        }
        let _ = scheduled;

        // observe the callers
        let mut answered: Vec<(usize, Result<Vec<ExtendedHeader>, P2pError>)> = Vec::new();
        let mut still: Vec<Caller> = Vec::new();
        for mut c in callers.drain(..) {
            match c.rx.try_recv() {
                Ok(res) => answered.push((c.id, res)),
                Err(oneshot::error::TryRecvError::Empty) => still.push(c),
                Err(oneshot::error::TryRecvError::Closed) => {
                    run.viol("C31/answer/caller-dropped-without-answer", format!("caller {}'s channel was closed without an answer", c.id));
                }
            }
        }
        callers = still;
        if answered.is_empty() {
            idle_steps += 1;
            continue;
        }
        idle_steps = 0;
        resolutions += 1;
        ctx.count("resolutions");
        let (acc, branch) = acceptable(pool, &reports);
        run.note(format!(
            "step {step}: callers {:?} answered; reports since last resolution: {:?}; acceptable: {:?}",
            answered.iter().map(|a| a.0).collect::<Vec<_>>(),
            reports.iter().map(|i| hdr(pool, *i)).collect::<Vec<_>>(),
            acc.iter().map(|i| hdr(pool, *i)).collect::<Vec<_>>()
        ));
        // everybody waiting at this moment must have been answered
        if !callers.is_empty() {
            run.viol(
                "C31/answer/some-waiting-callers-not-answered",
                format!("callers {:?} were answered but {:?} are still waiting", answered.iter().map(|a| a.0).collect::<Vec<_>>(), callers.iter().map(|c| c.id).collect::<Vec<_>>()),
            );
        }
        let mut got: Vec<Option<usize>> = Vec::new();
        for (id, res) in &answered {
            match res {
                Ok(v) if v.len() == 1 => {
                    let idx = pool.valid.iter().position(|h| h == &v[0]);
                    if idx.is_none() {
                        run.viol("C31/answer/unreported-header", format!("caller {id} received a header (height {}) that no peer was scripted to report", v[0].height()));
                    }
                    got.push(idx);
                }
                Ok(v) => {
                    run.viol("C31/answer/not-a-single-header", format!("caller {id} received {} headers for a head request", v.len()));
                    got.push(None);
                }
                Err(e) => {
                    if reports.is_empty() {
                        ctx.count("answers-to-callers/error-with-nothing-reported");
                    } else {
                        run.viol("C31/answer/error-despite-reports", format!("caller {id} received error {e} although valid heads were reported"));
                    }
                    got.push(None);
                }
            }
        }
        let oks: Vec<usize> = got.iter().flatten().copied().collect();
        if oks.len() == answered.len() && !oks.is_empty() {
            if oks.iter().any(|i| *i != oks[0]) {
                run.viol("C31/answer/callers-disagree", format!("callers answered in the same resolution received different headers: {:?}", oks.iter().map(|i| hdr(pool, *i)).collect::<Vec<_>>()));
            }
            for i in oks.iter().take(1) {
                if acc.contains(i) {
                    ctx.count(&format!("confirmed/{branch}"));
                    let distinct_heights = reports.iter().map(|r| pool.valid[*r].height()).collect::<std::collections::BTreeSet<_>>().len();
                    if branch == "agreement" && reports.iter().any(|r| pool.valid[*r].height() > pool.valid[*i].height()) {
                        ctx.count("confirmed/agreement-beats-higher-lone-header");
                    }
                    if branch == "no-agreement" && distinct_heights > 1 {
                        ctx.count("confirmed/no-agreement-highest-of-several");
                    }
                    if acc.len() > 1 {
                        ctx.count("confirmed/tie-between-equal-heights");
                    }
                    if answered.len() > 1 {
                        ctx.count("confirmed/several-callers-same-answer");
                    }
                    let mut key = reports.clone();
                    key.sort();
                    ctx.nontrivial(&(key, answered.len(), delivered_since_resolution));
                    ctx.sample(|| json!({"history": run.log}));
                } else {
                    let kind = if reports.is_empty() {
                        "nothing-reported"
                    } else if !reports.contains(i) {
                        "header-not-reported-in-this-round"
                    } else if branch == "agreement" {
                        let agreed_here = reports.iter().filter(|r| *r == i).count() >= 2;
                        if agreed_here { "agreed-but-not-highest-agreed" } else { "agreed-header-ignored" }
                    } else {
                        "not-highest-reported"
                    };
                    run.viol(
                        &format!("C31/answer/not-best-head/{kind}"),
                        format!(
                            "callers received {} but the rule allows only {:?} (reports: {:?})",
                            hdr(pool, *i),
                            acc.iter().map(|x| hdr(pool, *x)).collect::<Vec<_>>(),
                            reports.iter().map(|x| hdr(pool, *x)).collect::<Vec<_>>()
                        ),
                    );
                }
            }
        }
        if !outstanding.is_empty() {
            ctx.count("resolutions/with-requests-still-outstanding");
        }
        reports.clear();
        delivered_since_resolution = 0;
        if resolutions >= max_resolutions {
            break;
        }
    }
    let _ = (idle_steps, rounds, cancelled);
    if !callers.is_empty() {
        ctx.count("worlds/ended-with-waiting-callers");
        if usable(&tracker) == 0 {
            ctx.count("worlds/ended-waiting/no-usable-peer");
        }
    }
    ctx.count("worlds");
}

fn short(p: &PeerId) -> String {
    let s = p.to_string();
    s[s.len() - 6..].to_string()
}

fn hdr(pool: &Pool, i: usize) -> String {
    format!("h{}#{}", pool.valid[i].height(), &pool.valid[i].hash().to_string()[..6])
}

fn describe(pool: &Pool, a: &Ans) -> String {
    match a {
        Ans::Valid(i) => format!("valid {}", hdr(pool, *i)),
        Ans::Multi(i, j) => format!("two headers {} {}", hdr(pool, *i), hdr(pool, *j)),
        a => a.label().to_string(),
    }
}

fn responses(pool: &Pool, a: &Ans, rng: &mut impl Rng) -> Vec<HeaderResponse> {
    match a {
        Ans::Valid(i) => vec![pool.valid_resp[*i].clone()],
        Ans::Broken(i) => vec![pool.broken[*i].clone()],
        Ans::Garbage => {
            let n = rng.gen_range(1..400);
            vec![ok_resp(vcore::rand_bytes(rng, n))]
        }
        Ans::EmptyBodyOk => vec![ok_resp(vec![])],
        Ans::NotFound => vec![HeaderResponse { body: vec![], status_code: 2 }],
        Ans::InvalidStatus => vec![HeaderResponse { body: vec![], status_code: 0 }],
        Ans::Multi(i, j) => vec![pool.valid_resp[*i].clone(), pool.valid_resp[*j].clone()],
        Ans::EmptyList => vec![],
        Ans::Fail(_) => unreachable!(),
    }
}

fn build_pool(ctx: &Ctx) -> Option<Pool> {
    // 4 heights x 3 different headers per height, all signed by the same validator set
    let mut base = ChainGen::new(
        ctx.rng(0, 1),
        "c31-chain",
        3,
        &[10, 20, 30],
        100,
        ChainGen::start_time_for(8, Duration::from_secs(6), Duration::from_secs(3600)),
        Duration::from_secs(6),
    );
    let mut valid = Vec::new();
    for _ in 0..4 {
        for f in 1..=2u64 {
            let mut fork = base.fork(f);
            valid.push(fork.next());
        }
        valid.push(base.next());
    }
    // self-check of the generator (a "valid" header must be accepted by validate())
    for h in &valid {
        if let Err(e) = h.validate() {
            ctx.inconclusive(&format!("harness: generated head candidate fails validate(): {e}"));
            return None;
        }
    }
    let hashes: std::collections::HashSet<_> = valid.iter().map(|h| h.hash()).collect();
    if hashes.len() != valid.len() {
        ctx.inconclusive("harness: generated head candidates are not pairwise distinct");
        return None;
    }
    let mut broken = Vec::new();
    for (k, h) in valid.iter().enumerate().take(6) {
        let mut b = h.clone();
        // several independent inconsistencies at once
        b.header.height = (b.header.height.value() + 1000).try_into().unwrap();
        b.header.data_hash = Some(vgen::chain::random_hash(&mut ctx.rng(0, 100 + k as u64)));
        if b.validate().is_ok() {
            ctx.inconclusive("harness: deliberately broken header passes validate()");
            return None;
        }
        broken.push(ok_resp(b.encode_vec()));
    }
    let valid_resp = valid.iter().map(|h| ok_resp(h.clone().encode_vec())).collect();
    Some(Pool { valid, valid_resp, broken })
}

pub fn run(ctx: &Ctx) {
    ctx.rule(
        "Worlds: real PeerTracker with 1..10 (10 %: 11..14) peers, each trusted with p in {0.5,0.8,1}, connected with \
         p=0.85 (some connected then disconnected), some archival; 1..4 head callers per resolution joining before / \
         in the middle of a round, occasional caller cancellation; up to 3 resolutions per world. Every head request \
         sent is answered by script, in random order interleaved with 100 ms virtual-time steps: valid single header \
         out of 12 candidates (4 heights x 3 distinct headers of the same validators), or header failing validation, \
         garbage, empty body, not-found, invalid status, two headers, empty list, each OutboundFailure. Answer profiles \
         force every branch: nothing valid, unanimous, agreed header + lone (often higher) ones, all different, random. \
         Non-trivial = a resolution whose answer was checked against the rule; distinct by (multiset of reports, number \
         of callers, answers delivered).",
    );
    ctx.assume("ground truth of 'reported header' = answers scripted as one valid ChainGen header (self-checked with validate()); every other scripted answer fails on several independent criteria");
    ctx.assume("the peer population handed to schedule_pending_requests (VPeerTracker::peers() snapshot at that call) is what 'connected trusted peer' means");
    ctx.assume("when more than 10 trusted peers are connected only the queried ones can report; the rule is evaluated on the reports actually delivered since the previous resolution");

    let Some(pool) = build_pool(ctx) else { return };
    let worlds = ctx.scale3(8u64, 6_000, 400_000);
    let shards = ctx.cores();
    ctx.par(shards, |shard| {
        let rt = tokio::runtime::Builder::new_current_thread().enable_time().start_paused(true).build().expect("runtime");
        let flag = Arc::new(Flag(AtomicBool::new(false)));
        for case in (shard as u64..worlds).step_by(shards) {
            let mut rng = ctx.rng(1, case);
            let r = guard(|| rt.block_on(world(ctx, &pool, &mut rng, &flag)));
            if let Err(p) = r {
                if p.starts_with("vn/src/") || p.contains("/vn/src/") || p.contains("harness") {
                    ctx.inconclusive(&format!("harness panicked: {p}"));
                } else {
                    ctx.violation(&format!("C31/client/panic/{}", panic_site(&p)), &format!("client handler panicked: {p}"), json!({"case": case}));
                }
                return;
            }
        }
    });

    // coverage floors guard against a vacuous pass; once a violation is recorded the verdict is
    // 'violated' and must not be masked by a floor the defect itself may have starved
    if !ctx.tiny() && ctx.violation_count() == 0 {
        for (name, min) in [
            ("resolutions", 1000),
            ("confirmed/agreement", 300),
            ("confirmed/no-agreement", 300),
            ("confirmed/agreement-beats-higher-lone-header", 50),
            ("confirmed/no-agreement-highest-of-several", 100),
            ("confirmed/tie-between-equal-heights", 20),
            ("confirmed/several-callers-same-answer", 200),
            ("callers/joined-mid-round", 200),
            ("sends/to-connected-trusted", 3000),
            ("answers/valid", 1000),
            ("answers/invalid-header", 50),
            ("answers/multi-header", 50),
            ("answers/failure", 50),
            ("answers/not-found", 50),
        ] {
            ctx.floor(name, min);
        }
    }
}
