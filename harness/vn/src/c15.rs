//! C15 (node part) — `p2p::shwap::sample_cid` / `convert_cid`: the CID the node requests for a
//! sample is the 64-byte-capacity form of the SampleId CID and converts back to the same
//! coordinates; height 0 is refused. The identifier/CID logic itself is monitored in vt/c15.rs.

use celestia_types::sample::SampleId;
use cid::CidGeneric;
use lumina_node::verif::shwap::sample_cid;
use vcore::{Ctx, Rng, SliceRandom, guard, hex_full, json, panic_site};

fn edge_u16(rng: &mut impl Rng) -> u16 {
    match rng.gen_range(0..4) {
        0 => *[0u16, 1, 255, 256, 0x7fff, 0x8000, u16::MAX - 1, u16::MAX].choose(rng).unwrap(),
        1 => rng.gen_range(0..512),
        _ => rng.r#gen(),
    }
}



pub fn run(ctx: &Ctx) {
    ctx.rule(
        "sample_cid(row, col, height) over boundary-heavy coordinates and heights (0, 1, 2, 2^32+-1, i64::MAX+-1, \
         u64::MAX-k, random): height 0 => Err; otherwise the returned CID has codec 0x7810, multihash 0x7811 with the \
         12-byte digest height||row||col (big endian), equals the wire form of CidGeneric::<12>::from(SampleId) and \
         converts back to the same SampleId. Non-trivial = a call whose CID was compared; distinct by coordinates.",
    );
    ctx.assume("layout height(8)||row(2)||col(2) big endian, codec 0x7810 / multihash code 0x7811 (CIP-19)");
    let n = ctx.scale(60_000u64, 2_000_000u64);
    let shards = ctx.cores();
    ctx.par(shards, |shard| {
        for case in (shard as u64..n).step_by(shards) {
            let mut rng = ctx.rng(1, case);
            let (row, col) = (edge_u16(&mut rng), edge_u16(&mut rng));
            let height = vcore::edge_u64(&mut rng);
            let inp = || json!({"row": row, "col": col, "height": height});
            ctx.eval();
            let got = match guard(|| sample_cid(row, col, height)) {
                Ok(g) => g,
                Err(p) => {
                    ctx.violation(&format!("C15/sample_cid/panic/{}", panic_site(&p)), &format!("panicked: {p}"), inp());
                    continue;
                }
            };
            if height == 0 {
                match got {
                    Err(_) => ctx.count("rejected.zero-height"),
                    Ok(c) => ctx.violation("C15/sample_cid/accepts-zero-height", &format!("got {c}"), inp()),
                }
                continue;
            }
            let cid = match got {
                Ok(c) => c,
                Err(e) => {
                    ctx.violation("C15/sample_cid/rejects-valid", &format!("valid coordinates rejected: {e}"), inp());
                    continue;
                }
            };
            let mut digest = height.to_be_bytes().to_vec();
            digest.extend_from_slice(&row.to_be_bytes());
            digest.extend_from_slice(&col.to_be_bytes());
            let shape_ok = cid.version() == cid::Version::V1
                && cid.codec() == 0x7810
                && cid.hash().code() == 0x7811
                && cid.hash().digest() == digest.as_slice();
            let exact = SampleId::new(row, col, height).ok().map(|id| CidGeneric::<12>::from(id).to_bytes());
            let back = SampleId::try_from(cid).ok();
            let back_ok = back.is_some_and(|b| b.row_index() == row && b.column_index() == col && b.block_height() == height);
            if !shape_ok || exact.as_deref() != Some(cid.to_bytes().as_slice()) || !back_ok {
                ctx.violation(
                    "C15/sample_cid/mismatch",
                    &format!(
                        "cid {} (wire {}), expected digest {}, SampleId CID {:?}, converts back to {back:?}",
                        cid,
                        hex_full(&cid.to_bytes()),
                        hex_full(&digest),
                        exact.as_deref().map(hex_full)
                    ),
                    inp(),
                );
            }
            ctx.count("accepted");
            ctx.nontrivial(&(row, col, height));
            ctx.sample(|| json!({"row": row, "col": col, "height": height, "cid": cid.to_string()}));
        }
    });
    ctx.floor("accepted", 10_000);
    ctx.floor("rejected.zero-height", 500);
}
