//! C02 — Header chain verification accepts exactly linked successors (lumina-node part).
//!
//! Real code driven: `lumina_node::store::VerifiedExtendedHeaders::try_from` (`Vec<ExtendedHeader>`
//! and `&[ExtendedHeader]`), the constructor every header batch passes before it may enter a store.
//! Workload generator and oracle are shared with `vt/src/c02.rs` (`c02_model.rs`): the list
//! `[h0, h1, ..]` must be accepted only if every element verifies against its predecessor and
//! heights are consecutive (`adjacent_range_linked(h0, [h1..])`), and — all generated commits
//! being well formed — it must be accepted if they do. The accepted value must carry exactly the
//! headers given, in order.

#[path = "../../vt/src/c02_model.rs"]
mod c02_model;

use c02_model::{Facts, H, World, adjacent_range_linked, range_exact};
use celestia_types::ExtendedHeader;
use lumina_node::store::VerifiedExtendedHeaders;
use vcore::{Ctx, Rng, guard, json, panic_site};

fn fam_class(family: &str) -> &str {
    family.split('/').next().unwrap_or(family)
}

fn brief(f: &Facts) -> vcore::Value {
    json!({ "id": f.id, "height": f.height, "chain": f.chain, "time_unix_ns": f.time_ns.to_string(), "far_future": f.far_future,
            "parent_id": f.parent, "validators": f.vals.len(), "next_validators_same": f.vals == f.next_vals })
}

fn check(ctx: &Ctx, case: u64, family: &str, list: &[H]) {
    let hdrs: Vec<ExtendedHeader> = list.iter().map(|h| h.hdr.clone()).collect();
    let (exp, is_exact) = match list.split_first() {
        None => (Ok(()), true),
        Some((head, rest)) => {
            let facts: Vec<&Facts> = rest.iter().map(|h| &h.f).collect();
            (adjacent_range_linked(&head.f, &facts), range_exact(&head.f, &facts))
        }
    };
    let class = fam_class(family);
    let detail = || json!({ "seed": ctx.seed, "world_case": case, "family": family, "oracle": format!("{exp:?}"), "list": list.iter().map(|h| brief(&h.f)).collect::<Vec<_>>() });
    ctx.nontrivial(&(family, list.len(), exp.is_ok()));

    for (op, obs) in [
        ("try_from_vec", guard(|| VerifiedExtendedHeaders::try_from(hdrs.clone()).map_err(|e| e.to_string()))),
        ("try_from_slice", guard(|| VerifiedExtendedHeaders::try_from(hdrs.as_slice()).map_err(|e| e.to_string()))),
    ] {
        ctx.eval();
        match obs {
            Err(p) => ctx.violation(&format!("C02/VerifiedExtendedHeaders/panic/{}", panic_site(&p)), &format!("{op} panicked ({family}): {p}"), detail()),
            Ok(Ok(v)) => {
                ctx.count(&format!("{op}.accepted"));
                ctx.count(&format!("family.{class}.accepted"));
                if let Err(cond) = exp {
                    ctx.violation(
                        &format!("C02/VerifiedExtendedHeaders/accepts/{cond}"),
                        &format!("VerifiedExtendedHeaders::{op} accepted a list although `{cond}` (input family {family})"),
                        detail(),
                    );
                } else {
                    ctx.count(&format!("{op}.accepted.linked"));
                }
                let got: Vec<ExtendedHeader> = v.into();
                if got != hdrs {
                    ctx.violation(
                        "C02/VerifiedExtendedHeaders/content-differs",
                        &format!("VerifiedExtendedHeaders::{op} returned other headers than it was given ({family})"),
                        detail(),
                    );
                }
            }
            Ok(Err(e)) => {
                ctx.count(&format!("{op}.rejected"));
                ctx.count(&format!("family.{class}.rejected"));
                match exp {
                    Err(cond) => ctx.count(&format!("{op}.rejected.{cond}")),
                    Ok(()) if is_exact => ctx.violation(
                        "C02/VerifiedExtendedHeaders/rejects-linked/well-formed-list",
                        &format!("VerifiedExtendedHeaders::{op} rejected ({e}) a list in which every element is a linked successor of its predecessor ({family})"),
                        detail(),
                    ),
                    Ok(()) => ctx.count(&format!("{op}.rejected.linked-but-malformed-commit")),
                }
            }
        }
    }
    ctx.sample(|| detail());
}

fn run_world(ctx: &Ctx, case: u64) {
    let len = ctx.scale(8usize, 12);
    let mut w = World::new(ctx.rng(1, case), case, len);
    ctx.count("worlds");
    check(ctx, case, "empty", &[]);
    check(ctx, case, "whole-honest-chain", &w.chain.clone());
    for t in [0usize, w.rng.gen_range(0..len), w.rng.gen_range(0..len)] {
        let head = w.chain[t].clone();
        check(ctx, case, "single", &[head.clone()]);
        for (family, list) in w.lists(t) {
            let mut l = vec![head.clone()];
            l.extend(list);
            check(ctx, case, &family, &l);
        }
        // pairs (head, candidate): adjacency + link conditions on perturbed successors
        if !ctx.quick() || t == 0 {
            for (family, u) in w.candidates(t) {
                check(ctx, case, &format!("pair:{family}"), &[head.clone(), u]);
            }
        }
    }
}

pub fn run(ctx: &Ctx) {
    ctx.rule(
        "Worlds as in the vt part (honest chains of 8/12 headers, 1..8 validators, set rotation). Each evaluation = one \
         VerifiedExtendedHeaders::try_from(Vec) or try_from(&[..]) on [head] ++ list: empty, single, whole chain, honest slices with adjacent or \
         later start, swapped, duplicated, reversed, gapped, one element replaced (fork, chain id, time, parent, validators, future time), and \
         two-element lists [head, perturbed successor] from every perturbation family of the vt part. \
         Non-trivial = distinct (family, list length, oracle outcome).",
    );
    ctx.assume("oracle = c02_model::adjacent_range_linked over generation-time facts; headers >= 30 min away from the now + 10 s boundary");
    let worlds = ctx.scale(120u64, 1500);
    let next = std::sync::atomic::AtomicU64::new(0);
    ctx.par(ctx.cores(), |_| {
        loop {
            let c = next.fetch_add(1, std::sync::atomic::Ordering::Relaxed);
            if c >= worlds {
                break;
            }
            run_world(ctx, c);
        }
    });
    for op in ["try_from_vec", "try_from_slice"] {
        ctx.floor(&format!("{op}.accepted.linked"), 300);
        for cond in ["first-not-adjacent-to-trusted", "heights-not-consecutive", "parent", "next-validators", "chain-id", "time-not-after-trusted", "time-from-future"] {
            ctx.floor(&format!("{op}.rejected.{cond}"), 50);
        }
    }
    ctx.floor("family.whole-honest-chain.accepted", 100);
}
