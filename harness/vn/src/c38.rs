//! C38 — the syncer keeps the store on the network's chain and converges.
//!
//! The REAL `Syncer` worker runs over a mocked `P2p` and a `LoggedStore<InMemoryStore>` in tokio
//! virtual time; the harness is a hostile header network (see `c25_net.rs`).
//!
//! Phase 1 (adversary on): every range request may be answered by a fault script — valid headers
//! of a fork signed by unknown validators, of a fork signed by the honest validators (only for
//! history below the node's stored head, see assumptions), honest/fork splices, short prefixes,
//! wire-level garbage pushed through the real header-ex client filter (invalid signature, tampered
//! header, gap, wrong start, too many, duplicate, empty, not-found, invalid status, undecodable),
//! transport failures, silence; head requests fail, lag or return stale (but honest) heads;
//! header-sub skips heights or loses announcements; all peers disconnect and come back
//! (untrusted first). Phase 2 (adversary off): honest answers (full or shorter prefixes).
//!
//! Oracle (offline over the ordered log):
//!  * safety, whole run: every header the store acknowledged (`insert` returned Ok) is the honest
//!    chain's header of that height; the final content of the real store is compared as well;
//!  * bounded progress, phase 2: every height of the sampling window up to the newest head the
//!    node was told about is stored within N range requests and T virtual seconds.

#[path = "c25_net.rs"]
pub mod c25_net;

use std::collections::{BTreeSet, HashMap};
use std::time::Duration;

use c25_net::*;
use celestia_proto::p2p::pb::StatusCode;
use celestia_types::ExtendedHeader;
use libp2p::request_response::OutboundFailure;
use lumina_node::store::Store;
use vcore::{ChaCha8Rng, Ctx, Rng, SliceRandom, json};
use vnode::{StoreEvent, StoreOp, StoreRet};

#[derive(Clone, Copy, Debug, PartialEq, Eq, Hash)]
enum Pruning {
    /// pruning window = sampling window + 1 h (node default shape)
    Longer,
    Equal,
    /// 10 minutes: almost the whole sampling window is synced in "slow sync" (needs the daser)
    Short,
}

#[derive(Clone, Debug)]
struct Params {
    n_vals: usize,
    n_old: u64,
    n_new: u64,
    batch: u64,
    bt_s: u64,
    extra_window_s: u64,
    pruning: Pruning,
    prefill_old: bool,
    prefill_recent: bool,
    fault_pct: u32,
    fault_budget: u32,
    phase1_ms: u64,
    disconnects: u32,
    max_delay_ms: u64,
    prefix_pct: u32,
    sub_loss_pct: u32,
    head_fault_pct: u32,
    /// probability that a whole batch is served coherently from one fork chain
    coherent_pct: u32,
}

fn gen_params(ctx: &Ctx, rng: &mut impl Rng) -> Params {
    let batch = *[16u64, 32, 64, 64, 128, 512, 512].choose(rng).unwrap();
    let pruning = *[Pruning::Longer, Pruning::Longer, Pruning::Equal, Pruning::Short].choose(rng).unwrap();
    let mut n_new = rng.gen_range(200..=ctx.scale(900u64, 2000u64));
    if pruning == Pruning::Short {
        // slow sync needs one header-sub tick per batch
        n_new = n_new.min(batch * 50);
    }
    let n_old = *[0u64, 5, 40, 150].choose(rng).unwrap();
    Params {
        n_vals: rng.gen_range(1..=3),
        n_old,
        n_new,
        batch,
        bt_s: rng.gen_range(1..=3),
        extra_window_s: *[0u64, 3600, 30 * 86_400].choose(rng).unwrap(),
        pruning,
        prefill_old: n_old >= 5 && rng.gen_bool(0.4),
        prefill_recent: rng.gen_bool(0.4),
        fault_pct: *[25u32, 50, 80, 95].choose(rng).unwrap(),
        fault_budget: rng.gen_range(10..=90),
        phase1_ms: if rng.gen_bool(0.4) { rng.gen_range(4_000..40_000) } else { rng.gen_range(30_000..300_000) },
        disconnects: *[0u32, 0, 1, 2, 3].choose(rng).unwrap(),
        max_delay_ms: *[20u64, 300, 2000].choose(rng).unwrap(),
        prefix_pct: *[0u32, 15, 40].choose(rng).unwrap(),
        sub_loss_pct: *[0u32, 20, 60].choose(rng).unwrap(),
        head_fault_pct: *[0u32, 30, 70].choose(rng).unwrap(),
        coherent_pct: *[0u32, 20, 50].choose(rng).unwrap(),
    }
}

/// Fault scripts for a range request (peer-level behaviour).
#[derive(Clone, Copy, Debug, PartialEq, Eq, Hash)]
enum Fault {
    OutsiderFull,
    OutsiderPrefix,
    SameValsFull,
    SameValsPrefix,
    SpliceHonestThenFork,
    SpliceForkThenHonest,
    WireInvalidSig,
    WireTampered,
    WireGapped,
    WireWrongStart,
    WireTooMany,
    WireDuplicate,
    WireEmpty,
    WireNotFound,
    WireInvalidStatus,
    WireGarbage,
    WireShuffledHonest,
    FailTimeout,
    FailConnectionClosed,
    FailDial,
    FailUnsupported,
    FailIo,
    Silent,
}

const FAULTS: &[Fault] = &[
    Fault::OutsiderFull,
    Fault::OutsiderFull,
    Fault::OutsiderPrefix,
    Fault::SameValsFull,
    Fault::SameValsFull,
    Fault::SameValsPrefix,
    Fault::SpliceHonestThenFork,
    Fault::SpliceHonestThenFork,
    Fault::SpliceForkThenHonest,
    Fault::SpliceForkThenHonest,
    Fault::WireInvalidSig,
    Fault::WireTampered,
    Fault::WireGapped,
    Fault::WireWrongStart,
    Fault::WireTooMany,
    Fault::WireDuplicate,
    Fault::WireEmpty,
    Fault::WireNotFound,
    Fault::WireInvalidStatus,
    Fault::WireGarbage,
    Fault::WireShuffledHonest,
    Fault::FailTimeout,
    Fault::FailConnectionClosed,
    Fault::FailDial,
    Fault::FailUnsupported,
    Fault::FailIo,
    Fault::Silent,
];

impl Fault {
    fn name(self) -> &'static str {
        match self {
            Fault::OutsiderFull => "fork:outsider:full",
            Fault::OutsiderPrefix => "fork:outsider:prefix",
            Fault::SameValsFull => "fork:same-validators:full",
            Fault::SameValsPrefix => "fork:same-validators:prefix",
            Fault::SpliceHonestThenFork => "splice:honest+fork",
            Fault::SpliceForkThenHonest => "splice:fork+honest",
            Fault::WireInvalidSig => "wire:invalid-signature",
            Fault::WireTampered => "wire:tampered-header",
            Fault::WireGapped => "wire:gapped",
            Fault::WireWrongStart => "wire:wrong-start",
            Fault::WireTooMany => "wire:too-many",
            Fault::WireDuplicate => "wire:duplicate",
            Fault::WireEmpty => "wire:empty",
            Fault::WireNotFound => "wire:not-found",
            Fault::WireInvalidStatus => "wire:invalid-status",
            Fault::WireGarbage => "wire:garbage",
            Fault::WireShuffledHonest => "wire:shuffled-honest",
            Fault::FailTimeout => "fail:timeout",
            Fault::FailConnectionClosed => "fail:connection-closed",
            Fault::FailDial => "fail:dial",
            Fault::FailUnsupported => "fail:unsupported-protocols",
            Fault::FailIo => "fail:io",
            Fault::Silent => "silent-then-timeout",
        }
    }
}

#[derive(Clone, Copy, Debug)]
enum Plan {
    HonestFull,
    HonestPrefix,
    Faulty(Fault),
    /// whole batch served from one fork chain (a consistent malicious peer)
    Coherent(Src),
    HeadCurrent,
    HeadStale,
    HeadFail,
}

fn tamper(h: &ExtendedHeader) -> ExtendedHeader {
    let mut t = h.clone();
    t.header.time = (t.header.time + Duration::from_secs(1)).unwrap();
    t
}

fn forge_sig(h: &ExtendedHeader, rng: &mut ChaCha8Rng) -> ExtendedHeader {
    let mut t = h.clone();
    for i in 0..t.commit.signatures.len() {
        let k = vgen::chain::Val::new(rng, 1);
        vgen::chain::resign_one(&mut t, i, &k.key);
    }
    t
}

/// Build the peer-level answer of a fault script for request `[o, o+n)`.
fn faulty_answer(f: Fault, chains: &Chains, o: u64, n: u64, same_vals_ok: bool, rng: &mut ChaCha8Rng) -> PeerAnswer {
    let fork_src = |want_same: bool| if want_same && same_vals_ok { Src::SameVals } else { Src::Outsider };
    let avail = chains.head().saturating_sub(o - 1).min(n).max(1);
    let honest = chains.range(Src::Honest, o, avail);
    if honest.is_empty() {
        // heights the network does not have (only a broken requester asks for them)
        return PeerAnswer::Wire(vec![wire_status(StatusCode::NotFound)]);
    }
    let k = if avail > 1 { rng.gen_range(1..avail) } else { 1 };
    match f {
        Fault::OutsiderFull => PeerAnswer::Valid(chains.range(Src::Outsider, o, avail)),
        Fault::OutsiderPrefix => PeerAnswer::Valid(chains.range(Src::Outsider, o, k)),
        Fault::SameValsFull => PeerAnswer::Valid(chains.range(fork_src(true), o, avail)),
        Fault::SameValsPrefix => PeerAnswer::Valid(chains.range(fork_src(true), o, k)),
        Fault::SpliceHonestThenFork => {
            let mut v = chains.range(Src::Honest, o, k);
            v.extend(chains.range(fork_src(rng.gen_bool(0.5)), o + k, avail - k));
            PeerAnswer::Valid(v)
        }
        Fault::SpliceForkThenHonest => {
            let mut v = chains.range(fork_src(rng.gen_bool(0.5)), o, k);
            v.extend(chains.range(Src::Honest, o + k, avail - k));
            PeerAnswer::Valid(v)
        }
        Fault::WireInvalidSig | Fault::WireTampered => {
            let at = rng.gen_range(0..honest.len());
            let w = honest
                .iter()
                .enumerate()
                .map(|(i, h)| {
                    if i == at {
                        wire_ok(&if f == Fault::WireTampered { tamper(h) } else { forge_sig(h, rng) })
                    } else {
                        wire_ok(h)
                    }
                })
                .collect();
            PeerAnswer::Wire(w)
        }
        Fault::WireGapped => {
            let mut v = honest.clone();
            if v.len() >= 3 {
                let at = rng.gen_range(1..v.len() - 1);
                v.remove(at);
            } else {
                v = chains.range(Src::Honest, o + 1, 1);
            }
            PeerAnswer::Wire(v.iter().map(wire_ok).collect())
        }
        Fault::WireWrongStart => {
            let s = if o > 1 && rng.gen_bool(0.5) { o - 1 } else { o + 1 };
            PeerAnswer::Wire(chains.range(Src::Honest, s, avail).iter().map(wire_ok).collect())
        }
        Fault::WireTooMany => PeerAnswer::Wire(chains.range(Src::Honest, o, n + 1).iter().chain(honest.first()).take(n as usize + 1).map(wire_ok).collect()),
        Fault::WireDuplicate => {
            let mut v = honest.clone();
            v.insert(0, honest[0].clone());
            v.truncate(n as usize);
            if v.len() < 2 {
                return PeerAnswer::Wire(vec![]);
            }
            PeerAnswer::Wire(v.iter().map(wire_ok).collect())
        }
        Fault::WireEmpty => PeerAnswer::Wire(vec![]),
        Fault::WireNotFound => PeerAnswer::Wire(vec![wire_status(StatusCode::NotFound)]),
        Fault::WireInvalidStatus => PeerAnswer::Wire(vec![wire_status(StatusCode::Invalid)]),
        Fault::WireGarbage => {
            let mut w = wire_ok(&honest[0]);
            vcore::mutate_bytes(rng, &mut w.body);
            let cut = rng.gen_range(0..w.body.len().max(1));
            w.body.truncate(cut);
            PeerAnswer::Wire(vec![w])
        }
        Fault::WireShuffledHonest => {
            let mut v = honest.clone();
            v.reverse();
            PeerAnswer::Wire(v.iter().map(wire_ok).collect())
        }
        Fault::FailTimeout | Fault::Silent => PeerAnswer::Fail(OutboundFailure::Timeout),
        Fault::FailConnectionClosed => PeerAnswer::Fail(OutboundFailure::ConnectionClosed),
        Fault::FailDial => PeerAnswer::Fail(OutboundFailure::DialFailure),
        Fault::FailUnsupported => PeerAnswer::Fail(OutboundFailure::UnsupportedProtocols),
        Fault::FailIo => PeerAnswer::Fail(OutboundFailure::Io(std::io::Error::new(std::io::ErrorKind::BrokenPipe, "injected"))),
    }
}

const T_TICK: u32 = 1;
const T_PHASE2: u32 = 2;
const T_DISC: u32 = 3;
const T_RECONN: u32 = 4;
const T_END: u32 = 5;
const MAX_GROWTH: u64 = 1000;
const PHASE2_MAX_MS: u64 = 1_500_000;

#[derive(Default)]
struct Live {
    faults: HashMap<&'static str, u64>,
    delivered: HashMap<String, u64>,
}

struct RunOut {
    log: Vec<Rec>,
    honest: HashMap<u64, celestia_types::hash::Hash>,
    index: HashMap<celestia_types::hash::Hash, (Src, u64)>,
    layout: Layout,
    alive: bool,
    watchdog: bool,
    final_store: Vec<(u64, celestia_types::hash::Hash)>,
    /// progress verdict taken by the driver at the boundary it controls (recomputed offline too)
    phase2_reqs: u64,
    phase2_bound: u64,
    phase2_ms: u64,
    missing_at_switch: u64,
    missing_at_end: Vec<u64>,
    converged: bool,
    stop_reason: &'static str,
    target_head: u64,
    live: Live,
}

fn req_size(batch: u64) -> u64 {
    batch.div_ceil(8).clamp(8, 64)
}

async fn missing(sim: &Sim, layout: &Layout, head: u64) -> Vec<u64> {
    let stored: BTreeSet<u64> = stored_heights(&sim.store).await.into_iter().collect();
    (layout.n_old + 1..=head).filter(|h| !stored.contains(h)).collect()
}

async fn simulate(p: &Params, rng: &mut ChaCha8Rng, wall: Duration) -> Result<RunOut, String> {
    let bt = Duration::from_secs(p.bt_s);
    let layout = Layout::new(p.n_old, p.n_new + MAX_GROWTH + 8, bt, Duration::from_secs(p.extra_window_s));
    let h0 = p.n_old + p.n_new;
    let mut chains = Chains::new(rng, layout.clone(), p.n_vals, h0, true);
    let window = layout.window;
    let pruning_window = match p.pruning {
        Pruning::Longer => window + Duration::from_secs(3600),
        Pruning::Equal => window,
        Pruning::Short => Duration::from_secs(600),
    };

    let mut prefill = Vec::new();
    if p.prefill_old {
        let max_len = if p.pruning == Pruning::Short { 15 } else { 60 };
        let a = rng.gen_range(1..=p.n_old);
        let b = (a + rng.gen_range(0..max_len)).min(p.n_old);
        prefill.push(chains.range(Src::Honest, a, b - a + 1));
    }
    if p.prefill_recent {
        let c = p.n_old + rng.gen_range(1..p.n_new / 2);
        let d = (c + rng.gen_range(0..p.n_new / 3)).min(h0 - 2);
        prefill.push(chains.range(Src::Honest, c, d - c + 1));
    }

    let mut sim = Sim::start(SimArgs { batch_size: p.batch, sampling_window: window, pruning_window, wall_budget: wall, prefill }).await?;

    sim.set_peers(rng.gen_range(1..4), 0);
    sim.after(rng.gen_range(0..2000), Timer::Custom(T_RECONN, 1));
    sim.after(5_000, Timer::Custom(T_TICK, 0));
    sim.after(p.phase1_ms, Timer::Custom(T_PHASE2, 0));
    for _ in 0..p.disconnects {
        sim.after(rng.gen_range(3_000..p.phase1_ms.max(3_001)), Timer::Custom(T_DISC, 0));
    }

    let mut plans: HashMap<u64, Plan> = HashMap::new();
    let mut seen_batch: Option<(u64, u64)> = None;
    let mut batch_fork: Option<Src> = None;
    let mut budget = p.fault_budget;
    let mut phase2 = false;
    let mut phase2_start_ms = 0u64;
    let mut reqs_at_switch = 0u64;
    let mut ticks2 = 0u64;
    let mut missing_at_switch = 0u64;
    let mut grown2 = 0u64;
    // newest honest head the node has been told about (head answer or delivered announcement)
    let mut told_head = 0u64;
    // newest head that was announced but lost (must be re-announced by a later block in phase 2)
    let mut connected = false;
    let mut live = Live::default();
    let mut watchdog = false;
    let mut converged = false;
    let mut stop_reason = "end";
    let r = req_size(p.batch);
    // honest answers that carried fewer headers than asked for in phase 2 (each costs one more request)
    let mut short2 = 0u64;
    let bound = |missing_at_switch: u64, grown2: u64, ticks2: u64, short2: u64| 4 * (missing_at_switch + grown2).div_ceil(r) + 64 + 8 * ticks2 + 2 * short2;

    loop {
        match sim.next().await {
            Incoming::Watchdog => {
                watchdog = true;
                break;
            }
            Incoming::Closed => break,
            Incoming::Other | Incoming::InitSub(_) => {}
            Incoming::Head(id) => {
                let plan = if !phase2 && rng.gen_range(0..100) < p.head_fault_pct {
                    if rng.gen_bool(0.5) { Plan::HeadStale } else { Plan::HeadFail }
                } else {
                    Plan::HeadCurrent
                };
                plans.insert(id, plan);
                let d = if phase2 { rng.gen_range(1..=p.max_delay_ms) } else { rng.gen_range(1..=p.max_delay_ms * 4) };
                sim.after(d, Timer::Respond(id));
            }
            Incoming::Range(id) => {
                if phase2 {
                    let used = sim.range_reqs - reqs_at_switch;
                    if used > bound(missing_at_switch, grown2, ticks2, short2) {
                        stop_reason = "request-bound-exceeded";
                        break;
                    }
                    if rng.gen_range(0..100) < p.prefix_pct {
                        short2 += 1;
                        plans.insert(id, Plan::HonestPrefix);
                    } else {
                        plans.insert(id, Plan::HonestFull);
                    }
                    sim.after(rng.gen_range(1..=p.max_delay_ms), Timer::Respond(id));
                    continue;
                }
                let cur = sim.log.current_batch();
                if cur != seen_batch {
                    seen_batch = cur;
                    batch_fork = if budget > 0 && rng.gen_range(0..100) < p.coherent_pct {
                        Some(if rng.gen_bool(0.5) { Src::Outsider } else { Src::SameVals })
                    } else {
                        None
                    };
                }
                let (plan, delay) = if let (Some(src), true) = (batch_fork, budget > 0) {
                    budget -= 1;
                    (Plan::Coherent(src), rng.gen_range(1..=p.max_delay_ms))
                } else if budget > 0 && rng.gen_range(0..100) < p.fault_pct {
                    budget -= 1;
                    let f = *FAULTS.choose(rng).unwrap();
                    let d = if f == Fault::Silent { rng.gen_range(5_000..90_000) } else { rng.gen_range(1..=p.max_delay_ms) };
                    (Plan::Faulty(f), d)
                } else if rng.gen_range(0..100) < p.prefix_pct {
                    (Plan::HonestPrefix, rng.gen_range(1..=p.max_delay_ms))
                } else {
                    (Plan::HonestFull, rng.gen_range(1..=p.max_delay_ms))
                };
                plans.insert(id, plan);
                sim.after(delay, Timer::Respond(id));
            }
            Incoming::Timer(Timer::Respond(id)) => {
                let Some(plan) = plans.remove(&id) else { continue };
                let Some(req) = sim.pending.get(&id) else { continue };
                let (o, n) = (req.origin, req.amount);
                let (family, ans): (&'static str, PeerAnswer) = match plan {
                    Plan::HeadCurrent => {
                        let h = chains.get(Src::Honest, chains.head()).unwrap().clone();
                        if connected {
                            told_head = told_head.max(h.height());
                        }
                        ("head:honest-current", PeerAnswer::Valid(vec![h]))
                    }
                    Plan::HeadStale => {
                        let lo = layout.n_old + 1;
                        let h = rng.gen_range(lo..=chains.head());
                        if connected {
                            told_head = told_head.max(h);
                        }
                        ("head:honest-stale", PeerAnswer::Valid(vec![chains.get(Src::Honest, h).unwrap().clone()]))
                    }
                    Plan::HeadFail => ("head:fail", PeerAnswer::Fail(OutboundFailure::Timeout)),
                    Plan::HonestFull | Plan::HonestPrefix => {
                        let avail = chains.head().saturating_sub(o - 1).min(n);
                        if avail == 0 {
                            ("honest:not-found", PeerAnswer::Wire(vec![wire_status(StatusCode::NotFound)]))
                        } else if matches!(plan, Plan::HonestPrefix) && avail > 1 {
                            ("honest:prefix", PeerAnswer::Valid(chains.range(Src::Honest, o, rng.gen_range(1..avail))))
                        } else if rng.gen_range(0..8) == 0 {
                            // cross-check: honest answers also pass the real client filter
                            ("honest:full:via-client", PeerAnswer::Wire(chains.range(Src::Honest, o, avail).iter().map(wire_ok).collect()))
                        } else {
                            ("honest:full", PeerAnswer::Valid(chains.range(Src::Honest, o, avail)))
                        }
                    }
                    Plan::Coherent(src) => {
                        let head = stored_heights(&sim.store).await.last().copied().unwrap_or(0);
                        let src = if src == Src::SameVals && o + n - 1 >= head { Src::Outsider } else { src };
                        let avail = chains.head().saturating_sub(o - 1).min(n).max(1);
                        let name = if src == Src::Outsider { "coherent-batch:outsider" } else { "coherent-batch:same-validators" };
                        *live.faults.entry(name).or_insert(0) += 1;
                        (name, PeerAnswer::Valid(chains.range(src, o, avail)))
                    }
                    Plan::Faulty(f) => {
                        // A fork signed by the honest validators is only offered for history below
                        // the highest header the node already holds (see assumptions).
                        let head = stored_heights(&sim.store).await.last().copied().unwrap_or(0);
                        let same_ok = o + n - 1 < head;
                        *live.faults.entry(f.name()).or_insert(0) += 1;
                        (f.name(), faulty_answer(f, &chains, o, n, same_ok, rng))
                    }
                };
                sim.respond(&chains, id, family, ans).await;
                if let Some(Rec { ev: Ev::Resp { family, given, .. }, .. }) = sim.log.last() {
                    let out = match given {
                        Given::Headers { srcs, .. } => format!("{family} => headers {srcs:?}"),
                        Given::Err(e) => format!("{family} => Err({e})"),
                    };
                    *live.delivered.entry(out).or_insert(0) += 1;
                }
            }
            Incoming::Timer(Timer::Custom(T_DISC, _)) => {
                if phase2 || !connected {
                    continue;
                }
                connected = false;
                sim.set_peers(0, 0);
                if rng.gen_bool(0.5) {
                    sim.after(rng.gen_range(200..8_000), Timer::Custom(T_RECONN, 0));
                }
                sim.after(rng.gen_range(1_000..30_000), Timer::Custom(T_RECONN, 1));
            }
            Incoming::Timer(Timer::Custom(T_RECONN, trusted)) => {
                if trusted == 0 {
                    if !connected {
                        sim.set_peers(rng.gen_range(1..4), 0);
                    }
                } else if !connected {
                    connected = true;
                    sim.set_peers(rng.gen_range(1..4), 1);
                }
                sim.reap();
            }
            Incoming::Timer(Timer::Custom(T_PHASE2, _)) => {
                phase2 = true;
                phase2_start_ms = sim.now_ms();
                sim.log.push(Ev::Mark("phase 2: adversary off"));
                if !connected {
                    connected = true;
                    sim.set_peers(2, 1);
                }
                sim.reap();
                // requests still in flight to the misbehaving peers die with a timeout
                let ids: Vec<u64> = sim.pending.keys().copied().collect();
                for id in ids {
                    plans.remove(&id);
                    sim.respond(&chains, id, "in-flight:timeout-at-phase-switch", PeerAnswer::Fail(OutboundFailure::Timeout)).await;
                }
                reqs_at_switch = sim.range_reqs;
                missing_at_switch = missing(&sim, &layout, chains.head()).await.len() as u64;
            }
            Incoming::Timer(Timer::Custom(T_TICK, _)) => {
                // the daser: everything stored inside the window gets sampled
                let sampled = sim.store.inner.get_sampled_ranges().await.unwrap();
                for h in stored_heights(&sim.store).await {
                    if !layout.is_old(h) && !sampled.contains(h) {
                        let _ = sim.store.mark_as_sampled(h).await;
                    }
                }
                if phase2 {
                    ticks2 += 1;
                    // convergence is judged against the newest head the node was told about
                    if told_head > 0 && sim.sub_tx.is_some() && missing(&sim, &layout, told_head).await.is_empty() {
                        converged = true;
                        stop_reason = "converged";
                        break;
                    }
                    if sim.now_ms() - phase2_start_ms > PHASE2_MAX_MS {
                        stop_reason = "virtual-time-bound-exceeded";
                        break;
                    }
                }
                if chains.head() < h0 + MAX_GROWTH - 3 {
                    let mut h = chains.grow();
                    let extra = if phase2 { rng.gen_range(0..2u32) } else { rng.gen_range(0..3u32) };
                    for _ in 0..extra {
                        h = chains.grow();
                    }
                    if phase2 {
                        grown2 += 1 + extra as u64;
                    }
                    let lose = !phase2 && rng.gen_range(0..100) < p.sub_loss_pct;
                    if !lose && connected && sim.announce(&h) {
                        told_head = told_head.max(h.height());
                    }
                } else if phase2 {
                    stop_reason = "chain-growth-exhausted";
                    break;
                }
                sim.reap();
                sim.after(rng.gen_range(4_000..12_000), Timer::Custom(T_TICK, 0));
            }
            Incoming::Timer(Timer::Custom(T_END, _)) => break,
            Incoming::Timer(_) => {}
        }
    }

    let phase2_reqs = sim.range_reqs.saturating_sub(reqs_at_switch);
    let phase2_ms = sim.now_ms().saturating_sub(phase2_start_ms);
    let missing_at_end = if told_head > 0 { missing(&sim, &layout, told_head).await } else { vec![] };
    let mut final_store = Vec::new();
    for h in stored_heights(&sim.store).await {
        if let Ok(hd) = sim.store.inner.get_by_height(h).await {
            final_store.push((h, hd.hash()));
        }
    }
    let phase2_bound = bound(missing_at_switch, grown2, ticks2, short2);
    let (log, alive) = sim.finish().await;
    let honest = chains.honest.headers.iter().map(|h| (h.height(), h.hash())).collect();
    Ok(RunOut {
        log,
        honest,
        index: chains.index.clone(),
        layout,
        alive,
        watchdog,
        final_store,
        phase2_reqs,
        phase2_bound,
        phase2_ms,
        missing_at_switch,
        missing_at_end,
        converged,
        stop_reason,
        target_head: told_head,
        live,
    })
}

struct Finding {
    sig: String,
    msg: String,
    at: usize,
}

fn src_name(s: Option<&(Src, u64)>) -> &'static str {
    match s {
        Some((Src::Outsider, _)) => "outsider-fork",
        Some((Src::SameVals, _)) => "same-validators-fork",
        Some((Src::Honest, _)) => "honest-header-at-wrong-height",
        None => "unknown-header",
    }
}

/// Offline safety check over the log + final store content.
fn check_safety(out: &RunOut) -> (Vec<Finding>, u64, u64, HashMap<&'static str, u64>) {
    let mut kinds: HashMap<&'static str, u64> = HashMap::new();
    let mut found: Vec<Finding> = Vec::new();
    let mut inserts_ok = 0u64;
    let mut inserts_refused = 0u64;
    for (i, r) in out.log.iter().enumerate() {
        if let Ev::Store(StoreEvent::Return { op: StoreOp::Insert(v), ret, .. }) = &r.ev {
            match ret {
                StoreRet::Unit => {
                    inserts_ok += 1;
                    for (h, hash) in v {
                        if out.honest.get(h) != Some(hash) {
                            let sig = format!("C38/store-off-chain/{}", src_name(out.index.get(hash)));
                            if !found.iter().any(|f| f.sig == sig) {
                                found.push(Finding {
                                    sig,
                                    msg: format!("store acknowledged insertion of height {h} with hash {hash}, honest chain has {:?}", out.honest.get(h)),
                                    at: i,
                                });
                            }
                        }
                    }
                }
                StoreRet::Err(k) => {
                    inserts_refused += 1;
                    *kinds.entry(*k).or_insert(0) += 1;
                }
                _ => {}
            }
        }
    }
    for (h, hash) in &out.final_store {
        if out.honest.get(h) != Some(hash) {
            let sig = format!("C38/store-off-chain/{}", src_name(out.index.get(hash)));
            if !found.iter().any(|f| f.sig == sig) {
                found.push(Finding { sig, msg: format!("final store holds height {h} with hash {hash}, not the honest header"), at: out.log.len() - 1 });
            }
        }
    }
    (found, inserts_ok, inserts_refused, kinds)
}

pub fn run(ctx: &Ctx) {
    ctx.rule(
        "Each run: honest chain (0..150 heights older than the sampling window, 200..900 (thorough 2000) inside it, 1-3 \
         validators), two complete fork chains (unknown validators; honest validators' keys), syncer batch 16..512, \
         pruning window longer / equal / 10 min (slow sync; harness samples like the daser), optional pre-filled old and \
         stale recent ranges. Phase 1 (30-300 virtual s): each range request is answered by a fault script with \
         probability 25..95 % while a budget of 10..90 faults lasts (27 scripts: fork full/prefix, honest+fork splices, \
         wire-level invalid signature / tampered / gapped / wrong start / too many / duplicate / empty / not-found / \
         invalid status / garbage / shuffled, 5 transport failures, silence), else honestly (full or prefix), random \
         delays and order; head requests fail or return stale honest heads; header-sub skips heights and loses \
         announcements; 0-3 disconnect/reconnect episodes (untrusted peers first). Phase 2: honest answers (full, or a shorter prefix with probability 0..40 %), one new \
         head every 4-12 virtual s. Non-trivial run = at least one fault delivered and a non-empty set of missing heights \
         at the phase switch or a refused insertion; distinct by parameter vector.",
    );
    ctx.assume("head requests are answered by trusted peers: honest content (possibly stale, late or failing)");
    ctx.assume("the mocked P2p boundary delivers only what HeaderExClientHandler lets through: wire-level faults go through the real decode_and_verify_responses; header-sub delivers honest headers with increasing heights (what the real worker's verify() lets through with < 1/3 byzantine power)");
    ctx.assume("a fork signed by the honest validators' own keys (equivocation / long-range) is offered only for heights below the node's stored head, where the hash chain from the trusted head decides; above it the light-client model assumes > 2/3 honest power");
    ctx.assume("progress bound N = 4*ceil(missing/r) + 64 + 8*ticks + 2*short_answers range requests (r = session request size for a full batch, 8..64) and 1500 virtual seconds, with one new head per tick and a daser that samples every stored in-window header each tick");

    let runs = ctx.scale(32u64, 800u64);
    let shards = ctx.cores();
    let wall = Duration::from_secs(ctx.scale(90, 400));
    let only: Option<u64> = std::env::var("VERIF_CASE").ok().and_then(|s| s.parse().ok());
    ctx.par(shards, |shard| {
        for case in (shard as u64..runs).step_by(shards) {
            if only.is_some_and(|c| c != case) {
                continue;
            }
            let mut rng = ctx.rng(1, case);
            let p = gen_params(ctx, &mut rng);
            vcore::take_last_panic();
            let res = vcore::guard(|| run_paused(simulate(&p, &mut rng, wall)));
            let panic = vcore::take_last_panic();
            let out = match res {
                Ok(Ok(o)) => o,
                Ok(Err(e)) => {
                    ctx.inconclusive(&format!("harness setup failed in run {case}: {e}"));
                    continue;
                }
                Err(e) => {
                    ctx.inconclusive(&format!("harness panicked in run {case}: {e}"));
                    continue;
                }
            };
            ctx.eval();
            ctx.count("runs");
            if out.watchdog {
                ctx.count("runs_watchdog");
                ctx.inconclusive(&format!("wall-clock watchdog fired in run {case}"));
                continue;
            }
            let pj = json!({
                "case": case, "n_vals": p.n_vals, "n_old": p.n_old, "n_new": p.n_new, "batch": p.batch, "block_time_s": p.bt_s,
                "sampling_window_s": out.layout.window.as_secs(), "pruning": format!("{:?}", p.pruning), "prefill_old": p.prefill_old,
                "prefill_recent": p.prefill_recent, "fault_pct": p.fault_pct, "fault_budget": p.fault_budget, "phase1_ms": p.phase1_ms,
                "disconnects": p.disconnects, "max_delay_ms": p.max_delay_ms, "prefix_pct": p.prefix_pct, "sub_loss_pct": p.sub_loss_pct,
                "head_fault_pct": p.head_fault_pct, "coherent_pct": p.coherent_pct,
            });
            let (mut found, ins_ok, ins_refused, kinds) = check_safety(&out);
            for (k, v) in &kinds {
                ctx.count_n(&format!("store_refusal/{k}"), *v);
            }
            ctx.count_n("store_refused_neighbour_verification", kinds.get("NeighborsVerificationFailed").copied().unwrap_or(0));
            let faults: u64 = out.live.faults.values().sum();
            for (k, v) in &out.live.faults {
                ctx.count_n(&format!("fault/{k}"), *v);
            }
            for (k, v) in &out.live.delivered {
                ctx.count_n(&format!("delivered/{k}"), *v);
            }
            ctx.count_n("faults_injected", faults);
            ctx.count_n("inserts_acknowledged", ins_ok);
            ctx.count_n("inserts_refused", ins_refused);
            ctx.count_n("range_requests", out.log.iter().filter(|r| matches!(r.ev, Ev::Req { origin, .. } if origin > 0)).count() as u64);
            ctx.count_n("head_requests", out.log.iter().filter(|r| matches!(r.ev, Ev::Req { origin: 0, .. })).count() as u64);
            ctx.count_n("batches_failed", out.log.iter().filter(|r| matches!(r.ev, Ev::Node(NodeEv::Failed(..)))).count() as u64);
            ctx.count_n("disconnect_episodes", out.log.iter().filter(|r| matches!(r.ev, Ev::Peers { connected: 0, .. })).count() as u64);
            ctx.count_n("announcements_lost_or_refused", out.log.iter().filter(|r| matches!(r.ev, Ev::Announce { delivered: false, .. })).count() as u64);
            ctx.count_n("phase2_missing_heights_at_switch", out.missing_at_switch);
            ctx.count_n("phase2_range_requests", out.phase2_reqs);
            ctx.count(&format!("pruning_{:?}", p.pruning));
            if faults > 0 && (out.missing_at_switch > 0 || ins_refused > 0) {
                ctx.nontrivial(&format!("{pj}"));
                ctx.count("runs_nontrivial");
            }
            if out.missing_at_switch > 0 {
                ctx.count("runs_with_work_left_for_phase2");
            }

            // progress verdict
            let fatal = out.log.iter().find_map(|r| if let Ev::Node(NodeEv::Fatal(e)) = &r.ev { Some(e.clone()) } else { None });
            let worker_panic = panic.filter(|p| !p.contains("VERIF-WATCHDOG"));
            if out.converged {
                ctx.count("runs_converged");
            } else {
                let last = out.log.len() - 1;
                let (sig, msg) = if let Some(pn) = &worker_panic {
                    (format!("C38/no-convergence/worker-panic/{}", vcore::panic_site(pn)), format!("syncer worker panicked: {pn}"))
                } else if let Some(e) = &fatal {
                    ("C38/no-convergence/fatal-syncer-error".to_string(), format!("syncer stopped with a fatal error on peer misbehaviour: {e}"))
                } else if !out.alive {
                    ("C38/no-convergence/worker-died".to_string(), "syncer worker no longer answers".to_string())
                } else {
                    match out.stop_reason {
                        "request-bound-exceeded" => (
                            "C38/no-convergence/request-bound-exceeded".to_string(),
                            format!("{} range requests in phase 2 > bound {} and {} heights still missing", out.phase2_reqs, out.phase2_bound, out.missing_at_end.len()),
                        ),
                        "virtual-time-bound-exceeded" | "chain-growth-exhausted" => (
                            "C38/no-convergence/stalled".to_string(),
                            format!("{} virtual s of honest answers ({} range requests), {} heights of the window still missing", out.phase2_ms / 1000, out.phase2_reqs, out.missing_at_end.len()),
                        ),
                        other => {
                            ctx.inconclusive(&format!("run {case} ended without verdict: {other}"));
                            continue;
                        }
                    }
                };
                found.push(Finding { sig, msg, at: last });
            }
            if worker_panic.is_some() && out.converged {
                ctx.count("runs_with_panic_but_converged");
            }
            if std::env::var("VERIF_DEBUG").is_ok() {
                eprintln!(
                    "case {case} {pj} -> faults={faults} ins_ok={ins_ok} refused={ins_refused} missing@switch={} p2reqs={} bound={} p2_s={} target={} stop={} missing_end={} findings={:?}",
                    out.missing_at_switch, out.phase2_reqs, out.phase2_bound, out.phase2_ms / 1000, out.target_head, out.stop_reason,
                    out.missing_at_end.len(), found.iter().map(|f| f.sig.clone()).collect::<Vec<_>>()
                );
                if std::env::var("VERIF_DEBUG").unwrap() == "log" {
                    for r in out.log.iter().filter(|r| essential(r) || matches!(r.ev, Ev::Resp { .. })) {
                        eprintln!("   {}", render(r));
                    }
                }
            }
            ctx.sample(|| json!({"params": pj, "faults": faults, "inserts_ok": ins_ok, "inserts_refused": ins_refused,
                "missing_at_switch": out.missing_at_switch, "phase2_requests": out.phase2_reqs, "phase2_bound": out.phase2_bound,
                "phase2_virtual_s": out.phase2_ms / 1000, "target_head": out.target_head, "stop": out.stop_reason}));
            for f in found {
                let missing: Vec<u64> = out.missing_at_end.iter().copied().take(40).collect();
                ctx.violation(
                    &f.sig,
                    &f.msg,
                    json!({"params": pj, "stop": out.stop_reason, "phase2_requests": out.phase2_reqs, "phase2_bound": out.phase2_bound,
                        "missing_at_end_first40": missing, "history_before": tail_history(&out.log, f.at, 80)}),
                );
            }
        }
    });
    // Coverage floors qualify a "held" verdict; they must not turn found violations into "inconclusive".
    if ctx.violation_count() == 0 {
        ctx.floor("runs_nontrivial", ctx.scale(20, 500));
        ctx.floor("runs_with_work_left_for_phase2", ctx.scale(15, 350));
        ctx.floor("runs_converged", ctx.scale(15, 400));
        ctx.floor("inserts_refused", ctx.scale(20, 600));
        ctx.floor("faults_injected", ctx.scale(500, 15_000));
        for f in FAULTS {
            ctx.floor(&format!("fault/{}", f.name()), ctx.scale(3, 100));
        }
        ctx.floor("fault/coherent-batch:outsider", ctx.scale(20, 600));
        ctx.floor("fault/coherent-batch:same-validators", ctx.scale(20, 600));
        ctx.floor("store_refused_neighbour_verification", ctx.scale(5, 150));
    }
}
