//! C33 — data sampling marks a block sampled only after full success.
//!
//! The real `Daser` worker runs over a `LoggedStore<InMemoryStore>` in tokio virtual time; the
//! harness (`c33_net.rs`) is the network (answers each `GetShwapCid` with the honest, verified
//! sample of the block's real EDS, with `Err(RequestTimedOut)`, or not at all so that lumina's own
//! per-share timeout fires in virtual time — in arbitrary order), the syncer (store grows), the
//! pruner (heights removed / re-inserted, `WantToPrune`) and the peer tracker (reconnections).
//!
//! Oracle: offline checker over the totally ordered log of one run, restating the property text:
//!  * every `update_sampling_metadata(h, cids)`: cids decode (independent decoder) to sample ids
//!    of height h, pairwise distinct, row/col < square width of h (ground truth of the generated
//!    chain), |cids| = min(width², 16);
//!  * every `GetShwapCid(cid)` the harness receives: cid is a sample cid whose height has that cid
//!    in its sampling metadata — both according to the metadata calls that *returned Ok* earlier
//!    in the log (and not wiped by a later removal of the height) and according to a direct look
//!    into the store at the moment the request is received;
//!  * every `mark_as_sampled(h)`: there is a sampling round of h (metadata call returned Ok, not
//!    yet consumed by a mark, not aborted by a disconnection) and for every cid of the round a
//!    request was received after the metadata call returned and was answered with a delivered
//!    honest sample before the mark; no request of the round was answered with a timeout or
//!    abandoned by the requester (virtual-time timeout) before the mark.
//! The daser itself does not verify samples against the DAH (that is the job of the bitswap
//! `ShwapMultihasher`, which is not in the loop behind a mocked P2p), so the harness only ever
//! answers with samples it verified itself against the header's DAH.

#[path = "c33_net.rs"]
mod c33_net;

use std::collections::{BTreeMap, BTreeSet, HashSet};

use c33_net::*;
use cid::Cid;
use vcore::{Ctx, json};
use vnode::{StoreEvent, StoreOp, StoreRet};

#[derive(Clone, Copy, PartialEq, Debug)]
enum ReqState {
    Open,
    Ok,
    TimedOut,
    Closed,
}

struct Req {
    cid: Cid,
    h: u64,
    at: usize,
    state: ReqState,
}

struct Round {
    cids: Vec<Cid>,
    /// Index of the Ok return of the metadata call.
    recorded_at: Option<usize>,
    marked: bool,
    aborted: bool,
    /// A share of this round failed (timeout answer / abandoned request) while the round was live.
    failed: bool,
    requests: Vec<u64>,
}

struct Viol {
    sig: String,
    msg: String,
    at: usize,
    h: u64,
}

fn check(ctx: &Ctx, out: &RunOut) -> Vec<Viol> {
    let log = &out.log;
    let mut v: Vec<Viol> = Vec::new();
    let mut rounds: BTreeMap<u64, Round> = BTreeMap::new();
    let mut rounds_seen: BTreeMap<u64, u32> = BTreeMap::new();
    let mut recorded: BTreeMap<u64, HashSet<Cid>> = BTreeMap::new();
    let mut reqs: BTreeMap<u64, Req> = BTreeMap::new();
    let mut last_peers: Option<u64> = None;
    let mut answered_at: BTreeMap<u64, usize> = BTreeMap::new();

    for (i, e) in log.iter().enumerate() {
        match e {
            Ev::Store(StoreEvent::Call {
                op: StoreOp::UpdateSamplingMetadata(h, cids),
                ..
            }) => {
                ctx.eval();
                ctx.count("metadata_calls");
                // shape of the choice
                match out.truth.get(h) {
                    None => v.push(Viol {
                        sig: "C33/metadata/unknown-height".into(),
                        msg: format!("sampling metadata written for height {h} that was never generated"),
                        at: i,
                        h: *h,
                    }),
                    Some(t) => {
                        let w = t.width as usize;
                        let want = (w * w).min(MAX_SAMPLES);
                        ctx.count(&format!("rounds_width_{w}"));
                        let mut coords = BTreeSet::new();
                        let mut bad = None;
                        for c in cids {
                            match decode_sample_cid(c) {
                                None => bad = Some(("not-a-sample-cid", format!("{c}"))),
                                Some((hh, r, col)) => {
                                    if hh != *h {
                                        bad = Some(("cid-of-other-height", format!("cid height {hh}")));
                                    } else if r as usize >= w || col as usize >= w {
                                        bad = Some(("outside-square", format!("({r},{col}) in a {w}x{w} square")));
                                    } else if !coords.insert((r, col)) {
                                        bad = Some(("duplicate-share", format!("({r},{col}) chosen twice")));
                                    }
                                }
                            }
                        }
                        if let Some((k, m)) = bad {
                            v.push(Viol {
                                sig: format!("C33/metadata/{k}"),
                                msg: format!("height {h}: {m}"),
                                at: i,
                                h: *h,
                            });
                        } else if cids.len() != want {
                            let k = if cids.len() < want { "too-few-shares" } else { "too-many-shares" };
                            v.push(Viol {
                                sig: format!("C33/metadata/{k}"),
                                msg: format!("height {h} ({w}x{w}): {} shares chosen, expected min(w^2,16) = {want}", cids.len()),
                                at: i,
                                h: *h,
                            });
                        } else {
                            ctx.nontrivial(&("shape", w, coords.len()));
                        }
                    }
                }
                let n = rounds_seen.entry(*h).or_insert(0);
                *n += 1;
                if *n > 1 {
                    ctx.count("rounds_resampled");
                }
                rounds.insert(
                    *h,
                    Round {
                        cids: cids.clone(),
                        recorded_at: None,
                        marked: false,
                        aborted: false,
                        failed: false,
                        requests: Vec::new(),
                    },
                );
            }
            Ev::Store(StoreEvent::Return {
                op: StoreOp::UpdateSamplingMetadata(h, cids),
                ret,
                ..
            }) => {
                if *ret == StoreRet::Unit {
                    recorded.entry(*h).or_default().extend(cids.iter().copied());
                    if let Some(r) = rounds.get_mut(h) {
                        r.recorded_at = Some(i);
                    }
                } else {
                    // the write failed (height vanished): no round
                    rounds.remove(h);
                    ctx.count("metadata_calls_failed");
                }
            }
            Ev::Store(StoreEvent::Return {
                op: StoreOp::RemoveHeight(h),
                ret: StoreRet::Unit,
                ..
            }) => {
                recorded.remove(h);
                ctx.count("heights_removed");
            }
            Ev::Store(StoreEvent::Return {
                op: StoreOp::Insert(hs),
                ret: StoreRet::Unit,
                ..
            }) => {
                ctx.count_n("heights_inserted", hs.len() as u64);
            }
            Ev::Net(NetEv::Request { rid, cid, recorded: direct }) => {
                ctx.eval();
                ctx.count("requests");
                match decode_sample_cid(cid) {
                    None => v.push(Viol {
                        sig: "C33/request/not-a-sample-cid".into(),
                        msg: format!("daser requested {cid}, which is not a sample cid"),
                        at: i,
                        h: 0,
                    }),
                    Some((h, r, c)) => {
                        let in_model = recorded.get(&h).is_some_and(|s| s.contains(cid));
                        if !in_model || *direct == Some(false) {
                            v.push(Viol {
                                sig: "C33/request/before-metadata".into(),
                                msg: format!(
                                    "share ({r},{c}) of height {h} requested but its cid is not in the sampling metadata (log model: {in_model}, store at receipt: {direct:?})"
                                ),
                                at: i,
                                h,
                            });
                        }
                        reqs.insert(
                            *rid,
                            Req {
                                cid: *cid,
                                h,
                                at: i,
                                state: ReqState::Open,
                            },
                        );
                        if let Some(round) = rounds.get_mut(&h) {
                            if !round.marked && !round.aborted {
                                round.requests.push(*rid);
                            }
                        }
                    }
                }
            }
            Ev::Net(NetEv::AnswerOk { rid, delivered }) => {
                if let Some(r) = reqs.get_mut(rid) {
                    if *delivered && r.state == ReqState::Open {
                        answered_at.insert(*rid, i);
                        r.state = ReqState::Ok;
                        ctx.count("shares_answered_ok");
                    } else {
                        ctx.count("answers_to_abandoned_requests");
                    }
                }
            }
            Ev::Net(NetEv::AnswerTimeout { rid, delivered }) => {
                if let Some(r) = reqs.get_mut(rid) {
                    if *delivered && r.state == ReqState::Open {
                        r.state = ReqState::TimedOut;
                        ctx.count("shares_answered_timeout");
                        if let Some(x) = rounds.get_mut(&r.h) {
                            if !x.aborted && !x.marked && x.requests.contains(rid) && !x.failed {
                                x.failed = true;
                                ctx.count("rounds_with_failed_share");
                            }
                        }
                    }
                }
            }
            Ev::Net(NetEv::Closed { rid }) => {
                if let Some(r) = reqs.get_mut(rid) {
                    if r.state == ReqState::Open {
                        r.state = ReqState::Closed;
                        ctx.count("shares_abandoned_by_requester");
                        // on a live round only lumina's own per-share timeout (virtual time) closes a request
                        if let Some(x) = rounds.get_mut(&r.h) {
                            if !x.aborted && x.requests.contains(rid) {
                                ctx.count("shares_expired_by_lumina_timeout");
                                if !x.failed {
                                    x.failed = true;
                                    ctx.count("rounds_with_failed_share");
                                }
                            }
                        }
                    }
                }
            }
            Ev::Net(NetEv::Peers { n }) => {
                last_peers = Some(*n);
            }
            Ev::Net(NetEv::Settled) => {
                if last_peers == Some(0) {
                    // disconnection absorbed: every unfinished sampling was aborted
                    for r in rounds.values_mut() {
                        if !r.marked && !r.aborted {
                            r.aborted = true;
                            ctx.count("rounds_aborted_by_disconnect");
                        }
                    }
                    last_peers = None;
                }
            }
            Ev::Node(NodeEv::Result { timed_out, .. }) => {
                if *timed_out {
                    ctx.count("sampling_results_timed_out");
                } else {
                    ctx.count("sampling_results_ok");
                }
            }
            Ev::Store(StoreEvent::Call {
                op: StoreOp::MarkAsSampled(h),
                ..
            }) => {
                ctx.eval();
                ctx.count("marks");
                let Some(round) = rounds.get_mut(h) else {
                    v.push(Viol {
                        sig: "C33/mark_as_sampled/no-sampling-round".into(),
                        msg: format!("height {h} marked sampled without a preceding update_sampling_metadata"),
                        at: i,
                        h: *h,
                    });
                    continue;
                };
                if round.marked || round.aborted {
                    let k = if round.marked { "marked-twice" } else { "after-aborted-sampling" };
                    v.push(Viol {
                        sig: format!("C33/mark_as_sampled/{k}"),
                        msg: format!("height {h} marked sampled, but its last sampling round was already {k}"),
                        at: i,
                        h: *h,
                    });
                    continue;
                }
                round.marked = true;
                let Some(rec_at) = round.recorded_at else {
                    v.push(Viol {
                        sig: "C33/mark_as_sampled/metadata-not-recorded".into(),
                        msg: format!("height {h} marked sampled although its metadata write did not return Ok"),
                        at: i,
                        h: *h,
                    });
                    continue;
                };
                // every share of the recorded choice must have been requested after the metadata
                // write and retrieved before this mark; any failed / unanswered request forbids it
                let mut worst: Option<(&str, String)> = None;
                for rid in &round.requests {
                    let r = &reqs[rid];
                    let (_, row, col) = decode_sample_cid(&r.cid).unwrap();
                    match r.state {
                        ReqState::TimedOut => {
                            worst = Some(("share-not-retrieved", format!("share ({row},{col}) was answered with RequestTimedOut")));
                        }
                        ReqState::Closed if worst.is_none() => {
                            worst = Some(("share-not-retrieved", format!("the request for share ({row},{col}) was abandoned (timeout) without an answer")));
                        }
                        ReqState::Open if worst.is_none() => {
                            worst = Some(("share-not-retrieved", format!("the request for share ({row},{col}) was still unanswered")));
                        }
                        _ => {}
                    }
                }
                if worst.is_none() {
                    for c in &round.cids {
                        let ok = round.requests.iter().map(|rid| &reqs[rid]).find(|r| r.cid == *c && r.at > rec_at);
                        let (_, row, col) = decode_sample_cid(c).unwrap_or((0, 0, 0));
                        if ok.is_none() {
                            // The harness logs a request when it takes it from the P2p command
                            // queue; a request that was queued but not yet taken shows up later
                            // in the log (before the next sampling round of h).
                            let queued = log[i..]
                                .iter()
                                .take_while(|e| !matches!(e, Ev::Store(StoreEvent::Call { op: StoreOp::UpdateSamplingMetadata(x, _), .. }) if x == h))
                                .any(|e| matches!(e, Ev::Net(NetEv::Request { cid, .. }) if cid == c));
                            worst = Some(if queued {
                                ("share-not-retrieved", format!("the request for share ({row},{col}) had not even been taken by the network yet"))
                            } else {
                                ("share-not-requested", format!("share ({row},{col}) of the recorded choice was never requested after the metadata write"))
                            });
                            break;
                        }
                    }
                }
                match worst {
                    Some((k, m)) => v.push(Viol {
                        sig: format!("C33/mark_as_sampled/{k}"),
                        msg: format!("height {h} marked sampled although {m}"),
                        at: i,
                        h: *h,
                    }),
                    None => {
                        ctx.count("marks_after_full_success");
                        let w = out.truth.get(h).map(|t| t.width).unwrap_or(0);
                        // schedule class of this success: in which order (relative to the order
                        // of the requests) the answers were given
                        let mut order: Vec<(usize, usize)> = round
                            .requests
                            .iter()
                            .enumerate()
                            .map(|(k, rid)| (answered_at.get(rid).copied().unwrap_or(0), k))
                            .collect();
                        order.sort();
                        let perm: Vec<usize> = order.iter().map(|x| x.1).collect();
                        if perm.windows(2).any(|p| p[0] > p[1]) {
                            ctx.count("marks_after_out_of_order_answers");
                        }
                        ctx.nontrivial(&("mark", w, rounds_seen.get(h).copied(), perm));
                    }
                }
            }
            _ => {}
        }
    }

    // rounds that contained a failed share and (correctly) ended without a mark
    for (h, r) in &rounds {
        if !r.marked {
            let failed = r
                .requests
                .iter()
                .any(|rid| matches!(reqs[rid].state, ReqState::TimedOut | ReqState::Closed));
            if failed && !r.aborted {
                ctx.count("rounds_with_timeout_unmarked");
                ctx.nontrivial(&("timeout-unmarked", out.truth.get(h).map(|t| t.width)));
            }
        }
    }
    v
}

pub fn profile() -> Profile {
    Profile {
        p_timeout: 0.25,
        w_answer: 30,
        w_answer_block: 22,
        w_timeout_err: 8,
        w_sleep_short: 8,
        w_sleep_long: 3,
        w_insert_head: 8,
        w_backfill: 5,
        w_report: 2,
        w_wtp: 4,
        w_remove: 5,
        w_toggle: 3,
        max_limit: 4,
        max_allowance: 3,
    }
}

pub fn run(ctx: &Ctx) {
    ctx.rule(
        "Each run: a fresh chain of 8..36 signed headers whose DAHs come from real extended squares (ODS widths \
         1,2,4,..,64, cached), a real Daser (limit 1..4, allowance 0..3, window 20 min/2 h/12 h) over a \
         LoggedStore<InMemoryStore> in paused tokio time, and 60..220 random harness actions: honest answers in \
         arbitrary order, Err(RequestTimedOut) answers, silence + virtual sleeps past lumina's per-share timeout, \
         new heads / back-fills / re-insertions, pruner grants and removals, disconnect/reconnect. Offline oracle \
         over the single ordered log. Non-trivial = a mark_as_sampled whose round was fully checked (keyed by \
         width, #shares, attempt number), a chosen-share set whose shape was checked, or a round containing a \
         timed-out share that ended without a mark.",
    );
    ctx.assume("Samples handed to the daser are honest and verified by the harness against the header's DAH; behind a mocked P2p the daser never sees an unverifiable sample (verification is the bitswap multihasher's job, C10)");
    ctx.assume("vnode::LoggedStore reports calls before / returns after the wrapped InMemoryStore operation; node events are drained before every store and harness event, so log order = real order");
    ctx.assume("Header times are >= 60 s inside / >= 10 min outside the sampling window and each run lasts < 20 s wall-clock (else discarded)");

    let sq = squares(ctx);
    let runs = if ctx.san() { 60 } else { ctx.scale3(4u64, 480, 9_000) };
    // `--replay FILE`: re-run only the schedule of the witness (harness decisions are seeded; lumina's
    // own coordinate choice and the wall-clock based header times differ slightly).
    let replay_case = ctx.replay.as_ref().and_then(|r| r["detail"]["run"]["case"].as_u64());
    let shards = ctx.cores();
    let prof = profile();
    ctx.par(shards, |shard| {
        for case in (shard as u64..runs).step_by(shards) {
            if replay_case.is_some_and(|c| c != case) {
                continue;
            }
            let mut rng = ctx.rng(1, case);
            let cfg = gen_cfg(&mut rng, &prof, (60, 220), ctx.tiny());
            let out = run_one(rng, cfg, sq);
            ctx.count("runs");
            if let Some(e) = &out.harness_err {
                ctx.count("runs_discarded_harness");
                ctx.inconclusive(&format!("harness error in run {case}: {e}"));
                continue;
            }
            if out.wall.as_secs() >= 20 {
                ctx.count("runs_discarded_wallclock");
                continue;
            }
            if out.daser_fatal.is_some() {
                ctx.count("runs_daser_fatal");
            }
            let viols = check(ctx, &out);
            let rid_h: BTreeMap<u64, u64> = out
                .log
                .iter()
                .filter_map(|e| match e {
                    Ev::Net(NetEv::Request { rid, cid, .. }) => decode_sample_cid(cid).map(|d| (*rid, d.0)),
                    _ => None,
                })
                .collect();
            for x in viols {
                ctx.violation(
                    &x.sig,
                    &x.msg,
                    json!({
                        "run": {"stream": 1, "case": case},
                        "cfg": cfg_json(&out.cfg),
                        "square_width_of_height": out.truth.get(&x.h).map(|t| t.width),
                        "log_index": x.at,
                        "history_of_height": excerpt(&out.log, x.at, x.h, &rid_h),
                    }),
                );
            }
            ctx.sample(|| {
                json!({
                    "case": case,
                    "cfg": cfg_json(&out.cfg),
                    "log_events": out.log.len(),
                    "daser_fatal": out.daser_fatal,
                    "first_events": out.log.iter().take(12).map(ev_str).collect::<Vec<_>>(),
                })
            });
        }
    });

    let q = ctx.quick() && !ctx.tiny();
    if !ctx.tiny() && !ctx.san() && replay_case.is_none() {
        // floors are on what the workload offered, not on how lumina reacted
        ctx.floor("marks", if q { 1_500 } else { 30_000 });
        ctx.floor("rounds_with_failed_share", if q { 150 } else { 3_000 });
        ctx.floor("shares_answered_timeout", if q { 100 } else { 2_000 });
        ctx.floor("shares_expired_by_lumina_timeout", if q { 100 } else { 2_000 });
        ctx.floor("rounds_aborted_by_disconnect", if q { 30 } else { 600 });
        ctx.floor("rounds_resampled", if q { 30 } else { 600 });
        ctx.floor("heights_removed", if q { 100 } else { 2_000 });
        for w in ODS_WIDTHS {
            ctx.floor(&format!("rounds_width_{}", w * 2), if q { 20 } else { 400 });
        }
    }
}
