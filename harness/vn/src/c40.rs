//! C40 — shrex peer pools contain only peers that announced the right data.
//!
//! Workload: the real `PoolTracker` (hook `lumina_node::verif::shrex::VPoolTracker`) over an
//! `InMemoryStore` wrapped in `vnode::LoggedStore`, 6 peers, a chain of 20 heights whose headers
//! carry pairwise distinct data hashes (DAHs of distinct small EDS). Random interleavings of
//!  * ShrEx/Sub notifications (encoded as `RecentEdsNotification`, passed through the real
//!    `decode_eds_notification` exactly as `shrex.rs` does; right hash / random wrong hash / the
//!    right hash of *another* height / near miss / invalid),
//!  * header arrivals in the store, * single polls and full drains of the tracker,
//!  * virtual-time jumps (tokio paused clock; 120 s validation timeout), * `remove_peer`.
//! After every step `get_pool(h)` is queried for every height under `vcore::guard`.
//!
//! Oracle (property text):
//!  1. a peer offered for `h` announced, earlier in the history, the data hash of the header stored at `h`
//!     (and that header was stored);
//!  2. blocked = appears in a `BlockPeers` event by the end of the next full drain:
//!     (a) wrong hash announced while the pool of `h` was validated, (b) wrong hash announced
//!     before validation, still a live vote when `h` got validated, (c) second announcement for `h`
//!     while the first is a live vote of the not-yet-validated pool;
//!  3. no pool (validated or candidate) exists for `h < newest validated height - 10`;
//!  4. `get_pool` never panics.
//! Not demanded (text silent / ambiguous, counted and reported instead): blocking on validation
//! timeout, a repeated *right-hash* announcement after validation (the code re-adds the peer and
//! does not block), the pool exactly ten below, anything about equal data hashes at two heights.

use std::collections::{BTreeMap, BTreeSet, HashSet};
use std::sync::Arc;
use std::sync::atomic::{AtomicU64, Ordering};
use std::task::{Context, Poll};
use std::time::Duration;

use celestia_proto::share::p2p::shrex::sub::RecentEdsNotification;
use celestia_types::hash::Hash;
use celestia_types::{AppVersion, DataAvailabilityHeader, ExtendedHeader};
use libp2p::PeerId;
use lumina_node::store::{InMemoryStore, Store, VerifiedExtendedHeaders};
use lumina_node::verif::shrex::{VEvent, VPoolTracker, decode_eds_notification};
use prost::Message;
use vcore::{ChaCha8Rng, Ctx, Rng, guard, hash64, json, panic_site};
use vgen::chain::{ChainGen, Flag};
use vnode::{Clock, LoggedStore, Sink, StoreEvent, StoreOp};

const PEERS: usize = 6;
const WINDOW: u64 = 10;
/// Switch for the ambiguous reading "announced twice [for an already validated height with the right
/// hash] => blocked". Off: observed and reported only.
const DEMAND_BLOCK_ON_REPEATED_RIGHT_HASH_AFTER_VALIDATION: bool = false;

type Tracker = VPoolTracker<LoggedStore<InMemoryStore>>;

struct Fixture {
    start: u64,
    headers: Vec<ExtendedHeader>,
    hashes: Vec<Hash>,
}

impl Fixture {
    fn end(&self) -> u64 {
        self.start + self.headers.len() as u64 - 1
    }
    fn right(&self, h: u64) -> Option<Hash> {
        if h >= self.start && h <= self.end() {
            Some(self.hashes[(h - self.start) as usize])
        } else {
            None
        }
    }
}

fn peer_id(i: usize) -> PeerId {
    let mut b = vec![0x12u8, 0x20];
    for k in 0..4u64 {
        b.extend_from_slice(&hash64(&(i as u64, k, "c40-peer")).to_le_bytes());
    }
    PeerId::from_bytes(&b).expect("valid multihash")
}

fn build_fixture(ctx: &Ctx, idx: u64, n: usize) -> Option<Fixture> {
    let mut rng: ChaCha8Rng = ctx.rng(10, idx);
    let start = *[1u64, 1, 2, 7, 11, 40, 1000].get(rng.gen_range(0..7)).unwrap();
    let tiny = ctx.tiny();
    let time = ChainGen::start_time_for(n as u64, Duration::from_secs(6), Duration::from_secs(3600));
    let mut chain = ChainGen::new(ctx.rng(11, idx), "c40-chain", 3, &[10], start, time, Duration::from_secs(6));
    // tiny mode: no signing (the store is filled through `new_unchecked`, the tracker never verifies)
    let flags: &[Flag] = if tiny { &[Flag::Absent] } else { &[] };
    let mut used: HashSet<Hash> = HashSet::new();
    for _ in 0..n {
        // distinct small squares (tiny mode: prefer the smallest, 1x1 ODS); a square whose DAH was
        // already used is re-drawn, so data hashes are pairwise distinct by construction
        let mut dah = None;
        for attempt in 0..200 {
            let w = if tiny && attempt < 3 { 1 } else { rng.gen_range(1..=2) };
            let (eds, _, _) = vgen::square::gen_eds(&mut rng, w, AppVersion::V3);
            let d = DataAvailabilityHeader::from_eds(&eds);
            if used.insert(d.hash()) {
                dah = Some(d);
                break;
            }
        }
        chain.next_with(Some(dah?), None, flags);
    }
    let headers = chain.headers.clone();
    let hashes: Vec<Hash> = headers.iter().map(|h| h.header.data_hash.expect("data hash")).collect();
    let distinct: HashSet<&Hash> = hashes.iter().collect();
    if distinct.len() != hashes.len() {
        return None; // outside the property as stated; never generated in practice
    }
    Some(Fixture { start, headers, hashes })
}

#[derive(Clone, Debug, PartialEq)]
enum St {
    Ok(Vec<PeerId>),
    Candidates,
    TooOld,
    NotTracked,
    OtherErr(String),
}

impl St {
    fn exists(&self) -> bool {
        matches!(self, St::Ok(_) | St::Candidates)
    }
}

#[derive(Clone, Copy, Debug, PartialEq, Eq, Hash)]
enum HashKind {
    Right,
    WrongRandom,
    WrongOtherHeight,
    WrongNearMiss,
    Invalid,
}

#[derive(Clone, Debug, Hash)]
enum Step {
    Announce { peer: usize, height: u64, kind: HashKind },
    Insert(u64),
    PollOnce,
    Drain,
    Advance(u64),
    RemovePeer(usize),
}

#[derive(Clone, Debug)]
struct Obligation {
    peer: usize,
    height: u64,
    since: usize,
    created: usize,
    kind: &'static str,
}

struct Mon<'a> {
    ctx: &'a Ctx,
    case: u64,
    fx: &'a Fixture,
    ids: Vec<PeerId>,
    tracker: Tracker,
    store: Arc<LoggedStore<InMemoryStore>>,
    next_insert: u64,
    inserted: BTreeSet<u64>,
    announced: HashSet<(usize, u64, Hash)>,
    announced_heights: HashSet<(usize, u64)>,
    status: BTreeMap<u64, St>,
    votes: BTreeMap<u64, BTreeMap<usize, Hash>>,
    obligations: Vec<Obligation>,
    blocks: Vec<(usize, usize)>,
    newest_validated: Option<u64>,
    steps: Vec<Step>,
    failed: bool,
    heights: Vec<u64>,
}

fn raw32(rng: &mut impl Rng) -> [u8; 32] {
    let mut b = [0u8; 32];
    rng.fill_bytes(&mut b);
    b
}

fn poll_tracker(t: &mut Tracker) -> Poll<Option<VEvent>> {
    let waker = futures::task::noop_waker();
    let mut cx = Context::from_waker(&waker);
    t.poll(&mut cx)
}

impl Mon<'_> {
    fn now(&self) -> usize {
        self.steps.len()
    }

    fn viol(&mut self, sig: &str, msg: String) {
        if self.failed {
            return;
        }
        self.failed = true;
        let hist: Vec<String> = self.steps.iter().map(|s| format!("{s:?}")).collect();
        self.ctx.violation(
            sig,
            &msg,
            json!({"case": self.case, "chain_start": self.fx.start, "chain_len": self.fx.headers.len(),
                   "steps": hist.len(), "history": hist}),
        );
    }

    fn harness_panic(&mut self, op: &str, p: &str) {
        // not a pool query: outside what the property promises; surfaced, never folded into held
        self.failed = true;
        self.ctx.inconclusive(&format!("lumina panicked in PoolTracker::{op} (not a pool query): {p}"));
    }

    fn query(&mut self, h: u64) -> Option<St> {
        self.ctx.eval();
        let t = &self.tracker;
        match guard(|| t.get_pool(h)) {
            Err(p) => {
                let site = panic_site(&p);
                self.viol(&format!("C40/get_pool/panic/{site}"), format!("get_pool({h}) panicked: {p}"));
                None
            }
            Ok(Ok(peers)) => Some(St::Ok(peers)),
            Ok(Err(e)) => Some(if e.starts_with("Pool candidates exist") {
                St::Candidates
            } else if e.starts_with("Pool for given height is old") {
                St::TooOld
            } else if e.starts_with("Height not tracked") {
                St::NotTracked
            } else {
                St::OtherErr(e)
            }),
        }
    }

    fn peer_index(&self, id: &PeerId) -> Option<usize> {
        self.ids.iter().position(|x| x == id)
    }

    /// Query every height, check clauses 1, 3, 4, update the vote bookkeeping from status changes.
    fn check_all(&mut self) {
        let heights = self.heights.clone();
        for h in heights {
            let Some(st) = self.query(h) else { return };
            let prev = self.status.get(&h).cloned().unwrap_or(St::NotTracked);
            if let St::Ok(peers) = &st {
                // clause 1
                let right = self.fx.right(h);
                let stored = self.inserted.contains(&h);
                if !stored || right.is_none() {
                    let msg = format!("pool of height {h} is validated (offers {} peers) but no header was stored at that height", peers.len());
                    self.viol("C40/get_pool/validated-without-stored-header", msg);
                    return;
                }
                let right = right.unwrap();
                let mut seen = BTreeSet::new();
                for id in peers {
                    self.ctx.count("offered_peers_checked");
                    let Some(p) = self.peer_index(id) else {
                        self.viol("C40/get_pool/offers-unknown-peer", format!("height {h}: {id} never announced anything"));
                        return;
                    };
                    if !seen.insert(p) {
                        self.ctx.count("observed_duplicate_entry_in_offered_pool");
                    }
                    if !self.announced.contains(&(p, h, right)) {
                        let (sig, what) = if self.announced_heights.contains(&(p, h)) {
                            ("C40/get_pool/offers-peer-that-announced-another-hash", "only announced other hashes for")
                        } else {
                            ("C40/get_pool/offers-peer-that-never-announced-height", "never announced")
                        };
                        let msg = format!("peer #{p} is offered for height {h} but {what} that height (stored data hash {right})");
                        self.viol(sig, msg);
                        return;
                    }
                }
                if !matches!(prev, St::Ok(_)) {
                    self.ctx.count("pool_validations_observed");
                    if peers.is_empty() {
                        self.ctx.count("validated_pool_empty");
                    }
                }
                if self.newest_validated.is_none_or(|n| h > n) {
                    self.newest_validated = Some(h);
                }
            }
            // status transitions -> vote bookkeeping / obligations
            if prev == St::Candidates && st != St::Candidates {
                let votes = self.votes.remove(&h).unwrap_or_default();
                match &st {
                    St::Ok(_) => {
                        let right = self.fx.right(h);
                        for (p, hash) in votes {
                            if Some(hash) != right {
                                // the vote is still live, so no BlockPeers named the peer since it voted:
                                // only a BlockPeers emitted from now on can meet the obligation
                                self.obligations.push(Obligation {
                                    peer: p,
                                    height: h,
                                    since: self.now(),
                                    created: self.now(),
                                    kind: "wrong-hash-before-validation",
                                });
                                self.ctx.count("obligation_wrong_hash_before_validation");
                            }
                        }
                    }
                    St::TooOld => self.ctx.count("candidate_pool_evicted"),
                    _ => self.ctx.count("candidate_pool_dropped"),
                }
            }
            if matches!(prev, St::Ok(_)) && !matches!(st, St::Ok(_)) {
                self.ctx.count("validated_pool_evicted");
                if st == St::Candidates {
                    self.ctx.count("observed_validated_pool_became_candidates");
                }
            }
            if let St::OtherErr(e) = &st {
                self.ctx.count(&format!("get_pool_other_error:{e}"));
            }
            self.status.insert(h, st);
        }
        // clause 3
        if let Some(n) = self.newest_validated {
            let stale: Vec<(u64, St)> = self
                .status
                .iter()
                .filter(|(h, st)| st.exists() && **h + WINDOW < n)
                .map(|(h, st)| (*h, st.clone()))
                .collect();
            if let Some((h, st)) = stale.first() {
                let kind = if matches!(st, St::Ok(_)) { "validated" } else { "candidate" };
                let msg = format!("{kind} pool of height {h} still exists although height {n} is validated ({} below)", n - h);
                self.viol(&format!("C40/eviction/{kind}-pool-kept-more-than-10-below-newest-validated"), msg);
                return;
            }
            if self.status.iter().any(|(h, st)| st.exists() && *h + WINDOW == n) {
                self.ctx.count("observed_pool_exactly_10_below_newest_validated");
            }
        }
    }

    /// Clause 2: every obligation created up to now must be met by a `BlockPeers` naming the peer
    /// at or after the causing step. Called when the tracker has been drained.
    fn check_obligations(&mut self) {
        let obs = std::mem::take(&mut self.obligations);
        for o in obs {
            let met = self.blocks.iter().any(|(step, p)| *p == o.peer && *step >= o.since);
            if met {
                self.ctx.count(&format!("blocked:{}", o.kind));
            } else {
                let msg = format!(
                    "peer #{} ({}) for height {} at step {} was not named in any BlockPeers event up to the end of the next full drain (step {})",
                    o.peer, o.kind, o.height, o.created, self.now()
                );
                self.viol(&format!("C40/block/{}-not-blocked", o.kind), msg);
                return;
            }
        }
    }

    fn on_event(&mut self, ev: VEvent) {
        match ev {
            VEvent::AddPeers(peers) => {
                self.ctx.count("event_add_peers");
                self.ctx.count_n("event_add_peers_total", peers.len() as u64);
            }
            VEvent::BlockPeers(peers) => {
                self.ctx.count("event_block_peers");
                for id in peers {
                    if let Some(p) = self.peer_index(&id) {
                        let now = self.now();
                        self.blocks.push((now, p));
                        // the tracker removes a blocked peer from all pools when it emits the event
                        for v in self.votes.values_mut() {
                            v.remove(&p);
                        }
                    }
                }
            }
            VEvent::SchedulePendingRequests => {}
        }
    }

    fn notification_bytes(&self, rng: &mut impl Rng, height: u64, kind: HashKind) -> (Vec<u8>, Option<Hash>) {
        let right = self.fx.right(height);
        let raw = raw32;
        let bytes: Vec<u8> = match kind {
            HashKind::Right => match right {
                Some(Hash::Sha256(b)) => b.to_vec(),
                _ => raw(rng).to_vec(),
            },
            HashKind::WrongRandom => raw(rng).to_vec(),
            HashKind::WrongOtherHeight => {
                let i = rng.gen_range(0..self.fx.hashes.len());
                match self.fx.hashes[i] {
                    Hash::Sha256(b) if Some(self.fx.hashes[i]) != right => b.to_vec(),
                    _ => raw(rng).to_vec(),
                }
            }
            HashKind::WrongNearMiss => match right {
                Some(Hash::Sha256(mut b)) => {
                    b[rng.gen_range(0..32)] ^= 1 << rng.gen_range(0..8);
                    b.to_vec()
                }
                _ => raw(rng).to_vec(),
            },
            HashKind::Invalid => match rng.gen_range(0..3) {
                0 => vec![0u8; 32],
                1 => raw(rng)[..rng.gen_range(0..32)].to_vec(),
                _ => {
                    let mut v = raw(rng).to_vec();
                    v.push(1);
                    v
                }
            },
        };
        let msg = RecentEdsNotification { height, data_hash: bytes };
        let enc = msg.encode_to_vec();
        let decoded = decode_eds_notification(&enc).ok().map(|(_, h)| h);
        (enc, decoded)
    }

    fn announce(&mut self, rng: &mut impl Rng, peer: usize, height: u64, kind: HashKind) {
        let (enc, decoded) = self.notification_bytes(rng, height, kind);
        // exactly what shrex.rs does with a gossipsub message
        let Ok((h, hash)) = decode_eds_notification(&enc) else {
            self.ctx.count("notification_rejected_by_decoder");
            return;
        };
        debug_assert_eq!(Some(hash), decoded);
        let before = self.status.get(&h).cloned().unwrap_or(St::NotTracked);
        let id = self.ids[peer];
        let t = &mut self.tracker;
        if let Err(p) = guard(|| t.add_peer_for_hash(id, hash, h)) {
            self.harness_panic("add_peer_for_hash", &p);
            return;
        }
        let right = self.fx.right(h);
        // "announced twice" after validation: the peer already sits in the offered pool and announces the
        // right hash again
        let repeated_right = Some(hash) == right && matches!(&before, St::Ok(peers) if peers.contains(&id));
        self.announced.insert((peer, h, hash));
        self.announced_heights.insert((peer, h));
        self.ctx.count(&format!("announce:{kind:?}"));
        let Some(after) = self.query(h) else { return };
        let now = self.now();
        match (&before, &after) {
            (St::Ok(_), _) => {
                if Some(hash) != right {
                    self.obligations.push(Obligation { peer, height: h, since: now, created: now, kind: "wrong-hash-after-validation" });
                    self.ctx.count("obligation_wrong_hash_after_validation");
                } else if repeated_right {
                    self.ctx.count("observed_repeated_right_hash_after_validation");
                    if DEMAND_BLOCK_ON_REPEATED_RIGHT_HASH_AFTER_VALIDATION {
                        self.obligations.push(Obligation { peer, height: h, since: now, created: now, kind: "repeated-right-hash-after-validation" });
                    }
                } else {
                    self.ctx.count("right_hash_after_validation");
                }
            }
            (St::Candidates, _) | (St::NotTracked, St::Candidates) | (St::TooOld, St::Candidates) => {
                let v = self.votes.entry(h).or_default();
                if v.contains_key(&peer) {
                    self.obligations.push(Obligation { peer, height: h, since: now, created: now, kind: "double-announce-before-validation" });
                    self.ctx.count("obligation_double_announce_before_validation");
                } else {
                    v.insert(peer, hash);
                    self.ctx.count("vote_registered");
                }
            }
            (_, St::TooOld) => self.ctx.count("announce_ignored_too_old"),
            (_, _) => self.ctx.count("announce_ignored_not_tracked"),
        }
    }

    async fn insert_next(&mut self, n: u64) {
        let mut batch = Vec::new();
        for _ in 0..n {
            if self.next_insert > self.fx.end() {
                break;
            }
            batch.push(self.fx.headers[(self.next_insert - self.fx.start) as usize].clone());
            self.inserted.insert(self.next_insert);
            self.next_insert += 1;
        }
        if batch.is_empty() {
            return;
        }
        // SAFETY (logical marker only): the chain is honest by construction; the tracker under test
        // never verifies headers, it reads `data_hash` of what the store returns.
        let v = unsafe { VerifiedExtendedHeaders::new_unchecked(batch) };
        if let Err(e) = self.store.insert(v).await {
            self.failed = true;
            self.ctx.inconclusive(&format!("harness: store insert failed: {e}"));
        }
        self.ctx.count("headers_inserted");
    }

    fn poll(&mut self, drain: bool) {
        let mut n = 0;
        loop {
            n += 1;
            if n > 100_000 {
                self.failed = true;
                self.ctx.inconclusive("harness: tracker poll did not become Pending after 100000 polls");
                return;
            }
            let t = &mut self.tracker;
            match guard(|| poll_tracker(t)) {
                Err(p) => {
                    self.harness_panic("poll", &p);
                    return;
                }
                Ok(Poll::Pending) => {
                    if drain {
                        self.check_all();
                        if !self.failed {
                            self.check_obligations();
                        }
                    }
                    return;
                }
                Ok(Poll::Ready(Some(ev))) => self.on_event(ev),
                Ok(Poll::Ready(None)) => {}
            }
            if !drain {
                return;
            }
        }
    }
}

fn gen_step(rng: &mut impl Rng, fx: &Fixture, next_insert: u64) -> Step {
    let peer = rng.gen_range(0..PEERS);
    match rng.gen_range(0..100) {
        0..=51 => {
            let head = next_insert.saturating_sub(1).max(fx.start);
            let height = match rng.gen_range(0..10) {
                0..=4 => (head + rng.gen_range(0..4)).min(fx.end() + 3),
                5..=6 => head.saturating_sub(rng.gen_range(0..4)).max(1),
                7 => rng.gen_range(fx.start.saturating_sub(2).max(1)..=fx.end() + 4),
                8 => head.saturating_sub(rng.gen_range(8..14)).max(1),
                _ => rng.gen_range(fx.start..=fx.end()),
            };
            let kind = match rng.gen_range(0..100) {
                0..=59 => HashKind::Right,
                60..=73 => HashKind::WrongRandom,
                74..=88 => HashKind::WrongOtherHeight,
                89..=94 => HashKind::WrongNearMiss,
                _ => HashKind::Invalid,
            };
            Step::Announce { peer, height, kind }
        }
        52..=66 => Step::Insert(rng.gen_range(1..=3)),
        67..=76 => Step::PollOnce,
        77..=89 => Step::Drain,
        90..=95 => Step::Advance(*[1u64, 10, 59, 61, 90, 150, 400].get(rng.gen_range(0..7)).unwrap()),
        _ => Step::RemovePeer(peer),
    }
}

async fn history(ctx: &Ctx, case: u64, fx: &Fixture, store_calls: &Arc<AtomicU64>, wait_calls: &Arc<AtomicU64>) {
    let mut rng = ctx.rng(1, case);
    let clock = Clock::new();
    let (sc, wc) = (store_calls.clone(), wait_calls.clone());
    let sink: Sink<StoreEvent> = Arc::new(move |e| {
        if let StoreEvent::Call { op, .. } = e {
            sc.fetch_add(1, Ordering::Relaxed);
            if matches!(op, StoreOp::WaitHeight(_) | StoreOp::WaitNewHead) {
                wc.fetch_add(1, Ordering::Relaxed);
            }
        }
    });
    let store = Arc::new(LoggedStore::new(InMemoryStore::new(), clock, sink));
    let lo = fx.start.saturating_sub(2).max(1);
    let mut heights: Vec<u64> = (lo..=fx.end() + 5).collect();
    heights.extend([0, u64::MAX]);
    let mut m = Mon {
        ctx,
        case,
        fx,
        ids: (0..PEERS).map(peer_id).collect(),
        tracker: VPoolTracker::new(store.clone()),
        store,
        next_insert: fx.start,
        inserted: BTreeSet::new(),
        announced: HashSet::new(),
        announced_heights: HashSet::new(),
        status: BTreeMap::new(),
        votes: BTreeMap::new(),
        obligations: Vec::new(),
        blocks: Vec::new(),
        newest_validated: None,
        steps: Vec::new(),
        failed: false,
        heights,
    };
    // initial store content: empty / a few headers; the tracker learns its head on a later poll
    let prefill = *[0u64, 0, 1, 3, 12].get(rng.gen_range(0..5)).unwrap();
    if prefill > 0 {
        m.steps.push(Step::Insert(prefill));
        m.insert_next(prefill).await;
    }
    if rng.gen_bool(0.7) {
        m.steps.push(Step::Drain);
        m.poll(true);
    }
    m.check_all();
    let n_steps = if ctx.tiny() { rng.gen_range(20..40) } else { rng.gen_range(40..220) };
    for _ in 0..n_steps {
        if m.failed {
            break;
        }
        let step = gen_step(&mut rng, fx, m.next_insert);
        m.steps.push(step.clone());
        match step {
            Step::Announce { peer, height, kind } => m.announce(&mut rng, peer, height, kind),
            Step::Insert(n) => m.insert_next(n).await,
            Step::PollOnce => m.poll(false),
            Step::Drain => m.poll(true),
            Step::Advance(s) => {
                tokio::time::advance(Duration::from_secs(s)).await;
                ctx.count("virtual_time_jumps");
            }
            Step::RemovePeer(p) => {
                let id = m.ids[p];
                let t = &mut m.tracker;
                if let Err(e) = guard(|| t.remove_peer(&id)) {
                    m.harness_panic("remove_peer", &e);
                }
                for v in m.votes.values_mut() {
                    v.remove(&p);
                }
                ctx.count("remove_peer");
            }
        }
        if !m.failed {
            m.check_all();
        }
    }
    // epilogue: let every pending validation time out, drain, final checks
    if !m.failed {
        m.steps.push(Step::Drain);
        m.poll(true);
    }
    if !m.failed {
        m.steps.push(Step::Advance(130));
        tokio::time::advance(Duration::from_secs(130)).await;
        m.steps.push(Step::Drain);
        m.poll(true);
        if !m.failed && m.status.values().any(|s| *s == St::Candidates) {
            // a candidate pool older than the validation timeout: allowed by the text; record it
            ctx.count("observed_candidate_pool_surviving_130s");
        }
    }
    ctx.count("histories");
    ctx.nontrivial(&hash64(&(fx.start, &m.steps)));
    ctx.sample(|| {
        json!({"case": case, "chain_start": fx.start, "steps": m.steps.len(),
               "first_steps": m.steps.iter().take(14).map(|s| format!("{s:?}")).collect::<Vec<_>>(),
               "newest_validated": m.newest_validated, "block_events_peers": m.blocks.len()})
    });
}

pub fn run(ctx: &Ctx) {
    ctx.rule(
        "random interleavings of ShrEx/Sub notifications (right / random wrong / other height's / near-miss / invalid \
         hash; 6 peers; heights around the store head, stale, future), header arrivals, single polls, full drains, \
         virtual-time jumps (1..400 s) and remove_peer over chains of 20 headers with pairwise distinct data hashes; \
         get_pool(h) for every height after every step. Non-trivial = distinct step sequence (hash of chain start + steps).",
    );
    ctx.assume("tokio paused clock drives the 120 s validation timeout; InMemoryStore behaves as a store (C19/C20)");
    ctx.assume("equal data hashes at two heights are outside the property as stated and are not generated");
    ctx.assume("'blocked' = named in a BlockPeers event by the end of the next full drain of the tracker");
    let shards = ctx.cores();
    let san = if ctx.san() { 8 } else { 1 };
    let histories = ctx.scale3(2u64, 8_000 / san, 100_000 / san);
    let chain_len = if ctx.tiny() { 4 } else { 20 };
    let fixtures_per_shard = ctx.scale3(1u64, 2, 8);
    let store_calls = Arc::new(AtomicU64::new(0));
    let wait_calls = Arc::new(AtomicU64::new(0));
    ctx.par(shards, |shard| {
        let fixtures: Vec<Fixture> = (0..fixtures_per_shard)
            .filter_map(|k| build_fixture(ctx, shard as u64 * 100 + k, chain_len))
            .collect();
        if fixtures.is_empty() {
            ctx.inconclusive("harness: generated chain had equal data hashes at two heights");
            return;
        }
        ctx.count_n("fixture_chains", fixtures.len() as u64);
        for (i, case) in (shard as u64..histories).step_by(shards).enumerate() {
            let fx = &fixtures[i % fixtures.len()];
            let rt = tokio::runtime::Builder::new_current_thread()
                .enable_time()
                .start_paused(true)
                .build()
                .expect("runtime");
            rt.block_on(history(ctx, case, fx, &store_calls, &wait_calls));
        }
    });
    ctx.extra("store_calls_by_tracker_and_harness", json!(store_calls.load(Ordering::Relaxed)));
    ctx.extra("store_wait_calls_by_tracker", json!(wait_calls.load(Ordering::Relaxed)));
    if !ctx.tiny() && !ctx.san() {
        ctx.floor("offered_peers_checked", 10_000);
        ctx.floor("pool_validations_observed", 1_000);
        ctx.floor("blocked:wrong-hash-after-validation", 100);
        ctx.floor("blocked:wrong-hash-before-validation", 100);
        ctx.floor("blocked:double-announce-before-validation", 100);
        ctx.floor("validated_pool_evicted", 100);
        ctx.floor("candidate_pool_dropped", 50);
        ctx.floor("announce:WrongOtherHeight", 100);
    }
}
