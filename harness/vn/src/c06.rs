//! C06 through lumina-node: the same workload and oracle as `vt/src/c06.rs`, with the shrex
//! response codec (`ResponseCodec for NamespaceData`: sequence of length-delimited rows,
//! `NamespaceData::from_raw`, `NamespaceData::verify`) as the decoder/verifier under observation.

use lumina_node::verif::shrex;

#[allow(dead_code)]
#[path = "../../vt/src/c06.rs"]
mod base;

pub fn run(ctx: &vcore::Ctx) {
    base::run_with(
        ctx,
        &base::Codec {
            name: "shrex",
            direct: false,
            encode: |nd| shrex::encode_namespace_data_response(nd),
            frame: base::frame_rows,
            decode_verify: |b, id, dah, app| shrex::decode_and_verify_namespace_data(b, &id, dah, app),
        },
    );
}
