//! C20 — failed store operations leave the store unchanged.
//!
//! Same engine as C19 with a failure-heavy operation mix: every operation that returns an error
//! (or panics) on a backend must leave the full query sweep of that backend exactly as it was
//! before the operation, and the corrected batch (the valid batch the rejected one was derived
//! from) is inserted right afterwards and must be accepted.

#[path = "c19_model.rs"]
mod c19_model;

use c19_model::{Cfg, common_assumptions, run_histories};
use vcore::Ctx;

pub fn run(ctx: &Ctx) {
    ctx.rule(
        "histories as in C19 with ~50% failing operations: every rejection kind (HeadersVerificationFailed, \
         NeighborsVerificationFailed, ConstraintsNotMet, HashExists of a stored header / inside the batch, NotFound for \
         remove/mark/metadata) with the defect at every position of batches of length 1..8 (coverage table \
         combo/<kind>/L<len>/p<pos>). Oracle per failed op and backend: sweep-before == sweep-after; the corrected batch is \
         the next op and must return Ok. Non-trivial = (rejection kind, batch length, defect position) combination whose \
         before/after sweeps were compared; histories with a re-insertion after a rejection count as well.",
    );
    common_assumptions(ctx);
    let cfg = Cfg {
        prop: "C20",
        universes: ctx.scale(vec![8, 16, 24], vec![12, 24, 48, 80]),
        ops: ctx.scale(80, 250),
        max_batch: 8,
        w: [22, 48, 12, 8, 10],
        p_correct: 1.0,
        forks_everywhere: false,
        n_forks: 4,
        histories: ctx.scale(80, 160),
        positional: true,
    };
    ctx.extra("config", vcore::json!(format!("{cfg:?}")));
    run_histories(ctx, &cfg);
    // floors are on what the generator/model produced (a broken store must not turn a
    // violation into "inconclusive"); c20_checked_after_<kind> counts the comparisons made
    for k in [
        "insert_rejected_HeadersVerificationFailed",
        "insert_rejected_NeighborsVerificationFailed",
        "insert_rejected_ConstraintsNotMet",
        "insert_rejected_HashExists",
        "remove_height_rejected_NotFound",
        "mark_as_sampled_rejected_NotFound",
        "update_sampling_metadata_rejected_NotFound",
    ] {
        ctx.floor(k, 40);
    }
    for kind in ["HeadersVerificationFailed", "ConstraintsNotMet", "HashExists"] {
        for pos in ["first", "middle", "last"] {
            ctx.floor(&format!("reject_{kind}_at_{pos}"), 5);
        }
    }
    ctx.floor("reject_NeighborsVerificationFailed_at_first", 5);
    ctx.floor("reject_NeighborsVerificationFailed_at_last", 5);
    ctx.floor("reject_HashExists_at_only", 10);
    ctx.floor("corrected_batches_inserted", 200);
}
