//! C10 — bitswap accepts Shwap blocks only when they verify against the DAH.
//!
//! The real `ShwapMultihasher::hash` (reached through the `lumina_node::verif::shwap` pass-through
//! hook) runs against an `InMemoryStore` holding a signed chain whose headers commit to real
//! extended squares. It is given honest and hostile `bitswap.Block`s for the three identifier types.
//!
//! Ground truth: the raw bytes of the square of the *stored* header at the identifier's height
//! (`vgen::square` accessors), and identifier bytes / CIDs / multihashes assembled by the harness
//! from the wire layout (height u64 BE | row u16 BE | col u16 BE or namespace) with the `cid` crate.
//!
//! Oracle (property text): `Ok(hash)` ⇒ the multihash code is one of the three Shwap codes, the
//! block's CID is a well-formed identifier of that type, `hash` is that identifier's multihash, a
//! header is stored at the identifier's height and what the container carries is what the square of
//! that header holds at the identifier; an honest block for a stored height ⇒ `Ok`; never a panic.

use std::sync::Arc;
use std::time::Duration;

use bytes::BytesMut;
use celestia_proto::bitswap::Block;
use celestia_proto::shwap::{Row as RawRow, Share as RawShare, row::HalfSide};
use celestia_types::consts::appconsts::AppVersion;
use celestia_types::nmt::{NS_SIZE, Namespace};
use celestia_types::row::Row;
use celestia_types::row_namespace_data::RowNamespaceData;
use celestia_types::sample::Sample;
use celestia_types::{AxisType, DataAvailabilityHeader, ExtendedDataSquare};
use cid::Cid;
use lumina_node::store::{InMemoryStore, Store};
use lumina_node::verif::shwap::{get_block_container, multihash, sample_cid};
use multihash::Multihash;
use prost::Message;
use vcore::{ChaCha8Rng, Ctx, Rng, SeedableRng, SliceRandom, Value, guard, hex, json, panic_site};
use vgen::chain::ChainGen;
use vgen::square::{OdsInfo, gen_eds, random_app_version, random_user_namespace, scan_namespace, share_bytes};

const ROW_CODE: u64 = 0x7801;
const ROW_CODEC: u64 = 0x7800;
const SAMPLE_CODE: u64 = 0x7811;
const SAMPLE_CODEC: u64 = 0x7810;
const RND_CODE: u64 = 0x7821;
const RND_CODEC: u64 = 0x7820;

#[derive(Clone, Copy, PartialEq, Debug)]
enum Expect {
    Accept,
    Reject,
    /// the text leaves it open; only the hash value and absence of panics are checked
    Either,
}

fn sample_id_bytes(height: u64, row: u16, col: u16) -> Vec<u8> {
    let mut v = height.to_be_bytes().to_vec();
    v.extend_from_slice(&row.to_be_bytes());
    v.extend_from_slice(&col.to_be_bytes());
    v
}
fn row_id_bytes(height: u64, row: u16) -> Vec<u8> {
    let mut v = height.to_be_bytes().to_vec();
    v.extend_from_slice(&row.to_be_bytes());
    v
}
fn rnd_id_bytes(height: u64, row: u16, ns: &[u8]) -> Vec<u8> {
    let mut v = row_id_bytes(height, row);
    v.extend_from_slice(ns);
    v
}

fn mk_cid(codec: u64, code: u64, digest: &[u8]) -> Cid {
    Cid::new_v1(codec, Multihash::<64>::wrap(code, digest).expect("digest fits"))
}

fn mk_block(cid: &Cid, container: &[u8]) -> Vec<u8> {
    Block { cid: cid.to_bytes(), container: container.to_vec() }.encode_to_vec()
}

struct Height {
    h: u64,
    k: usize,
    eds: ExtendedDataSquare,
    dah: DataAvailabilityHeader,
    info: OdsInfo,
}

struct World {
    store: Arc<InMemoryStore>,
    heights: Vec<Height>,
    unknown: Vec<u64>,
}

struct Case {
    kind: &'static str,
    class: String,
    code: u64,
    block: Vec<u8>,
    expect: Expect,
    /// multihash bytes an `Ok` must carry
    want_hash: Option<Vec<u8>>,
    descr: Value,
}

fn sample_container(eds: &ExtendedDataSquare, r: usize, c: usize, axis: AxisType) -> (Vec<u8>, Vec<u8>) {
    let s = Sample::new(r as u16, c as u16, axis, eds).expect("sample");
    let mut b = BytesMut::new();
    s.encode(&mut b);
    (b.to_vec(), s.share.to_vec())
}

fn row_container(eds: &ExtendedDataSquare, r: usize) -> Vec<u8> {
    let row = Row::new(r as u16, eds).expect("row");
    let mut b = BytesMut::new();
    row.encode(&mut b);
    b.to_vec()
}

fn rnd_container(d: &RowNamespaceData) -> Vec<u8> {
    let mut b = BytesMut::new();
    d.encode(&mut b);
    b.to_vec()
}

fn flip_one(rng: &mut ChaCha8Rng, v: &mut [u8], at: usize) {
    v[at] ^= 1 << rng.gen_range(0..8);
}

/// Find the offset of `needle` in `hay` (containers embed share bytes verbatim).
fn find(hay: &[u8], needle: &[u8]) -> Option<usize> {
    hay.windows(needle.len()).position(|w| w == needle)
}

fn sample_cases(rng: &mut ChaCha8Rng, world: &World, hi: usize, out: &mut Vec<Case>, n_cells: usize) {
    let ht = &world.heights[hi];
    let w = 2 * ht.k;
    let k = ht.k;
    for _ in 0..n_cells {
        let (r, c) = match rng.gen_range(0..5) {
            0 => (rng.gen_range(0..k), rng.gen_range(0..k)),
            1 => (rng.gen_range(0..k), rng.gen_range(k..w)),
            2 => (rng.gen_range(k..w), rng.gen_range(0..k)),
            3 => (rng.gen_range(k..w), rng.gen_range(k..w)),
            _ => (*[0, k - 1, k, w - 1].choose(rng).unwrap(), *[0, k - 1, k, w - 1].choose(rng).unwrap()),
        };
        let axis = if rng.gen_bool(0.5) { AxisType::Row } else { AxisType::Col };
        let truth = share_bytes(&ht.eds, r, c).to_vec();
        let idb = sample_id_bytes(ht.h, r as u16, c as u16);
        let cid = mk_cid(SAMPLE_CODEC, SAMPLE_CODE, &idb);
        let want = Multihash::<64>::wrap(SAMPLE_CODE, &idb).unwrap().to_bytes();
        let (cont, carried) = sample_container(&ht.eds, r, c, axis);
        assert_eq!(carried, truth);
        let d = |what: &str, extra: Value| json!({"type": "sample", "height": ht.h, "eds_width": w, "row": r, "col": c, "proof_type": format!("{axis:?}"), "what": what, "extra": extra});
        let mut push = |class: &str, code: u64, block: Vec<u8>, expect: Expect, want_hash: Option<Vec<u8>>, descr: Value| {
            out.push(Case { kind: "sample", class: class.to_string(), code, block, expect, want_hash, descr });
        };
        push("honest", SAMPLE_CODE, mk_block(&cid, &cont), Expect::Accept, Some(want.clone()), d("honest", json!(null)));

        // Is `share` the content of some cell on the axis of the identifier that a proof of type
        // `along` is checked against (row `r` / column `c`)? Then accepting it for (r, c) is the
        // "position not bound" class (the sample is a correct sample of another position of that axis).
        let on_id_axis = |share: &[u8], along: AxisType| -> bool {
            (0..w).any(|i| match along {
                AxisType::Row => share_bytes(&ht.eds, r, i)[..] == *share,
                AxisType::Col => share_bytes(&ht.eds, i, c)[..] == *share,
            })
        };
        // id != container: honest sample of another cell of the same row / column, proven on that axis
        for along in [AxisType::Row, AxisType::Col] {
            let (r2, c2) = match along {
                AxisType::Row => (r, (c + rng.gen_range(1..w)) % w),
                AxisType::Col => ((r + rng.gen_range(1..w)) % w, c),
            };
            let (cont2, carried2) = sample_container(&ht.eds, r2, c2, along);
            let expect = if carried2 == truth { Expect::Either } else { Expect::Reject };
            push("position", SAMPLE_CODE, mk_block(&cid, &cont2), expect, Some(want.clone()), d("honest sample of another cell on the proven axis", json!({"from": [r2, c2], "proven_along": format!("{along:?}")})));
        }
        // honest sample of a cell on another row and column
        {
            let (r2, c2) = ((r + rng.gen_range(1..w)) % w, (c + rng.gen_range(1..w)) % w);
            let (cont2, carried2) = sample_container(&ht.eds, r2, c2, axis);
            let expect = if carried2 == truth { Expect::Either } else { Expect::Reject };
            // two identical rows / columns have the same root: the share is then also a cell of the identifier's axis
            let class = if on_id_axis(&carried2, axis) { "position-duplicate-axis" } else { "other-cell" };
            push(class, SAMPLE_CODE, mk_block(&cid, &cont2), expect, Some(want.clone()), d("honest sample of an unrelated cell", json!({"from": [r2, c2]})));
        }
        // the same cell of another stored height
        if world.heights.len() > 1 {
            let oi = (hi + rng.gen_range(1..world.heights.len())) % world.heights.len();
            let o = &world.heights[oi];
            if r < 2 * o.k && c < 2 * o.k {
                let (cont2, carried2) = sample_container(&o.eds, r, c, axis);
                let expect = if carried2 == truth { Expect::Either } else { Expect::Reject };
                push("other-height", SAMPLE_CODE, mk_block(&cid, &cont2), expect, Some(want.clone()), d("honest sample of the same cell at another stored height", json!({"from_height": o.h})));
            }
        }
        // honest container, identifier of a height that is not stored
        {
            let uh = *world.unknown.choose(rng).unwrap();
            let idb2 = sample_id_bytes(uh, r as u16, c as u16);
            let cid2 = mk_cid(SAMPLE_CODEC, SAMPLE_CODE, &idb2);
            push("unknown-height", SAMPLE_CODE, mk_block(&cid2, &cont), Expect::Reject, None, d("identifier height not stored", json!({"id_height": uh})));
        }
        // coordinates outside the square
        {
            let row_out = rng.gen_bool(0.5);
            let (r2, c2) = if row_out { (w as u16 + rng.gen_range(0..3), c as u16) } else { (r as u16, *[w as u16, u16::MAX].choose(rng).unwrap()) };
            let cid2 = mk_cid(SAMPLE_CODEC, SAMPLE_CODE, &sample_id_bytes(ht.h, r2, c2));
            // the coordinate that is out of range is the position *along* the proven axis when the
            // proof type is Row and the column is out of range (or Col and the row): same class as
            // "position"; otherwise the out-of-range coordinate selects a root that does not exist
            let along_axis = (axis == AxisType::Row && !row_out) || (axis == AxisType::Col && row_out);
            let class = if along_axis { "position-out-of-square" } else { "out-of-square" };
            push(class, SAMPLE_CODE, mk_block(&cid2, &cont), Expect::Reject, None, d("identifier outside the square", json!({"id": [r2, c2]})));
        }
        // altered share byte / altered proof node / flipped proof type
        if let Some(off) = find(&cont, &truth) {
            let mut m = cont.clone();
            let at = off + rng.gen_range(0..truth.len());
            flip_one(rng, &mut m, at);
            push("altered-share", SAMPLE_CODE, mk_block(&cid, &m), Expect::Reject, None, d("one bit of the share flipped", json!({"byte": at - off})));
            if cont.len() > off + truth.len() + 40 {
                let mut m = cont.clone();
                // proof nodes follow the share in the encoding; stay inside a 90-byte node
                let at = rng.gen_range(off + truth.len() + 12..cont.len() - 4);
                flip_one(rng, &mut m, at);
                // a flip can land on framing bytes: only demand rejection when the container
                // still decodes to the same share with a *different* proof
                let id = celestia_types::sample::SampleId::new(r as u16, c as u16, ht.h).unwrap();
                let orig = Sample::decode(id, &cont).expect("honest container decodes");
                let expect = match Sample::decode(id, &m) {
                    // same share, same claimed tree, but other sibling hashes or another leaf range:
                    // such a proof cannot lead to the committed root
                    Ok(s) if s.share == orig.share
                        && s.proof_type == orig.proof_type
                        && (s.proof.siblings() != orig.proof.siblings()
                            || s.proof.start_idx() != orig.proof.start_idx()
                            || s.proof.end_idx() != orig.proof.end_idx()) =>
                    {
                        Expect::Reject
                    }
                    Ok(_) => Expect::Either,
                    Err(_) => Expect::Reject,
                };
                push("altered-proof", SAMPLE_CODE, mk_block(&cid, &m), expect, Some(want.clone()), d("one bit after the share flipped", json!({"byte": at})));
            }
        }
        {
            let other_axis = if axis == AxisType::Row { AxisType::Col } else { AxisType::Row };
            let mut s = Sample::new(r as u16, c as u16, axis, &ht.eds).unwrap();
            s.proof_type = other_axis;
            let mut b = BytesMut::new();
            s.encode(&mut b);
            // the proof proves the share in the row tree but claims the column tree (or vice versa);
            // the two roots commit to different leaves unless the row and the column hold the same data
            let same = (0..w).all(|i| share_bytes(&ht.eds, r, i) == share_bytes(&ht.eds, i, c));
            push("proof-type-flipped", SAMPLE_CODE, mk_block(&cid, &b), if same { Expect::Either } else { Expect::Reject }, Some(want.clone()), d("proof type flipped", json!(null)));
        }
        // container framing
        for (what, m) in [("empty", Vec::new()), ("truncated", cont[..rng.gen_range(0..cont.len())].to_vec()), ("garbage", vcore::rand_bytes(rng, 64))] {
            // cutting trailing default-able fields can leave a well-formed container that still
            // carries the right share (e.g. proof type Col -> Row in a square whose row and column
            // coincide): only demand rejection when it no longer carries the truth
            let id = celestia_types::sample::SampleId::new(r as u16, c as u16, ht.h).unwrap();
            let expect = match Sample::decode(id, &m) {
                Ok(s) if s.share.to_vec() == truth => Expect::Either,
                _ => Expect::Reject,
            };
            push("bad-container", SAMPLE_CODE, mk_block(&cid, &m), expect, Some(want.clone()), d(what, json!(null)));
        }
        // multihash code given to the hasher does not match the block's identifier type
        for code in [ROW_CODE, RND_CODE] {
            push("code-mismatch", code, mk_block(&cid, &cont), Expect::Reject, None, d("sample block hashed under another Shwap code", json!({"code": code})));
        }
        // unknown multihash codes
        for code in [0x12u64, 0x00, SAMPLE_CODEC, SAMPLE_CODE + 1, rng.r#gen()] {
            if [ROW_CODE, RND_CODE, SAMPLE_CODE].contains(&code) {
                continue;
            }
            push("unknown-code", code, mk_block(&cid, &cont), Expect::Reject, None, d("unknown multihash code", json!({"code": code})));
        }
        // malformed CIDs
        let bad_cids: Vec<(&str, Vec<u8>)> = vec![
            ("wrong-codec", mk_cid(ROW_CODEC, SAMPLE_CODE, &idb).to_bytes()),
            ("wrong-codec", mk_cid(0x55, SAMPLE_CODE, &idb).to_bytes()),
            ("wrong-mh-code", mk_cid(SAMPLE_CODEC, ROW_CODE, &idb).to_bytes()),
            ("wrong-mh-code", mk_cid(SAMPLE_CODEC, 0x12, &idb).to_bytes()),
            ("wrong-length", mk_cid(SAMPLE_CODEC, SAMPLE_CODE, &idb[..idb.len() - 1]).to_bytes()),
            ("wrong-length", mk_cid(SAMPLE_CODEC, SAMPLE_CODE, &[&idb[..], &[0u8]].concat()).to_bytes()),
            ("zero-height", mk_cid(SAMPLE_CODEC, SAMPLE_CODE, &sample_id_bytes(0, r as u16, c as u16)).to_bytes()),
            ("truncated-cid", cid.to_bytes()[..rng.gen_range(0..cid.to_bytes().len())].to_vec()),
            ("empty-cid", Vec::new()),
        ];
        for (what, cb) in bad_cids {
            let block = Block { cid: cb, container: cont.clone() }.encode_to_vec();
            push("bad-cid", SAMPLE_CODE, block, Expect::Reject, None, d(what, json!(null)));
        }
        // block framing
        {
            let honest = mk_block(&cid, &cont);
            let cut = honest[..rng.gen_range(0..honest.len())].to_vec();
            push("bad-block", SAMPLE_CODE, cut, Expect::Reject, None, d("block truncated", json!(null)));
            push("bad-block", SAMPLE_CODE, vcore::rand_bytes(rng, 80), Expect::Either, None, d("random bytes", json!(null)));
        }
    }
}

fn row_cases(rng: &mut ChaCha8Rng, world: &World, hi: usize, out: &mut Vec<Case>, n_rows: usize) {
    let ht = &world.heights[hi];
    let w = 2 * ht.k;
    let k = ht.k;
    let rows: Vec<usize> = if w <= n_rows { (0..w).collect() } else { (0..n_rows).map(|i| if i % 2 == 0 { rng.gen_range(0..k) } else { rng.gen_range(k..w) }).collect() };
    for r in rows {
        let idb = row_id_bytes(ht.h, r as u16);
        let cid = mk_cid(ROW_CODEC, ROW_CODE, &idb);
        let want = Multihash::<64>::wrap(ROW_CODE, &idb).unwrap().to_bytes();
        let cont = row_container(&ht.eds, r);
        let row_bytes = |eds: &ExtendedDataSquare, r: usize| -> Vec<Vec<u8>> { (0..eds.square_width() as usize).map(|c| share_bytes(eds, r, c).to_vec()).collect() };
        let truth = row_bytes(&ht.eds, r);
        let d = |what: &str, extra: Value| json!({"type": "row", "height": ht.h, "eds_width": w, "row": r, "what": what, "extra": extra});
        let mut push = |class: &str, code: u64, block: Vec<u8>, expect: Expect, want_hash: Option<Vec<u8>>, descr: Value| {
            out.push(Case { kind: "row", class: class.to_string(), code, block, expect, want_hash, descr });
        };
        push("honest", ROW_CODE, mk_block(&cid, &cont), Expect::Accept, Some(want.clone()), d("honest (left half)", json!(null)));
        // the other legal encoding: right half only
        {
            let raw = RawRow { shares_half: truth[k..].iter().map(|s| RawShare { data: s.clone() }).collect(), half_side: HalfSide::Right as i32 };
            push("right-half", ROW_CODE, mk_block(&cid, &raw.encode_to_vec()), Expect::Either, Some(want.clone()), d("honest (right half)", json!(null)));
        }
        // another row of the same square
        {
            let r2 = (r + rng.gen_range(1..w)) % w;
            let expect = if row_bytes(&ht.eds, r2) == truth { Expect::Either } else { Expect::Reject };
            push("other-row", ROW_CODE, mk_block(&cid, &row_container(&ht.eds, r2)), expect, Some(want.clone()), d("honest row of another index", json!({"from": r2})));
        }
        // same row of another stored height
        if world.heights.len() > 1 {
            let oi = (hi + rng.gen_range(1..world.heights.len())) % world.heights.len();
            let o = &world.heights[oi];
            if r < 2 * o.k {
                let expect = if row_bytes(&o.eds, r) == truth { Expect::Either } else { Expect::Reject };
                push("other-height", ROW_CODE, mk_block(&cid, &row_container(&o.eds, r)), expect, Some(want.clone()), d("honest row of another stored height", json!({"from_height": o.h})));
            }
        }
        {
            let uh = *world.unknown.choose(rng).unwrap();
            let cid2 = mk_cid(ROW_CODEC, ROW_CODE, &row_id_bytes(uh, r as u16));
            push("unknown-height", ROW_CODE, mk_block(&cid2, &cont), Expect::Reject, None, d("identifier height not stored", json!({"id_height": uh})));
        }
        {
            let r2 = *[w as u16, w as u16 + 1, u16::MAX].choose(rng).unwrap();
            let cid2 = mk_cid(ROW_CODEC, ROW_CODE, &row_id_bytes(ht.h, r2));
            push("out-of-square", ROW_CODE, mk_block(&cid2, &cont), Expect::Reject, None, d("row index outside the square", json!({"id_row": r2})));
        }
        // altered share byte, shares exchanged, a share dropped / duplicated
        {
            let i = rng.gen_range(0..k);
            if let Some(off) = find(&cont, &truth[i]) {
                let mut m = cont.clone();
                let at = off + rng.gen_range(0..truth[i].len());
                flip_one(rng, &mut m, at);
                push("altered-share", ROW_CODE, mk_block(&cid, &m), Expect::Reject, None, d("one bit of a share flipped", json!({"share": i, "byte": at - off})));
            }
            let left: Vec<RawShare> = truth[..k].iter().map(|s| RawShare { data: s.clone() }).collect();
            if k >= 2 {
                let (a, b) = (rng.gen_range(0..k), rng.gen_range(0..k));
                if truth[a] != truth[b] {
                    let mut v = left.clone();
                    v.swap(a, b);
                    let raw = RawRow { shares_half: v, half_side: HalfSide::Left as i32 };
                    push("shares-exchanged", ROW_CODE, mk_block(&cid, &raw.encode_to_vec()), Expect::Reject, None, d("two shares exchanged", json!({"a": a, "b": b})));
                }
            }
            let mut v = left.clone();
            v.pop();
            let raw = RawRow { shares_half: v, half_side: HalfSide::Left as i32 };
            push("share-count", ROW_CODE, mk_block(&cid, &raw.encode_to_vec()), Expect::Reject, None, d("last share dropped", json!(null)));
            let mut v = left.clone();
            v.push(left[k - 1].clone());
            let raw = RawRow { shares_half: v, half_side: HalfSide::Left as i32 };
            push("share-count", ROW_CODE, mk_block(&cid, &raw.encode_to_vec()), Expect::Reject, None, d("last share duplicated", json!(null)));
            // left half sent as the right half
            if truth[..k] != truth[k..] {
                let raw = RawRow { shares_half: left.clone(), half_side: HalfSide::Right as i32 };
                push("wrong-half-side", ROW_CODE, mk_block(&cid, &raw.encode_to_vec()), Expect::Reject, None, d("left half labelled as right half", json!(null)));
            }
        }
        for (what, m) in [("empty", Vec::new()), ("truncated", cont[..rng.gen_range(0..cont.len())].to_vec())] {
            // an empty / truncated row cannot carry this row (k >= 1 shares of 512 bytes) unless the
            // cut only removed default-able trailing fields
            let id = celestia_types::row::RowId::new(r as u16, ht.h).unwrap();
            let carries_truth = guard(|| Row::decode(id, &m)).ok().and_then(|r| r.ok()).is_some_and(|row| row.shares.iter().map(|s| s.to_vec()).collect::<Vec<_>>() == truth);
            let expect = if carries_truth { Expect::Either } else { Expect::Reject };
            push("bad-container", ROW_CODE, mk_block(&cid, &m), expect, Some(want.clone()), d(what, json!(null)));
        }
        for code in [SAMPLE_CODE, RND_CODE, 0x12, ROW_CODEC] {
            push(if code == 0x12 || code == ROW_CODEC { "unknown-code" } else { "code-mismatch" }, code, mk_block(&cid, &cont), Expect::Reject, None, d("row block hashed under another code", json!({"code": code})));
        }
        for (what, cb) in [
            ("wrong-codec", mk_cid(SAMPLE_CODEC, ROW_CODE, &idb).to_bytes()),
            ("wrong-mh-code", mk_cid(ROW_CODEC, SAMPLE_CODE, &idb).to_bytes()),
            ("wrong-length", mk_cid(ROW_CODEC, ROW_CODE, &[&idb[..], &[0u8, 0]].concat()).to_bytes()),
            ("zero-height", mk_cid(ROW_CODEC, ROW_CODE, &row_id_bytes(0, r as u16)).to_bytes()),
        ] {
            let block = Block { cid: cb, container: cont.clone() }.encode_to_vec();
            push("bad-cid", ROW_CODE, block, Expect::Reject, None, d(what, json!(null)));
        }
    }
}

fn rnd_cases(rng: &mut ChaCha8Rng, world: &World, hi: usize, out: &mut Vec<Case>, n_ns: usize) {
    let ht = &world.heights[hi];
    let w = 2 * ht.k;
    let k = ht.k;
    // namespaces present in the square, and some that are absent (inside / outside row ranges)
    let mut nss: Vec<Namespace> = ht.info.namespaces.clone();
    nss.shuffle(rng);
    nss.truncate(n_ns);
    for _ in 0..2 {
        let cluster = rng.gen_bool(0.5);
        nss.push(random_user_namespace(rng, cluster));
    }
    for ns in nss {
        if ns == Namespace::PARITY_SHARE {
            continue;
        }
        let Ok(rows) = ht.eds.get_namespace_data(ns, &ht.dah, ht.h) else { continue };
        let scan = scan_namespace(&ht.eds, &ns);
        // shares of `ns` in ODS row `row`; a row whose range does not cover `ns` holds none
        let truth_for = |row: usize| -> Option<Vec<Vec<u8>>> { Some(scan.iter().find(|(r, _)| *r == row).map(|(_, s)| s.clone()).unwrap_or_default()) };
        for (id, data) in &rows {
            let r = id.row_index() as usize;
            if r >= k {
                continue;
            }
            let carried: Vec<Vec<u8>> = data.shares.iter().map(|s| s.to_vec()).collect();
            let Some(truth) = truth_for(r) else { continue };
            if carried != truth {
                // generator and brute-force scan disagree: that is C06's subject, not usable as ground truth here
                continue;
            }
            let idb = rnd_id_bytes(ht.h, r as u16, ns.as_bytes());
            let cid = mk_cid(RND_CODEC, RND_CODE, &idb);
            let want = Multihash::<64>::wrap(RND_CODE, &idb).unwrap().to_bytes();
            let cont = rnd_container(data);
            let d = |what: &str, extra: Value| json!({"type": "row-namespace-data", "height": ht.h, "eds_width": w, "row": r, "namespace": hex(ns.as_bytes()), "shares": carried.len(), "what": what, "extra": extra});
            let mut push = |class: &str, code: u64, block: Vec<u8>, expect: Expect, want_hash: Option<Vec<u8>>, descr: Value| {
                out.push(Case { kind: "rnd", class: class.to_string(), code, block, expect, want_hash, descr });
            };
            push(if carried.is_empty() { "honest-absent" } else { "honest" }, RND_CODE, mk_block(&cid, &cont), Expect::Accept, Some(want.clone()), d("honest", json!(null)));
            // the same data under the identifier of another row
            {
                let r2 = (r + rng.gen_range(1..k.max(2))) % k;
                if r2 != r {
                    let cid2 = mk_cid(RND_CODEC, RND_CODE, &rnd_id_bytes(ht.h, r2 as u16, ns.as_bytes()));
                    let expect = if truth_for(r2).as_ref() == Some(&carried) { Expect::Either } else { Expect::Reject };
                    push("other-row", RND_CODE, mk_block(&cid2, &cont), expect, None, d("data of this row under the identifier of another row", json!({"id_row": r2})));
                }
            }
            // under another namespace
            {
                let ns2 = random_user_namespace(rng, false);
                if ns2 != ns {
                    let cid2 = mk_cid(RND_CODEC, RND_CODE, &rnd_id_bytes(ht.h, r as u16, ns2.as_bytes()));
                    let t2 = scan_namespace(&ht.eds, &ns2).into_iter().find(|(rr, _)| *rr == r).map(|(_, s)| s).unwrap_or_default();
                    // (whether an absence proof of one namespace may stand for another absent one is C06's subject)
                    let expect = if carried.is_empty() || t2 == carried { Expect::Either } else { Expect::Reject };
                    push("other-namespace", RND_CODE, mk_block(&cid2, &cont), expect, None, d("data under the identifier of another namespace", json!({"id_namespace": hex(ns2.as_bytes())})));
                }
            }
            {
                let uh = *world.unknown.choose(rng).unwrap();
                let cid2 = mk_cid(RND_CODEC, RND_CODE, &rnd_id_bytes(uh, r as u16, ns.as_bytes()));
                push("unknown-height", RND_CODE, mk_block(&cid2, &cont), Expect::Reject, None, d("identifier height not stored", json!({"id_height": uh})));
            }
            if world.heights.len() > 1 {
                let oi = (hi + rng.gen_range(1..world.heights.len())) % world.heights.len();
                let o = &world.heights[oi];
                let cid2 = mk_cid(RND_CODEC, RND_CODE, &rnd_id_bytes(o.h, r as u16, ns.as_bytes()));
                let t2 = if r < o.k { scan_namespace(&o.eds, &ns).into_iter().find(|(rr, _)| *rr == r).map(|(_, s)| s).unwrap_or_default() } else { Vec::new() };
                let expect = if carried.is_empty() || t2 == carried { Expect::Either } else { Expect::Reject };
                push("other-height", RND_CODE, mk_block(&cid2, &cont), expect, None, d("data under the identifier of another stored height", json!({"id_height": o.h})));
            }
            if !carried.is_empty() {
                // incomplete: first / last share withheld, proof kept
                for drop_first in [true, false] {
                    let mut d2 = data.clone();
                    if drop_first {
                        d2.shares.remove(0);
                    } else {
                        d2.shares.pop();
                    }
                    push("share-withheld", RND_CODE, mk_block(&cid, &rnd_container(&d2)), Expect::Reject, None, d("a share of the namespace withheld", json!({"first": drop_first})));
                }
                let i = rng.gen_range(0..carried.len());
                if let Some(off) = find(&cont, &carried[i]) {
                    let mut m = cont.clone();
                    // keep the namespace bytes: flip inside the payload part
                    let at = off + rng.gen_range(NS_SIZE..carried[i].len());
                    flip_one(rng, &mut m, at);
                    push("altered-share", RND_CODE, mk_block(&cid, &m), Expect::Reject, None, d("one bit of a share flipped", json!({"share": i, "byte": at - off})));
                }
                // one bit of a proof node flipped (hash part or namespace range part)
                if let Some(node) = data.proof.siblings().first().map(|n| celestia_types::nmt::NamespacedHashExt::to_vec(n)) {
                    if let Some(off) = find(&cont, &node) {
                        let mut m = cont.clone();
                        let at = off + rng.gen_range(0..node.len());
                        flip_one(rng, &mut m, at);
                        push("altered-proof", RND_CODE, mk_block(&cid, &m), Expect::Reject, None, d("one bit of a proof node flipped", json!({"node_byte": at - off})));
                    }
                }
                if carried.len() >= 2 && carried[0] != carried[carried.len() - 1] {
                    let mut d2 = data.clone();
                    let n = d2.shares.len();
                    d2.shares.swap(0, n - 1);
                    push("shares-exchanged", RND_CODE, mk_block(&cid, &rnd_container(&d2)), Expect::Reject, None, d("first and last share exchanged", json!(null)));
                }
            }
            for code in [SAMPLE_CODE, ROW_CODE, 0xb220] {
                push(if code == 0xb220 { "unknown-code" } else { "code-mismatch" }, code, mk_block(&cid, &cont), Expect::Reject, None, d("block hashed under another code", json!({"code": code})));
            }
            for (what, cb) in [
                ("wrong-codec", mk_cid(ROW_CODEC, RND_CODE, &idb).to_bytes()),
                ("wrong-mh-code", mk_cid(RND_CODEC, ROW_CODE, &idb).to_bytes()),
                ("wrong-length", mk_cid(RND_CODEC, RND_CODE, &idb[..idb.len() - 1]).to_bytes()),
                ("invalid-namespace", mk_cid(RND_CODEC, RND_CODE, &rnd_id_bytes(ht.h, r as u16, &[7u8; NS_SIZE])).to_bytes()),
            ] {
                let block = Block { cid: cb, container: cont.clone() }.encode_to_vec();
                push("bad-cid", RND_CODE, block, Expect::Reject, None, d(what, json!(null)));
            }
        }
    }
}

fn build_world(rng: &mut ChaCha8Rng, widths: &[usize]) -> World {
    let app: AppVersion = random_app_version(rng);
    let start = rng.gen_range(5..500u64);
    let time = tendermint::Time::from_unix_timestamp(1_750_000_000, 0).unwrap();
    let sub = ChaCha8Rng::from_seed(rng.r#gen());
    let mut chain = ChainGen::new(sub, "c10-chain", app.as_u64(), &[7, 5], start, time, Duration::from_secs(6));
    let mut heights = Vec::new();
    for k in widths {
        let (eds, _, info) = gen_eds(rng, *k, app);
        let dah = DataAvailabilityHeader::from_eds(&eds);
        let hdr = chain.next_with(Some(dah.clone()), None, &[]);
        heights.push(Height { h: hdr.height(), k: *k, eds, dah, info });
    }
    let last = start + widths.len() as u64 - 1;
    let unknown = vec![start - 1, 1, last + 1, last + 1000, u64::MAX];
    World { store: Arc::new(InMemoryStore::new()), heights, unknown: unknown.into_iter().chain(std::iter::once(start - 2)).collect() }
        .with_chain(chain)
}

impl World {
    fn with_chain(self, chain: ChainGen) -> World {
        let rt = tokio::runtime::Builder::new_current_thread().build().unwrap();
        rt.block_on(async {
            self.store.insert(chain.headers.clone()).await.expect("valid chain is insertable");
        });
        self
    }
}

fn one_world(ctx: &Ctx, case: u64) {
    let mut rng = ctx.rng(1, case);
    let rng = &mut rng;
    let pool: &[usize] = if ctx.quick() { &[1, 2, 2, 4, 4, 8, 8, 16] } else { &[1, 2, 2, 4, 4, 8, 8, 16, 16, 32] };
    let n = rng.gen_range(3..=4);
    let widths: Vec<usize> = (0..n).map(|_| *pool.choose(rng).unwrap()).collect();
    let world = build_world(rng, &widths);
    ctx.count("worlds");
    ctx.count_n("stored_heights", world.heights.len() as u64);

    // generator sanity: the harness' identifier layout is the one lumina uses
    {
        let ht = &world.heights[0];
        let mine = mk_cid(SAMPLE_CODEC, SAMPLE_CODE, &sample_id_bytes(ht.h, 1, 0));
        match sample_cid(1, 0, ht.h) {
            Ok(c) if c == mine => ctx.count("cid_layout_agrees"),
            other => {
                ctx.inconclusive(&format!("harness: identifier layout disagrees with lumina's sample_cid: {other:?} vs {mine}"));
                return;
            }
        }
    }

    let mut cases = Vec::new();
    for hi in 0..world.heights.len() {
        sample_cases(rng, &world, hi, &mut cases, 6);
        row_cases(rng, &world, hi, &mut cases, 6);
        rnd_cases(rng, &world, hi, &mut cases, 4);
    }

    let rt = tokio::runtime::Builder::new_current_thread().build().unwrap();
    for c in cases {
        let store = world.store.clone();
        let res = guard(|| rt.block_on(multihash(store, c.code, &c.block)));
        ctx.eval();
        ctx.count(&format!("{}_{}", c.kind, c.class));
        let detail = |res: &str| json!({"case": case, "multihash_code": c.code, "class": c.class, "block": c.descr, "result": res, "block_hex": vcore::hex_full(&c.block[..c.block.len().min(4096)])});
        match res {
            Err(p) => {
                // the unconditional panic of nmt-rs 0.2.5 `hash_nodes` on disordered proof nodes is one
                // defect, whichever container type carried the proof
                let sig = if p.contains("left max namespace must be <= right min namespace") {
                    "C10/verify/panic/nmt-rs-hash_nodes-namespace-order".to_string()
                } else {
                    format!("C10/{}/panic/{}", c.kind, panic_site(&p))
                };
                ctx.count(&format!("{}_panic", c.kind));
                ctx.violation(&sig, &format!("ShwapMultihasher::hash panicked ({} / {}): {p}", c.kind, c.class), detail("panic"));
            }
            Ok(Ok(h)) => {
                ctx.count(&format!("{}_accepted", c.kind));
                match c.expect {
                    Expect::Reject => {
                        let sig = if c.kind == "sample" && c.class.starts_with("position") { "C10/sample/position-unbound".to_string() } else { format!("C10/{}/accepts/{}", c.kind, c.class) };
                        ctx.violation(&sig, &format!("block accepted although it must not verify ({} / {}): {}", c.kind, c.class, c.descr), detail("Ok"));
                    }
                    _ => {
                        if let Some(wh) = &c.want_hash {
                            if &h != wh {
                                ctx.violation(&format!("C10/{}/wrong-hash", c.kind), &format!("hash returned is not the identifier's multihash: {} vs {}", hex(&h), hex(wh)), detail("Ok"));
                                continue;
                            }
                        }
                        if c.expect == Expect::Accept {
                            ctx.nontrivial(&("ok", vcore::hash64(&c.block)));
                            ctx.sample(|| detail("Ok"));
                        } else {
                            ctx.count(&format!("either_accepted_{}_{}", c.kind, c.class));
                        }
                    }
                }
            }
            Ok(Err(e)) => {
                ctx.count(&format!("{}_rejected", c.kind));
                match c.expect {
                    Expect::Accept => ctx.violation(&format!("C10/{}/rejects-honest/{}", c.kind, c.class), &format!("honest block for a stored height rejected: {e}"), detail(&e)),
                    Expect::Reject => {
                        ctx.count("rejected_as_required");
                        ctx.nontrivial(&("err", c.kind, &c.class, vcore::hash64(&c.block)));
                    }
                    Expect::Either => ctx.count(&format!("either_rejected_{}_{}", c.kind, c.class)),
                }
            }
        }
    }

    // get_block_container: CID equality
    for hi in 0..world.heights.len() {
        let ht = &world.heights[hi];
        let w = 2 * ht.k;
        let (r, c) = (rng.gen_range(0..w), rng.gen_range(0..w));
        let cid = mk_cid(SAMPLE_CODEC, SAMPLE_CODE, &sample_id_bytes(ht.h, r as u16, c as u16));
        let (cont, _) = sample_container(&ht.eds, r, c, AxisType::Row);
        let block = mk_block(&cid, &cont);
        ctx.eval();
        match guard(|| get_block_container(&cid, &block)) {
            Ok(Ok(got)) if got == cont => ctx.count("get_block_container_ok"),
            other => ctx.violation("C10/get_block_container/honest", &format!("container of an honest block not returned: {other:?}"), json!({"case": case})),
        }
        let others = [
            mk_cid(SAMPLE_CODEC, SAMPLE_CODE, &sample_id_bytes(ht.h, r as u16, (c as u16 + 1) % w as u16)),
            mk_cid(SAMPLE_CODEC, SAMPLE_CODE, &sample_id_bytes(ht.h + 1, r as u16, c as u16)),
            mk_cid(ROW_CODEC, ROW_CODE, &row_id_bytes(ht.h, r as u16)),
        ];
        for o in others {
            if o == cid {
                continue;
            }
            ctx.eval();
            match guard(|| get_block_container(&o, &block)) {
                Ok(Err(_)) => ctx.count("get_block_container_rejected"),
                Ok(Ok(_)) => ctx.violation("C10/get_block_container/accepts-other-cid", "container returned although the block's CID differs from the expected one", json!({"case": case, "expected": o.to_string(), "in_block": cid.to_string()})),
                Err(p) => ctx.violation(&format!("C10/get_block_container/panic/{}", panic_site(&p)), &p, json!({"case": case})),
            }
        }
    }
}

pub fn run(ctx: &Ctx) {
    ctx.rule(
        "Worlds = InMemoryStore with a signed 3-4 header chain (2 validators) whose DAHs come from real squares (ODS width \
         1..16, 32 in thorough) at consecutive heights starting at a random height. Per stored height: sample blocks for 6 \
         cells (all quadrants, both proof types), row blocks for up to 6 rows (both halves), row-namespace-data blocks for \
         up to 4 present + 2 random namespaces x rows. Each honest block is accompanied by hostile ones: container of \
         another cell on the same axis / unrelated cell / other row / other namespace / other stored height, identifier of \
         a height that is not stored, coordinates outside the square, altered share, altered proof, flipped proof type, \
         exchanged / withheld / extra shares, wrong half label, truncated or empty containers, identifiers with wrong \
         codec / multihash code / length / zero height / invalid namespace, blocks hashed under another Shwap code or an \
         unknown code. Expectation per block is derived from the raw bytes of the stored squares (Reject only when the \
         carried data differs from the truth at the identifier, otherwise 'either'). Non-trivial = block that was hashed, \
         distinct by block bytes.",
    );
    ctx.assume("identifier wire layout (height|row|col / namespace, big endian) and CID/multihash assembly by the `cid` crate; agreement with lumina's sample_cid is checked per world");
    ctx.assume("InMemoryStore returns the header that was inserted at a height (C19/C20 decide that)");

    let worlds = ctx.scale(40u64, 1_200u64);
    let shards = ctx.cores();
    ctx.par(shards, |shard| {
        for case in (shard as u64..worlds).step_by(shards) {
            one_world(ctx, case);
        }
    });

    ctx.floor("sample_honest", 300);
    ctx.floor("row_honest", 200);
    ctx.floor("rnd_honest", 100);
    ctx.floor("rnd_honest-absent", 5);
    ctx.floor("sample_position", 300);
    ctx.floor("sample_unknown-height", 300);
    ctx.floor("row_unknown-height", 200);
    ctx.floor("rnd_unknown-height", 100);
    ctx.floor("sample_altered-share", 200);
    ctx.floor("row_altered-share", 200);
    ctx.floor("rnd_share-withheld", 50);
    ctx.floor("sample_bad-cid", 1_000);
    ctx.floor("sample_unknown-code", 500);
    ctx.floor("rejected_as_required", 5_000);
    ctx.floor("get_block_container_rejected", 100);
}
